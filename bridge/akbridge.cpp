// extern "C" bridge over libawkward's public C++ classes (tier L of /verif/DESIGN.md).
// Nothing but integers, doubles and byte strings crosses the boundary. Every entry point returns a status:
//   0 ok, 1 std::invalid_argument, 2 std::runtime_error, 3 any other std::exception, 4 bridge misuse
// and leaves a message retrievable with akb_last_error().
#include <cstring>
#include <cstdio>
#include <map>
#include <mutex>
#include <string>
#include <sstream>
#include <vector>
#include <stdexcept>

#include "awkward/Content.h"
#include "awkward/Index.h"
#include "awkward/Slice.h"
#include "awkward/Reducer.h"
#include "awkward/type/Type.h"
#include "awkward/type/ArrayType.h"
#include "awkward/array/NumpyArray.h"
#include "awkward/array/EmptyArray.h"
#include "awkward/array/ListArray.h"
#include "awkward/array/ListOffsetArray.h"
#include "awkward/array/RegularArray.h"
#include "awkward/array/IndexedArray.h"
#include "awkward/array/ByteMaskedArray.h"
#include "awkward/array/BitMaskedArray.h"
#include "awkward/array/UnmaskedArray.h"
#include "awkward/array/RecordArray.h"
#include "awkward/array/Record.h"
#include "awkward/array/None.h"
#include "awkward/array/UnionArray.h"
#include "awkward/kernel-dispatch.h"
#include "awkward/util.h"

#include "akbridge.h"

namespace ak = awkward;
using namespace akb;

namespace akb {
  std::map<int64_t, ak::ContentPtr> contents;
  std::map<int64_t, AnyIndex> indexes;
  std::map<int64_t, std::shared_ptr<ak::Slice>> slices;
  std::map<int64_t, ak::FormPtr> forms;
  std::map<int64_t, ak::TypePtr> types;
  int64_t next_handle = 1;
  thread_local std::string last_error;
  thread_local std::string last_string;
  // heap-allocated and never destroyed: deleters may still run while static objects are torn down at exit
  std::mutex& released_mutex = *new std::mutex();
  std::vector<int64_t>& released_tokens = *new std::vector<int64_t>();

  int64_t put(const ak::ContentPtr& c) {
    if (c.get() == nullptr) throw BridgeError("bridge: null ContentPtr returned");
    int64_t h = next_handle++; contents[h] = c; return h;
  }
  int64_t put(const AnyIndex& x) { int64_t h = next_handle++; indexes[h] = x; return h; }
  int64_t put(const ak::FormPtr& f) { int64_t h = next_handle++; forms[h] = f; return h; }
  int64_t put(const ak::TypePtr& t) { int64_t h = next_handle++; types[h] = t; return h; }
  const ak::ContentPtr& getc(int64_t h) {
    auto it = contents.find(h);
    if (it == contents.end()) throw BridgeError("bridge: bad content handle");
    return it->second;
  }
  const AnyIndex& geti(int64_t h) {
    auto it = indexes.find(h);
    if (it == indexes.end()) throw BridgeError("bridge: bad index handle");
    return it->second;
  }
  const ak::FormPtr& getf(int64_t h) {
    auto it = forms.find(h);
    if (it == forms.end()) throw BridgeError("bridge: bad form handle");
    return it->second;
  }
  const ak::TypePtr& gett(int64_t h) {
    auto it = types.find(h);
    if (it == types.end()) throw BridgeError("bridge: bad type handle");
    return it->second;
  }
  AnyIndex wrap(const ak::Index8& x) { AnyIndex a; a.kind = 0; a.i8 = std::make_shared<ak::Index8>(x); return a; }
  AnyIndex wrap(const ak::IndexU8& x) { AnyIndex a; a.kind = 1; a.u8 = std::make_shared<ak::IndexU8>(x); return a; }
  AnyIndex wrap(const ak::Index32& x) { AnyIndex a; a.kind = 2; a.i32 = std::make_shared<ak::Index32>(x); return a; }
  AnyIndex wrap(const ak::IndexU32& x) { AnyIndex a; a.kind = 3; a.u32 = std::make_shared<ak::IndexU32>(x); return a; }
  AnyIndex wrap(const ak::Index64& x) { AnyIndex a; a.kind = 4; a.i64 = std::make_shared<ak::Index64>(x); return a; }

  const ak::Index64& need64(int64_t h) { const AnyIndex& a = geti(h); if (a.kind != 4) throw std::invalid_argument("bridge: Index64 required"); return *a.i64; }
  const ak::Index8& need8(int64_t h) { const AnyIndex& a = geti(h); if (a.kind != 0) throw std::invalid_argument("bridge: Index8 required"); return *a.i8; }
  const ak::IndexU8& needU8(int64_t h) { const AnyIndex& a = geti(h); if (a.kind != 1) throw std::invalid_argument("bridge: IndexU8 required"); return *a.u8; }

  struct TokenDeleter {
    int64_t token;
    void operator()(void const*) const {
      if (token != 0) { std::lock_guard<std::mutex> g(released_mutex); released_tokens.push_back(token); }
    }
  };

  template <typename T>
  ak::IndexOf<T> view_index(void* data, int64_t n, int64_t token) {
    if (token < 0) {   // owned copy
      ak::IndexOf<T> out(n, ak::kernel::lib::cpu);
      if (n > 0) std::memcpy(out.data(), data, (size_t)n * sizeof(T));
      return out;
    }
    return ak::IndexOf<T>(std::shared_ptr<T>(reinterpret_cast<T*>(data), TokenDeleter{token}), 0, n, ak::kernel::lib::cpu);
  }

  ak::util::Parameters no_params() { return ak::util::Parameters(); }

  void ret_content(AkbResult* out, const ak::ContentPtr& c) { out->kind = K_CONTENT; out->h = put(c); }
  void ret_index(AkbResult* out, const AnyIndex& x) { out->kind = K_INDEX; out->h = put(x); }
  void ret_int(AkbResult* out, int64_t i) { out->kind = K_INT; out->i = i; }
  void ret_bool(AkbResult* out, bool b) { out->kind = K_BOOL; out->i = b ? 1 : 0; }
  void ret_str(AkbResult* out, const std::string& s) { last_string = s; out->kind = K_STR; out->s = last_string.data(); out->slen = (int64_t)last_string.size(); }
  void ret_form(AkbResult* out, const ak::FormPtr& f) { out->kind = K_FORM; out->h = put(f); }
  void ret_type(AkbResult* out, const ak::TypePtr& t) { out->kind = K_TYPE; out->h = put(t); }
  void ret_handles(AkbResult* out, const std::vector<int64_t>& hs) {
    std::string s = "[";
    for (size_t i = 0; i < hs.size(); i++) { if (i) s += ","; s += std::to_string(hs[i]); }
    ret_str(out, s + "]");
  }
  std::string json_strings(const std::vector<std::string>& v) {
    std::string s = "[";
    for (size_t i = 0; i < v.size(); i++) { if (i) s += ","; s += ak::util::quote(v[i]); }
    return s + "]";
  }
  std::string json_parameters(const ak::util::Parameters& p) {
    std::string out = "{";
    bool first = true;
    for (auto pair : p) {
      if (!first) out += ",";
      first = false;
      out += ak::util::quote(pair.first) + ":" + pair.second;
    }
    return out + "}";
  }
}

#define LISTCLASSES(X) X(ak::ListOffsetArray32) X(ak::ListOffsetArrayU32) X(ak::ListOffsetArray64) X(ak::ListArray32) X(ak::ListArrayU32) X(ak::ListArray64) X(ak::RegularArray)
#define LISTOFFSETCLASSES(X) X(ak::ListOffsetArray32) X(ak::ListOffsetArrayU32) X(ak::ListOffsetArray64)
#define LISTARRAYCLASSES(X) X(ak::ListArray32) X(ak::ListArrayU32) X(ak::ListArray64)
#define INDEXEDCLASSES(X) X(ak::IndexedArray32) X(ak::IndexedArrayU32) X(ak::IndexedArray64) X(ak::IndexedOptionArray32) X(ak::IndexedOptionArray64)
#define OPTIONCLASSES(X) X(ak::IndexedOptionArray32) X(ak::IndexedOptionArray64) X(ak::ByteMaskedArray) X(ak::BitMaskedArray) X(ak::UnmaskedArray)
#define UNIONCLASSES(X) X(ak::UnionArray8_32) X(ak::UnionArray8_U32) X(ak::UnionArray8_64)

static std::shared_ptr<ak::Reducer> make_reducer(const std::string& name, bool has_initial, double f, int64_t i) {
  if (name == "count") return std::make_shared<ak::ReducerCount>();
  if (name == "count_nonzero") return std::make_shared<ak::ReducerCountNonzero>();
  if (name == "sum") return std::make_shared<ak::ReducerSum>();
  if (name == "prod") return std::make_shared<ak::ReducerProd>();
  if (name == "any") return std::make_shared<ak::ReducerAny>();
  if (name == "all") return std::make_shared<ak::ReducerAll>();
  if (name == "argmin") return std::make_shared<ak::ReducerArgmin>();
  if (name == "argmax") return std::make_shared<ak::ReducerArgmax>();
  if (name == "min") {
    if (!has_initial) return std::make_shared<ak::ReducerMin>();
    return std::make_shared<ak::ReducerMin>(f, (uint64_t)(f > 0 ? (uint64_t)i : 0), i);
  }
  if (name == "max") {
    if (!has_initial) return std::make_shared<ak::ReducerMax>();
    return std::make_shared<ak::ReducerMax>(f, (uint64_t)(f > 0 ? (uint64_t)i : 0), i);
  }
  throw BridgeError("bridge: unknown reducer " + name);
}

static ak::util::RecordLookupPtr lookup_from(const std::vector<std::string>& ss, size_t from, size_t n) {
  ak::util::RecordLookupPtr out = std::make_shared<ak::util::RecordLookup>();
  for (size_t i = 0; i < n; i++) out->push_back(ss.at(from + i));
  return out;
}

static const char* cstr_or_null(const std::vector<std::string>& ss, size_t i, const std::vector<int64_t>& ia, size_t flagpos) {
  return (ia.size() > flagpos && ia[flagpos] != 0) ? ss.at(i).c_str() : nullptr;
}

static void dispatch(const std::string& op, const std::vector<int64_t>& h, const std::vector<int64_t>& ia,
                     const std::vector<double>& da, const std::vector<std::string>& ss, AkbResult* out) {
  // ------------------------------------------------------------------ constructors
  if (op == "EmptyArray") { ret_content(out, std::make_shared<ak::EmptyArray>(ak::Identities::none(), no_params())); return; }
  if (op == "ListOffsetArray") {
    const AnyIndex& o = geti(h.at(0));
    switch (o.kind) {
      case 2: ret_content(out, std::make_shared<ak::ListOffsetArray32>(ak::Identities::none(), no_params(), *o.i32, getc(h.at(1)))); return;
      case 3: ret_content(out, std::make_shared<ak::ListOffsetArrayU32>(ak::Identities::none(), no_params(), *o.u32, getc(h.at(1)))); return;
      case 4: ret_content(out, std::make_shared<ak::ListOffsetArray64>(ak::Identities::none(), no_params(), *o.i64, getc(h.at(1)))); return;
    }
    throw std::invalid_argument("bridge: offsets must be 32/U32/64");
  }
  if (op == "ListArray") {
    const AnyIndex& a = geti(h.at(0)); const AnyIndex& b = geti(h.at(1));
    if (a.kind != b.kind) throw std::invalid_argument("bridge: starts/stops kinds differ");
    switch (a.kind) {
      case 2: ret_content(out, std::make_shared<ak::ListArray32>(ak::Identities::none(), no_params(), *a.i32, *b.i32, getc(h.at(2)))); return;
      case 3: ret_content(out, std::make_shared<ak::ListArrayU32>(ak::Identities::none(), no_params(), *a.u32, *b.u32, getc(h.at(2)))); return;
      case 4: ret_content(out, std::make_shared<ak::ListArray64>(ak::Identities::none(), no_params(), *a.i64, *b.i64, getc(h.at(2)))); return;
    }
    throw std::invalid_argument("bridge: starts must be 32/U32/64");
  }
  if (op == "RegularArray") { ret_content(out, std::make_shared<ak::RegularArray>(ak::Identities::none(), no_params(), getc(h.at(0)), ia.at(0), ia.at(1))); return; }
  if (op == "IndexedArray") {
    const AnyIndex& a = geti(h.at(0));
    if (ia.at(0)) {
      switch (a.kind) {
        case 2: ret_content(out, std::make_shared<ak::IndexedOptionArray32>(ak::Identities::none(), no_params(), *a.i32, getc(h.at(1)))); return;
        case 4: ret_content(out, std::make_shared<ak::IndexedOptionArray64>(ak::Identities::none(), no_params(), *a.i64, getc(h.at(1)))); return;
      }
    }
    else {
      switch (a.kind) {
        case 2: ret_content(out, std::make_shared<ak::IndexedArray32>(ak::Identities::none(), no_params(), *a.i32, getc(h.at(1)))); return;
        case 3: ret_content(out, std::make_shared<ak::IndexedArrayU32>(ak::Identities::none(), no_params(), *a.u32, getc(h.at(1)))); return;
        case 4: ret_content(out, std::make_shared<ak::IndexedArray64>(ak::Identities::none(), no_params(), *a.i64, getc(h.at(1)))); return;
      }
    }
    throw std::invalid_argument("bridge: bad index kind for IndexedArray");
  }
  if (op == "ByteMaskedArray") { ret_content(out, std::make_shared<ak::ByteMaskedArray>(ak::Identities::none(), no_params(), need8(h.at(0)), getc(h.at(1)), ia.at(0) != 0)); return; }
  if (op == "BitMaskedArray") { ret_content(out, std::make_shared<ak::BitMaskedArray>(ak::Identities::none(), no_params(), needU8(h.at(0)), getc(h.at(1)), ia.at(0) != 0, ia.at(1), ia.at(2) != 0)); return; }
  if (op == "UnmaskedArray") { ret_content(out, std::make_shared<ak::UnmaskedArray>(ak::Identities::none(), no_params(), getc(h.at(0)))); return; }
  if (op == "RecordArray") {
    // h: contents; ia[0]: has keys; ia[1]: has length; ia[2]: length; ss: keys
    ak::ContentPtrVec cs;
    for (auto x : h) cs.push_back(getc(x));
    ak::util::RecordLookupPtr lookup(nullptr);
    if (ia.at(0)) lookup = lookup_from(ss, 0, ss.size());
    if (ia.at(1)) ret_content(out, std::make_shared<ak::RecordArray>(ak::Identities::none(), no_params(), cs, lookup, ia.at(2)));
    else ret_content(out, std::make_shared<ak::RecordArray>(ak::Identities::none(), no_params(), cs, lookup));
    return;
  }
  if (op == "Record") {
    std::shared_ptr<const ak::RecordArray> ra = std::dynamic_pointer_cast<const ak::RecordArray>(getc(h.at(0)));
    if (!ra) throw std::invalid_argument("bridge: Record needs a RecordArray");
    ret_content(out, std::make_shared<ak::Record>(ra, ia.at(0)));
    return;
  }
  if (op == "UnionArray") {
    const AnyIndex& t = geti(h.at(0)); const AnyIndex& x = geti(h.at(1));
    if (t.kind != 0) throw std::invalid_argument("bridge: tags must be Index8");
    ak::ContentPtrVec cs;
    for (size_t i = 2; i < h.size(); i++) cs.push_back(getc(h[i]));
    switch (x.kind) {
      case 2: ret_content(out, std::make_shared<ak::UnionArray8_32>(ak::Identities::none(), no_params(), *t.i8, *x.i32, cs)); return;
      case 3: ret_content(out, std::make_shared<ak::UnionArray8_U32>(ak::Identities::none(), no_params(), *t.i8, *x.u32, cs)); return;
      case 4: ret_content(out, std::make_shared<ak::UnionArray8_64>(ak::Identities::none(), no_params(), *t.i8, *x.i64, cs)); return;
    }
    throw std::invalid_argument("bridge: union index must be 32/U32/64");
  }

  // ------------------------------------------------------------------ generic accessors
  if (op == "release") { for (auto x : h) { contents.erase(x); indexes.erase(x); slices.erase(x); forms.erase(x); types.erase(x); } out->kind = K_NONE; return; }
  if (op == "live_handles") { ret_int(out, (int64_t)(contents.size() + indexes.size() + slices.size() + forms.size() + types.size())); return; }

  if (op == "index_getitem_range") {
    const AnyIndex& a = geti(h.at(0));
    switch (a.kind) {
      case 0: ret_index(out, wrap(a.i8->getitem_range_nowrap(ia.at(0), ia.at(1)))); return;
      case 1: ret_index(out, wrap(a.u8->getitem_range_nowrap(ia.at(0), ia.at(1)))); return;
      case 2: ret_index(out, wrap(a.i32->getitem_range_nowrap(ia.at(0), ia.at(1)))); return;
      case 3: ret_index(out, wrap(a.u32->getitem_range_nowrap(ia.at(0), ia.at(1)))); return;
      case 4: ret_index(out, wrap(a.i64->getitem_range_nowrap(ia.at(0), ia.at(1)))); return;
    }
  }
  if (op == "index_tostring") {
    const AnyIndex& a = geti(h.at(0));
    switch (a.kind) {
      case 0: ret_str(out, a.i8->tostring()); return;
      case 1: ret_str(out, a.u8->tostring()); return;
      case 2: ret_str(out, a.i32->tostring()); return;
      case 3: ret_str(out, a.u32->tostring()); return;
      case 4: ret_str(out, a.i64->tostring()); return;
    }
  }
  if (op == "union_sparse_index") {
    switch (ia.at(0)) {
      case 2: ret_index(out, wrap(ak::UnionArray8_32::sparse_index(ia.at(1)))); return;
      case 3: ret_index(out, wrap(ak::UnionArray8_U32::sparse_index(ia.at(1)))); return;
      case 4: ret_index(out, wrap(ak::UnionArray8_64::sparse_index(ia.at(1)))); return;
    }
    throw BridgeError("bridge: bad union width");
  }
  if (op == "union_regular_index") {
    switch (ia.at(0)) {
      case 2: ret_index(out, wrap(ak::UnionArray8_32::regular_index(need8(h.at(0))))); return;
      case 3: ret_index(out, wrap(ak::UnionArray8_U32::regular_index(need8(h.at(0))))); return;
      case 4: ret_index(out, wrap(ak::UnionArray8_64::regular_index(need8(h.at(0))))); return;
    }
    throw BridgeError("bridge: bad union width");
  }
  if (op == "form_fromjson") { ret_form(out, ak::Form::fromjson(ss.at(0))); return; }
  if (op == "form_tojson") { ret_str(out, getf(h.at(0))->tojson(ia.at(0) != 0, ia.at(1) != 0)); return; }
  if (op == "form_tostring") { ret_str(out, getf(h.at(0))->tostring()); return; }
  if (op == "form_type") { ret_type(out, getf(h.at(0))->type(ak::util::TypeStrs())); return; }
  if (op == "form_equal") { ret_bool(out, getf(h.at(0))->equal(getf(h.at(1)), ia.at(0) != 0, ia.at(1) != 0, ia.at(2) != 0, ia.at(3) != 0)); return; }
  if (op == "form_int") {
    const ak::FormPtr& f = getf(h.at(0));
    switch (ia.at(0)) {
      case 0: ret_int(out, f->purelist_depth()); return;
      case 1: ret_bool(out, f->purelist_isregular()); return;
      case 2: ret_int(out, f->minmax_depth().first); return;
      case 3: ret_int(out, f->minmax_depth().second); return;
      case 4: ret_bool(out, f->branch_depth().first); return;
      case 5: ret_int(out, f->branch_depth().second); return;
      case 6: ret_int(out, f->numfields()); return;
      case 7: ret_bool(out, f->dimension_optiontype()); return;
    }
    throw BridgeError("bridge: bad form_int selector");
  }
  if (op == "form_keys") { ret_str(out, json_strings(getf(h.at(0))->keys())); return; }
  if (op == "form_fieldindex") { ret_int(out, getf(h.at(0))->fieldindex(ss.at(0))); return; }
  if (op == "form_key") { ret_str(out, getf(h.at(0))->key(ia.at(0))); return; }
  if (op == "form_haskey") { ret_bool(out, getf(h.at(0))->haskey(ss.at(0))); return; }
  if (op == "form_purelist_parameter") { ret_str(out, getf(h.at(0))->purelist_parameter(ss.at(0))); return; }
  if (op == "form_getitem_field") { ret_form(out, getf(h.at(0))->getitem_field(ss.at(0))); return; }
  if (op == "type_tostring") { ret_str(out, gett(h.at(0))->tostring()); return; }
  if (op == "type_equal") { ret_bool(out, gett(h.at(0))->equal(gett(h.at(1)), ia.at(0) != 0)); return; }
  if (op == "arraytype_tostring") { ak::ArrayType t(no_params(), std::string(), gett(h.at(0)), ia.at(0)); ret_str(out, t.tostring()); return; }

  // ops of further translation units (their first handle need not be a content)
  if (dispatch_more(op, h, ia, da, ss, out)) return;

  // ------------------------------------------------------------------ everything below works on a content
  const ak::ContentPtr& c = getc(h.at(0));
  ak::Content* raw = c.get();

  if (op == "persistent_ptr") { ret_int(out, (int64_t)reinterpret_cast<intptr_t>(new std::shared_ptr<ak::Content>(c))); return; }
  if (op == "classname") { ret_str(out, c->classname()); return; }
  if (op == "length") { ret_int(out, c->length()); return; }
  if (op == "isscalar") { ret_bool(out, c->isscalar()); return; }
  if (op == "tostring") { ret_str(out, c->tostring()); return; }
  if (op == "tojson") {
    // ia: pretty, maxdecimals, has_nan, has_inf, has_minf, has_re, has_im ; ss: five strings
    ret_str(out, c->tojson(ia.at(0) != 0, ia.at(1), cstr_or_null(ss, 0, ia, 2), cstr_or_null(ss, 1, ia, 3), cstr_or_null(ss, 2, ia, 4),
                           cstr_or_null(ss, 3, ia, 5), cstr_or_null(ss, 4, ia, 6)));
    return;
  }
  if (op == "tojson_file") {
    FILE* f = std::fopen(ss.at(5).c_str(), "wb");
    if (f == nullptr) throw std::invalid_argument("bridge: cannot open file for writing");
    try {
      c->tojson(f, ia.at(0) != 0, ia.at(1), ia.at(7), cstr_or_null(ss, 0, ia, 2), cstr_or_null(ss, 1, ia, 3), cstr_or_null(ss, 2, ia, 4),
                cstr_or_null(ss, 3, ia, 5), cstr_or_null(ss, 4, ia, 6));
    }
    catch (...) { std::fclose(f); throw; }
    std::fclose(f);
    out->kind = K_NONE;
    return;
  }
  if (op == "form") { ret_form(out, c->form(ia.at(0) != 0)); return; }
  if (op == "form_json") { ret_str(out, c->form(ia.at(0) != 0)->tojson(false, ia.at(1) != 0)); return; }
  if (op == "type") { ret_type(out, c->type(ak::util::TypeStrs())); return; }
  if (op == "typestr") { ret_str(out, c->type(ak::util::TypeStrs())->tostring()); return; }
  if (op == "validityerror") { ret_str(out, c->validityerror(ss.empty() ? std::string("layout") : ss[0])); return; }
  if (op == "parameters") { ret_str(out, json_parameters(c->parameters())); return; }
  if (op == "parameter") { ret_str(out, c->parameter(ss.at(0))); return; }
  if (op == "purelist_parameter") { ret_str(out, c->purelist_parameter(ss.at(0))); return; }
  if (op == "setparameter") { c->setparameter(ss.at(0), ss.at(1)); out->kind = K_NONE; return; }
  if (op == "setparameters") {
    ak::util::Parameters p;
    for (size_t i = 0; i + 1 < ss.size(); i += 2) p[ss[i]] = ss[i + 1];
    c->setparameters(p); out->kind = K_NONE; return;
  }
  if (op == "nbytes") { ret_int(out, c->nbytes()); return; }
  if (op == "purelist_depth") { ret_int(out, c->purelist_depth()); return; }
  if (op == "purelist_isregular") { ret_bool(out, c->purelist_isregular()); return; }
  if (op == "minmax_depth") { auto p = c->minmax_depth(); out->kind = K_INT; out->i = p.first; out->h2 = p.second; return; }
  if (op == "branch_depth") { auto p = c->branch_depth(); out->kind = K_INT; out->i = p.first ? 1 : 0; out->h2 = p.second; return; }
  if (op == "numfields") { ret_int(out, c->numfields()); return; }
  if (op == "fieldindex") { ret_int(out, c->fieldindex(ss.at(0))); return; }
  if (op == "key") { ret_str(out, c->key(ia.at(0))); return; }
  if (op == "haskey") { ret_bool(out, c->haskey(ss.at(0))); return; }
  if (op == "keys") { ret_str(out, json_strings(c->keys())); return; }
  if (op == "axis_wrap_if_negative") { ret_int(out, c->axis_wrap_if_negative(ia.at(0))); return; }
  if (op == "kernels") { ret_int(out, (int64_t)c->kernels()); return; }

  // ---- element access
  if (op == "getitem_at") { ret_content(out, c->getitem_at(ia.at(0))); return; }
  if (op == "getitem_at_nowrap") { ret_content(out, c->getitem_at_nowrap(ia.at(0))); return; }
  if (op == "getitem_range") { ret_content(out, c->getitem_range(ia.at(0), ia.at(1))); return; }
  if (op == "getitem_range_nowrap") { ret_content(out, c->getitem_range_nowrap(ia.at(0), ia.at(1))); return; }
  if (op == "getitem_nothing") { ret_content(out, c->getitem_nothing()); return; }
  if (op == "getitem_field") { ret_content(out, c->getitem_field(ss.at(0))); return; }
  if (op == "getitem_fields") { ret_content(out, c->getitem_fields(ss)); return; }
  if (op == "getitem") {
    auto it = slices.find(h.at(1));
    if (it == slices.end()) throw BridgeError("bridge: bad slice handle");
    if (!it->second->sealed()) it->second->become_sealed();
    ret_content(out, c->getitem(*it->second));
    return;
  }
  if (op == "carry") { ret_content(out, c->carry(need64(h.at(1)), ia.at(0) != 0)); return; }
  if (op == "deep_copy") { ret_content(out, c->deep_copy(ia.at(0) != 0, ia.at(1) != 0, ia.at(2) != 0)); return; }
  if (op == "shallow_copy") { ret_content(out, c->shallow_copy()); return; }

  // ---- structure operations
  if (op == "num") { ret_content(out, c->num(ia.at(0), 0)); return; }
  if (op == "flatten") { ret_content(out, c->offsets_and_flattened(ia.at(0), 0).second); return; }
  if (op == "offsets_and_flatten") {
    auto p = c->offsets_and_flattened(ia.at(0), 0);
    out->kind = K_PAIR; out->h = put(wrap(p.first)); out->h2 = put(p.second); return;
  }
  if (op == "localindex") { ret_content(out, c->localindex(ia.at(0), 0)); return; }
  if (op == "rpad") { ret_content(out, c->rpad(ia.at(0), ia.at(1), 0)); return; }
  if (op == "rpad_and_clip") { ret_content(out, c->rpad_and_clip(ia.at(0), ia.at(1), 0)); return; }
  if (op == "fillna") { ret_content(out, c->fillna(getc(h.at(1)))); return; }
  if (op == "mergeable") { ret_bool(out, c->mergeable(getc(h.at(1)), ia.at(0) != 0)); return; }
  if (op == "merge") { ret_content(out, c->merge(getc(h.at(1)))); return; }
  if (op == "merge_as_union") { ret_content(out, c->merge_as_union(getc(h.at(1)))); return; }
  if (op == "mergemany") {
    ak::ContentPtrVec others;
    for (size_t i = 1; i < h.size(); i++) others.push_back(getc(h[i]));
    ret_content(out, c->mergemany(others)); return;
  }
  if (op == "reduce") {
    // ss[0] reducer name; ia: axis, mask, keepdims, has_initial, initial_i64 ; da[0] initial_f64
    std::shared_ptr<ak::Reducer> r = make_reducer(ss.at(0), ia.at(3) != 0, da.empty() ? 0.0 : da[0], ia.at(4));
    ret_content(out, c->reduce(*r, ia.at(0), ia.at(1) != 0, ia.at(2) != 0)); return;
  }
  if (op == "combinations") {
    // ia: n, replacement, axis, has_keys ; ss: keys then parameter key/value pairs after ia[4] keys
    ak::util::RecordLookupPtr lookup(nullptr);
    size_t nkeys = 0;
    if (ia.at(3)) { nkeys = (size_t)ia.at(4); lookup = lookup_from(ss, 0, nkeys); }
    ak::util::Parameters p;
    for (size_t i = nkeys; i + 1 < ss.size(); i += 2) p[ss[i]] = ss[i + 1];
    ret_content(out, c->combinations(ia.at(0), ia.at(1) != 0, lookup, p, ia.at(2), 0)); return;
  }
  if (op == "sort") { ret_content(out, c->sort(ia.at(0), ia.at(1) != 0, ia.at(2) != 0)); return; }
  if (op == "argsort") { ret_content(out, c->argsort(ia.at(0), ia.at(1) != 0, ia.at(2) != 0)); return; }
  if (op == "numbers_to_type") { ret_content(out, c->numbers_to_type(ss.at(0))); return; }
  if (op == "is_unique") { ret_bool(out, c->is_unique()); return; }
  if (op == "unique") { ret_content(out, c->unique()); return; }
  if (op == "shallow_simplify") { ret_content(out, c->shallow_simplify()); return; }
  if (op == "asslice_tostring") { ret_str(out, c->asslice()->tostring()); return; }

  // ---- class-specific members
  if (op == "content") {
#define X(cls) if (auto r = dynamic_cast<cls*>(raw)) { ret_content(out, r->content()); return; }
    LISTCLASSES(X) INDEXEDCLASSES(X) X(ak::ByteMaskedArray) X(ak::BitMaskedArray) X(ak::UnmaskedArray)
#undef X
#define X(cls) if (auto r = dynamic_cast<cls*>(raw)) { ret_content(out, r->content(ia.at(0))); return; }
    UNIONCLASSES(X)
#undef X
    throw BridgeError("bridge: node has no content");
  }
  if (op == "contents") {
    std::vector<int64_t> hs;
    if (auto r = dynamic_cast<ak::RecordArray*>(raw)) { for (auto x : r->contents()) hs.push_back(put(x)); ret_handles(out, hs); return; }
#define X(cls) if (auto r = dynamic_cast<cls*>(raw)) { for (auto x : r->contents()) hs.push_back(put(x)); ret_handles(out, hs); return; }
    UNIONCLASSES(X)
#undef X
    throw BridgeError("bridge: node has no contents");
  }
  if (op == "index_member") {
    // ia[0]: 0 offsets/starts/index/mask/tags, 1 stops / union index
#define X(cls) if (auto r = dynamic_cast<cls*>(raw)) { ret_index(out, wrap(ia.at(0) == 0 ? r->offsets() : (ia.at(0) == 1 ? r->starts() : r->stops()))); return; }
    LISTOFFSETCLASSES(X)
#undef X
#define X(cls) if (auto r = dynamic_cast<cls*>(raw)) { ret_index(out, wrap(ia.at(0) == 1 || ia.at(0) == 0 ? r->starts() : r->stops())); return; }
    LISTARRAYCLASSES(X)
#undef X
#define X(cls) if (auto r = dynamic_cast<cls*>(raw)) { ret_index(out, wrap(r->index())); return; }
    INDEXEDCLASSES(X)
#undef X
    if (auto r = dynamic_cast<ak::ByteMaskedArray*>(raw)) { ret_index(out, wrap(r->mask())); return; }
    if (auto r = dynamic_cast<ak::BitMaskedArray*>(raw)) { ret_index(out, wrap(r->mask())); return; }
#define X(cls) if (auto r = dynamic_cast<cls*>(raw)) { if (ia.at(0) == 0) ret_index(out, wrap(r->tags())); else ret_index(out, wrap(r->index())); return; }
    UNIONCLASSES(X)
#undef X
    throw BridgeError("bridge: node has no index member");
  }
  if (op == "regular_size") { if (auto r = dynamic_cast<ak::RegularArray*>(raw)) { ret_int(out, r->size()); return; } throw BridgeError("bridge: not RegularArray"); }
  if (op == "valid_when") {
    if (auto r = dynamic_cast<ak::ByteMaskedArray*>(raw)) { ret_bool(out, r->valid_when()); return; }
    if (auto r = dynamic_cast<ak::BitMaskedArray*>(raw)) { ret_bool(out, r->valid_when()); return; }
    throw BridgeError("bridge: no valid_when");
  }
  if (op == "lsb_order") { if (auto r = dynamic_cast<ak::BitMaskedArray*>(raw)) { ret_bool(out, r->lsb_order()); return; } throw BridgeError("bridge: no lsb_order"); }
  if (op == "isoption") {
#define X(cls) if (auto r = dynamic_cast<cls*>(raw)) { ret_bool(out, r->isoption()); return; }
    INDEXEDCLASSES(X)
#undef X
    throw BridgeError("bridge: no isoption");
  }
  if (op == "numcontents") {
#define X(cls) if (auto r = dynamic_cast<cls*>(raw)) { ret_int(out, r->numcontents()); return; }
    UNIONCLASSES(X)
#undef X
    throw BridgeError("bridge: no numcontents");
  }
  if (op == "compact_offsets64") {
#define X(cls) if (auto r = dynamic_cast<cls*>(raw)) { ret_index(out, wrap(r->compact_offsets64(ia.at(0) != 0))); return; }
    LISTCLASSES(X)
#undef X
    throw std::invalid_argument("bridge: compact_offsets64 on non-list");
  }
  if (op == "broadcast_tooffsets64") {
#define X(cls) if (auto r = dynamic_cast<cls*>(raw)) { ret_content(out, r->broadcast_tooffsets64(need64(h.at(1)))); return; }
    LISTCLASSES(X)
#undef X
    throw std::invalid_argument("bridge: broadcast_tooffsets64 on non-list");
  }
  if (op == "toListOffsetArray64") {
#define X(cls) if (auto r = dynamic_cast<cls*>(raw)) { ret_content(out, r->toListOffsetArray64(ia.at(0) != 0)); return; }
    LISTCLASSES(X)
#undef X
    throw std::invalid_argument("bridge: toListOffsetArray64 on non-list");
  }
  if (op == "toRegularArray") {
#define X(cls) if (auto r = dynamic_cast<cls*>(raw)) { ret_content(out, r->toRegularArray()); return; }
    LISTCLASSES(X) X(ak::NumpyArray)
#undef X
    throw std::invalid_argument("bridge: toRegularArray on non-list");
  }
  if (op == "project") {
#define X(cls) if (auto r = dynamic_cast<cls*>(raw)) { ret_content(out, r->project()); return; }
    INDEXEDCLASSES(X) X(ak::ByteMaskedArray) X(ak::BitMaskedArray) X(ak::UnmaskedArray)
#undef X
#define X(cls) if (auto r = dynamic_cast<cls*>(raw)) { ret_content(out, r->project(ia.at(0))); return; }
    UNIONCLASSES(X)
#undef X
    throw std::invalid_argument("bridge: project on a node without it");
  }
  if (op == "project_mask") {
#define X(cls) if (auto r = dynamic_cast<cls*>(raw)) { ret_content(out, r->project(need8(h.at(1)))); return; }
    INDEXEDCLASSES(X) X(ak::ByteMaskedArray) X(ak::BitMaskedArray) X(ak::UnmaskedArray)
#undef X
    throw std::invalid_argument("bridge: project(mask) on a node without it");
  }
  if (op == "bytemask") {
#define X(cls) if (auto r = dynamic_cast<cls*>(raw)) { ret_index(out, wrap(r->bytemask())); return; }
    INDEXEDCLASSES(X) X(ak::ByteMaskedArray) X(ak::BitMaskedArray) X(ak::UnmaskedArray)
#undef X
    throw std::invalid_argument("bridge: bytemask on a node without it");
  }
  if (op == "simplify") {
#define X(cls) if (auto r = dynamic_cast<cls*>(raw)) { ret_content(out, r->simplify_optiontype()); return; }
    INDEXEDCLASSES(X) X(ak::ByteMaskedArray) X(ak::BitMaskedArray) X(ak::UnmaskedArray)
#undef X
#define X(cls) if (auto r = dynamic_cast<cls*>(raw)) { ret_content(out, r->simplify_uniontype(ia.at(0) != 0, ia.at(1) != 0)); return; }
    UNIONCLASSES(X)
#undef X
    ret_content(out, c->shallow_simplify()); return;
  }
  if (op == "toIndexedOptionArray64") {
    if (auto r = dynamic_cast<ak::ByteMaskedArray*>(raw)) { ret_content(out, r->toIndexedOptionArray64()); return; }
    if (auto r = dynamic_cast<ak::BitMaskedArray*>(raw)) { ret_content(out, r->toIndexedOptionArray64()); return; }
    if (auto r = dynamic_cast<ak::UnmaskedArray*>(raw)) { ret_content(out, r->toIndexedOptionArray64()); return; }
    throw std::invalid_argument("bridge: toIndexedOptionArray64 on a node without it");
  }
  if (op == "toByteMaskedArray") {
    if (auto r = dynamic_cast<ak::BitMaskedArray*>(raw)) { ret_content(out, r->toByteMaskedArray()); return; }
    if (auto r = dynamic_cast<ak::UnmaskedArray*>(raw)) { ret_content(out, r->toByteMaskedArray()); return; }
    throw std::invalid_argument("bridge: toByteMaskedArray on a node without it");
  }
  if (op == "toNumpyArray_empty") {
    if (auto r = dynamic_cast<ak::EmptyArray*>(raw)) { ret_content(out, r->toNumpyArray(ss.at(0), ia.at(0), ak::util::format_to_dtype(ss.at(0), ia.at(0)))); return; }
    throw std::invalid_argument("bridge: toNumpyArray on non-EmptyArray");
  }
  // records
  if (op == "istuple") {
    if (auto r = dynamic_cast<ak::RecordArray*>(raw)) { ret_bool(out, r->istuple()); return; }
    if (auto r = dynamic_cast<ak::Record*>(raw)) { ret_bool(out, r->istuple()); return; }
    throw BridgeError("bridge: no istuple");
  }
  if (op == "recordlookup") {
    ak::util::RecordLookupPtr lk;
    if (auto r = dynamic_cast<ak::RecordArray*>(raw)) lk = r->recordlookup();
    else throw BridgeError("bridge: no recordlookup");
    if (lk.get() == nullptr) { out->kind = K_NONE; return; }
    ret_str(out, json_strings(*lk)); return;
  }
  if (op == "field") {
    if (auto r = dynamic_cast<ak::RecordArray*>(raw)) { ret_content(out, ia.at(1) ? r->field(ss.at(0)) : r->field(ia.at(0))); return; }
    if (auto r = dynamic_cast<ak::Record*>(raw)) { ret_content(out, ia.at(1) ? r->field(ss.at(0)) : r->field(ia.at(0))); return; }
    throw BridgeError("bridge: no field");
  }
  if (op == "fields") {
    std::vector<int64_t> hs;
    if (auto r = dynamic_cast<ak::RecordArray*>(raw)) { for (auto x : r->fields()) hs.push_back(put(x)); ret_handles(out, hs); return; }
    if (auto r = dynamic_cast<ak::Record*>(raw)) { for (auto x : r->fields()) hs.push_back(put(x)); ret_handles(out, hs); return; }
    throw BridgeError("bridge: no fields");
  }
  if (op == "astuple") {
    if (auto r = dynamic_cast<ak::RecordArray*>(raw)) { ret_content(out, r->astuple()); return; }
    if (auto r = dynamic_cast<ak::Record*>(raw)) { ret_content(out, r->astuple()); return; }
    throw BridgeError("bridge: no astuple");
  }
  if (op == "setitem_field") {
    if (auto r = dynamic_cast<ak::RecordArray*>(raw)) {
      // ia[0]: mode 0 append(None), 1 by name, 2 by index ; ia[1] index
      if (ia.at(0) == 0) ret_content(out, r->setitem_field(r->numfields(), getc(h.at(1))));
      else if (ia.at(0) == 1) ret_content(out, r->setitem_field(ss.at(0), getc(h.at(1))));
      else ret_content(out, r->setitem_field(ia.at(1), getc(h.at(1))));
      return;
    }
    throw BridgeError("bridge: setitem_field on non-RecordArray");
  }
  if (op == "record_array") { if (auto r = dynamic_cast<ak::Record*>(raw)) { ret_content(out, std::const_pointer_cast<ak::RecordArray>(std::dynamic_pointer_cast<const ak::RecordArray>(r->array()))); return; } throw BridgeError("bridge: not a Record"); }
  if (op == "record_at") { if (auto r = dynamic_cast<ak::Record*>(raw)) { ret_int(out, r->at()); return; } throw BridgeError("bridge: not a Record"); }
  // unions
  if (op == "union_static") {
    // ss[0]: sparse_index | regular_index ; ia[0] union width kind ; handled for 8_64 only in the Python layer via the class
    throw BridgeError("bridge: union_static not implemented");
  }
  // NumpyArray
  if (op == "numpy_contiguous") { if (auto r = dynamic_cast<ak::NumpyArray*>(raw)) { ret_content(out, std::make_shared<ak::NumpyArray>(r->contiguous())); return; } throw BridgeError("bridge: not NumpyArray"); }
  if (op == "numpy_iscontiguous") { if (auto r = dynamic_cast<ak::NumpyArray*>(raw)) { ret_bool(out, r->iscontiguous()); return; } throw BridgeError("bridge: not NumpyArray"); }
  if (op == "numpy_isempty") { if (auto r = dynamic_cast<ak::NumpyArray*>(raw)) { ret_bool(out, r->isempty()); return; } throw BridgeError("bridge: not NumpyArray"); }

  throw BridgeError("bridge: unknown op " + op);
}

extern "C" {

const char* akb_last_error() { return last_error.c_str(); }

int akb_call(const char* op, const int64_t* h, int64_t nh, const int64_t* ia, int64_t ni, const double* da, int64_t nd,
             const char* sbuf, const int64_t* slens, int64_t ns, AkbResult* out) {
  out->kind = K_NONE; out->h = 0; out->h2 = 0; out->i = 0; out->d = 0; out->s = nullptr; out->slen = 0;
  try {
    std::vector<int64_t> hv(h, h + nh), iv(ia, ia + ni);
    std::vector<double> dv(da, da + nd);
    std::vector<std::string> sv;
    const char* p = sbuf;
    for (int64_t i = 0; i < ns; i++) { sv.push_back(std::string(p, (size_t)slens[i])); p += slens[i]; }
    dispatch(std::string(op), hv, iv, dv, sv, out);
    return 0;
  }
  catch (BridgeError& e) { last_error = e.what(); return 4; }
  catch (std::invalid_argument& e) { last_error = e.what(); return 1; }
  catch (std::out_of_range& e) { last_error = std::string("bridge argument vector too short or out_of_range: ") + e.what(); return 4; }
  catch (std::runtime_error& e) { last_error = e.what(); return 2; }
  catch (std::exception& e) { last_error = e.what(); return 3; }
}

// kind: 0 i8, 1 u8, 2 i32, 3 u32, 4 i64 ; token > 0: view over caller memory (token reported through akb_drain_released
// when the last C++ reference goes away) ; token < 0: owned copy ; token == 0: view, never reported
int64_t akb_index_new(int kind, void* data, int64_t n, int64_t token) {
  try {
    switch (kind) {
      case 0: return put(wrap(view_index<int8_t>(data, n, token)));
      case 1: return put(wrap(view_index<uint8_t>(data, n, token)));
      case 2: return put(wrap(view_index<int32_t>(data, n, token)));
      case 3: return put(wrap(view_index<uint32_t>(data, n, token)));
      case 4: return put(wrap(view_index<int64_t>(data, n, token)));
    }
    last_error = "bridge: bad index kind"; return -1;
  }
  catch (std::exception& e) { last_error = e.what(); return -1; }
}

int akb_index_info(int64_t h, int* kind, void** ptr, int64_t* length) {
  try {
    const AnyIndex& a = geti(h);
    *kind = a.kind;
    switch (a.kind) {
      case 0: *ptr = a.i8->data(); *length = a.i8->length(); break;
      case 1: *ptr = a.u8->data(); *length = a.u8->length(); break;
      case 2: *ptr = a.i32->data(); *length = a.i32->length(); break;
      case 3: *ptr = a.u32->data(); *length = a.u32->length(); break;
      case 4: *ptr = a.i64->data(); *length = a.i64->length(); break;
    }
    return 0;
  }
  catch (std::exception& e) { last_error = e.what(); return 4; }
}

int64_t akb_numpy_new(void* data, int64_t nbytes, int ndim, const int64_t* shape, const int64_t* strides, int64_t byteoffset,
                      int64_t itemsize, const char* format, int dtype, int64_t token) {
  try {
    std::shared_ptr<void> ptr;
    if (token < 0) {
      ptr = ak::kernel::malloc<void>(ak::kernel::lib::cpu, nbytes);
      if (nbytes > 0) std::memcpy(ptr.get(), data, (size_t)nbytes);
    }
    else {
      ptr = std::shared_ptr<void>(data, TokenDeleter{token});
    }
    std::vector<ssize_t> sh, st;
    for (int i = 0; i < ndim; i++) { sh.push_back((ssize_t)shape[i]); st.push_back((ssize_t)strides[i]); }
    return put(std::make_shared<ak::NumpyArray>(ak::Identities::none(), ak::util::Parameters(), ptr, sh, st,
                                                 (ssize_t)byteoffset, (ssize_t)itemsize, std::string(format),
                                                 (ak::util::dtype)dtype, ak::kernel::lib::cpu));
  }
  catch (std::exception& e) { last_error = e.what(); return -1; }
}

int akb_numpy_info(int64_t h, void** ptr, int* ndim, int64_t* shape, int64_t* strides,
                   int64_t* itemsize, char* format, int* dtype, int64_t* byteoffset) {
  try {
    ak::NumpyArray* raw = dynamic_cast<ak::NumpyArray*>(getc(h).get());
    if (raw == nullptr) throw BridgeError("bridge: not a NumpyArray");
    *ptr = raw->data();
    *ndim = (int)raw->ndim();
    for (int i = 0; i < raw->ndim() && i < 16; i++) { shape[i] = raw->shape()[(size_t)i]; strides[i] = raw->strides()[(size_t)i]; }
    *itemsize = raw->itemsize();
    std::strncpy(format, raw->format().c_str(), 31);
    *dtype = (int)raw->dtype();
    *byteoffset = raw->byteoffset();
    return 0;
  }
  catch (std::exception& e) { last_error = e.what(); return 4; }
}

int64_t akb_drain_released(int64_t* tokens, int64_t capacity) {
  std::lock_guard<std::mutex> g(released_mutex);
  int64_t n = 0;
  while (n < capacity && !released_tokens.empty()) { tokens[n++] = released_tokens.back(); released_tokens.pop_back(); }
  return n;
}

// ---- slices
int64_t akb_slice_new() { int64_t h = next_handle++; slices[h] = std::make_shared<ak::Slice>(); return h; }

// kind: 0 at(a) ; 1 range(a,b,c; flags bit0 start none, bit1 stop none) ; 2 ellipsis ; 3 newaxis ;
//       4 array (other = Index64 handle, a = ndim, b = frombool, extra = shape then strides in items) ;
//       5 content.asslice() (other = content handle) ; 6 field(str) ; 7 fields(strs, '\0'-separated, a = count)
int akb_slice_append(int64_t h, int kind, int64_t a, int64_t b, int64_t c, int64_t flags, int64_t other, const int64_t* extra,
                     const char* str, const int64_t* slens) {
  try {
    auto it = slices.find(h);
    if (it == slices.end()) throw BridgeError("bridge: bad slice handle");
    ak::Slice& sl = *it->second;
    switch (kind) {
      case 0: sl.append(std::make_shared<ak::SliceAt>(a)); break;
      case 1: sl.append(std::make_shared<ak::SliceRange>((flags & 1) ? ak::Slice::none() : a, (flags & 2) ? ak::Slice::none() : b, c)); break;
      case 2: sl.append(std::make_shared<ak::SliceEllipsis>()); break;
      case 3: sl.append(std::make_shared<ak::SliceNewAxis>()); break;
      case 4: {
        std::vector<int64_t> shape, strides;
        for (int64_t i = 0; i < a; i++) { shape.push_back(extra[i]); strides.push_back(extra[a + i]); }
        sl.append(std::make_shared<ak::SliceArray64>(need64(other), shape, strides, b != 0));
        break;
      }
      case 5: sl.append(getc(other)->asslice()); break;
      case 6: sl.append(std::make_shared<ak::SliceField>(std::string(str, (size_t)slens[0]))); break;
      case 7: {
        std::vector<std::string> keys; const char* p = str;
        for (int64_t i = 0; i < a; i++) { keys.push_back(std::string(p, (size_t)slens[i])); p += slens[i]; }
        sl.append(std::make_shared<ak::SliceFields>(keys));
        break;
      }
      default: throw BridgeError("bridge: bad slice item kind");
    }
    return 0;
  }
  catch (BridgeError& e) { last_error = e.what(); return 4; }
  catch (std::invalid_argument& e) { last_error = e.what(); return 1; }
  catch (std::runtime_error& e) { last_error = e.what(); return 2; }
  catch (std::exception& e) { last_error = e.what(); return 3; }
}

int akb_slice_tostring(int64_t h, const char** s, int64_t* n) {
  try {
    auto it = slices.find(h);
    if (it == slices.end()) throw BridgeError("bridge: bad slice handle");
    if (!it->second->sealed()) it->second->become_sealed();
    last_string = it->second->tostring(); *s = last_string.data(); *n = (int64_t)last_string.size();
    return 0;
  }
  catch (BridgeError& e) { last_error = e.what(); return 4; }
  catch (std::invalid_argument& e) { last_error = e.what(); return 1; }
  catch (std::runtime_error& e) { last_error = e.what(); return 2; }
  catch (std::exception& e) { last_error = e.what(); return 3; }
}

}  // extern "C"
