// /verif bridge, AwkwardForth part (property C19): ForthMachine32 / ForthMachine64 behind integer handles.
//
// ops (h = [machine handle] unless stated):
//   forth_new            ia=[bits(32|64), stack_max_depth, recursion_max_depth, output_initial_size] da=[output_resize_factor]
//                        ss=[source]                                  -> K_INT handle
//   forth_release                                                    -> none
//   forth_begin          ss=[name0, bytes0, name1, bytes1, ...]       -> none      (bytes are COPIED into an exact-size heap
//                                                                                  block owned by the ForthInputBuffer)
//   forth_begin_again                                                -> none      (begin with the input map of the last begin/run,
//                                                                                  fresh copies of the same bytes)
//   forth_run            ss as forth_begin                            -> K_INT error code   (C++ run(inputs))
//   forth_step | forth_resume                                         -> K_INT error code
//   forth_step_n         ia=[n]  up to n steps, stops at an error or when done -> K_INT last error code, h2 = steps taken
//   forth_call           ss=[word]                                    -> K_INT error code
//   forth_call_index     ia=[index]                                   -> K_INT error code
//   forth_reset | forth_stack_clear | forth_count_reset               -> none
//   forth_stack_push     ia=[value]  (std::invalid_argument when full, as the Python binding does)
//   forth_stack_pop                                                   -> K_INT  (std::invalid_argument when empty)
//   forth_state                                                      -> K_STR JSON: everything observable in one call
//   forth_stack | forth_variables | forth_outputs | forth_positions | forth_dictionary | forth_bytecodes -> K_STR JSON
//   forth_variable_at / forth_input_position_at / forth_output_len / forth_input_must_be_writable ss=[name] -> K_INT / K_BOOL
//   forth_source | forth_decompiled | forth_current_instruction      -> K_STR
//   forth_string_at      ia=[index]                                   -> K_STR
//   forth_current_error | forth_current_bytecode_position | forth_current_recursion_depth | forth_stack_depth
//   forth_count_instructions | forth_count_reads | forth_count_writes | forth_count_nanoseconds            -> K_INT
//   forth_is_ready | forth_is_done | forth_is_segment_done            -> K_BOOL
//   forth_is_variable | forth_is_input | forth_is_output | forth_is_defined | forth_is_reserved ss=[word]   -> K_BOOL
//   forth_error_name     h=[] ia=[code]                               -> K_STR  (names as in src/python/forth.cpp)
//   forth_error_message  ia=[code]                                    -> K_STR  (text of maybe_throw for that code, "" if it does not throw)
//   forth_live                                                       -> K_INT  number of live machines
#include <cstring>
#include <cstdio>
#include <set>
#include <sstream>

#include "awkward/forth/ForthMachine.h"
#include "awkward/forth/ForthInputBuffer.h"
#include "awkward/forth/ForthOutputBuffer.h"
#include "awkward/array/NumpyArray.h"
#include "awkward/array/ListOffsetArray.h"
#include "awkward/util.h"

#include "akbridge.h"

namespace ak = awkward;
using namespace akb;

namespace {
  typedef std::map<std::string, std::shared_ptr<ak::ForthInputBuffer>> InputMap;

  struct OtherError : public std::exception {      // status 3: an exception that is neither invalid_argument nor runtime_error
    std::string msg;
    explicit OtherError(const std::string& m) : msg(m) { }
    const char* what() const noexcept override { return msg.c_str(); }
  };

  struct Machine {
    int bits;
    std::shared_ptr<ak::ForthMachine32> m32;
    std::shared_ptr<ak::ForthMachine64> m64;
    std::vector<std::pair<std::string, std::string>> last_inputs;   // name -> bytes of the last begin/run
    InputMap live_inputs;                                             // keeps the buffers of the current run alive
    std::map<std::string, std::shared_ptr<uint8_t>> live_bufs;        // raw views of those buffers (to observe that inputs stay unmodified)
  };

  std::map<int64_t, Machine> machines;

  Machine& getm(const std::vector<int64_t>& h) {
    if (h.empty()) throw BridgeError("bridge: forth op needs a machine handle");
    auto it = machines.find(h[0]);
    if (it == machines.end()) throw BridgeError("bridge: no such ForthMachine handle " + std::to_string(h[0]));
    return it->second;
  }

  struct ByteDeleter { void operator()(uint8_t* p) const { delete [] p; } };

  // raw views of the buffers handed to the machine in the latest begin/run (name -> buffer), so that "the machine does not
  // modify its inputs" can be observed: forth_inputs_modified compares them with the bytes that were passed in
  typedef std::map<std::string, std::shared_ptr<uint8_t>> BufMap;

  InputMap make_inputs(const std::vector<std::pair<std::string, std::string>>& pairs, BufMap& live_bufs) {
    InputMap out;
    live_bufs.clear();
    for (auto const& p : pairs) {
      // exact-size allocation: a read beyond the end is visible to AddressSanitizer
      std::shared_ptr<uint8_t> buf(new uint8_t[p.second.size()], ByteDeleter());
      if (!p.second.empty()) std::memcpy(buf.get(), p.second.data(), p.second.size());
      out[p.first] = std::make_shared<ak::ForthInputBuffer>(std::shared_ptr<void>(buf), 0, (int64_t)p.second.size());
      live_bufs[p.first] = buf;
    }
    return out;
  }

  std::vector<std::pair<std::string, std::string>> pairs_of(const std::vector<std::string>& ss) {
    if (ss.size() % 2 != 0) throw BridgeError("bridge: forth inputs must be name/bytes pairs");
    std::vector<std::pair<std::string, std::string>> out;
    for (size_t i = 0; i + 1 < ss.size(); i += 2) out.push_back(std::make_pair(ss[i], ss[i + 1]));
    return out;
  }

  void jstr(std::ostringstream& o, const std::string& s) {
    o << '"';
    for (unsigned char c : s) {
      if (c == '"' || c == '\\') { o << '\\' << c; }
      else if (c < 0x20 || c >= 0x7f) { char b[8]; std::snprintf(b, sizeof b, "\\u%04x", (unsigned)c); o << b; }
      else o << c;
    }
    o << '"';
  }

  const char* error_name(int64_t code) {
    switch ((ak::util::ForthError)code) {
      case ak::util::ForthError::none: return "none";
      case ak::util::ForthError::not_ready: return "not ready";
      case ak::util::ForthError::is_done: return "is done";
      case ak::util::ForthError::user_halt: return "user halt";
      case ak::util::ForthError::recursion_depth_exceeded: return "recursion depth exceeded";
      case ak::util::ForthError::stack_underflow: return "stack underflow";
      case ak::util::ForthError::stack_overflow: return "stack overflow";
      case ak::util::ForthError::read_beyond: return "read beyond";
      case ak::util::ForthError::seek_beyond: return "seek beyond";
      case ak::util::ForthError::skip_beyond: return "skip beyond";
      case ak::util::ForthError::rewind_beyond: return "rewind beyond";
      case ak::util::ForthError::division_by_zero: return "division by zero";
      case ak::util::ForthError::varint_too_big: return "varint too big";
      default: return "unrecognized";
    }
  }

  void hexbytes(std::ostringstream& o, const void* p, size_t n) {
    static const char* digits = "0123456789abcdef";
    const uint8_t* b = reinterpret_cast<const uint8_t*>(p);
    std::string s; s.resize(2 * n);
    for (size_t i = 0; i < n; i++) { s[2 * i] = digits[b[i] >> 4]; s[2 * i + 1] = digits[b[i] & 15]; }
    o << '"' << s << '"';
  }

  template <typename M>
  void outputs_json(std::ostringstream& o, M& m) {
    o << "{";
    bool first = true;
    auto outs = m.outputs();                 // empty before begin()
    for (auto const& name : m.output_index()) {
      auto it = outs.find(name);
      if (it == outs.end()) continue;
      if (!first) o << ",";
      first = false;
      jstr(o, name);
      int64_t len = it->second->len();
      o << ":{\"len\":" << len;
      if (len >= 0) {
        ak::ContentPtr arr = it->second->toNumpyArray();
        ak::NumpyArray* raw = dynamic_cast<ak::NumpyArray*>(arr.get());
        if (raw == nullptr) throw BridgeError("bridge: toNumpyArray did not return a NumpyArray");
        o << ",\"dtype\":";
        jstr(o, ak::util::dtype_to_name(raw->dtype()));
        o << ",\"itemsize\":" << (int64_t)raw->itemsize() << ",\"hex\":";
        hexbytes(o, raw->data(), (size_t)len * (size_t)raw->itemsize());
      }
      o << "}";
    }
    o << "}";
  }

  template <typename M>
  void stack_json(std::ostringstream& o, M& m) {
    o << "[";
    auto st = m.stack();
    for (size_t i = 0; i < st.size(); i++) { if (i) o << ","; o << (int64_t)st[i]; }
    o << "]";
  }

  template <typename M>
  void variables_json(std::ostringstream& o, M& m) {
    o << "{";
    bool first = true;
    for (auto const& kv : m.variables()) {
      if (!first) o << ",";
      first = false;
      jstr(o, kv.first); o << ":" << (int64_t)kv.second;
    }
    o << "}";
  }

  template <typename M>
  void positions_json(std::ostringstream& o, M& m, const Machine& mm) {
    // input_position_at throws for names that were not bound by begin(); only bound names are listed
    o << "{";
    bool first = true;
    if (m.is_ready() || !m.is_done()) {
      for (auto const& kv : mm.live_inputs) {
        int64_t pos;
        try { pos = m.input_position_at(kv.first); }
        catch (std::invalid_argument&) { continue; }
        if (!first) o << ",";
        first = false;
        jstr(o, kv.first); o << ":" << pos;
      }
    }
    o << "}";
  }

  template <typename M>
  void state_json(std::ostringstream& o, M& m, const Machine& mm) {
    o << "{\"stack\":"; stack_json(o, m);
    o << ",\"variables\":"; variables_json(o, m);
    o << ",\"outputs\":"; outputs_json(o, m);
    o << ",\"positions\":"; positions_json(o, m, mm);
    o << ",\"ready\":" << (m.is_ready() ? "true" : "false");
    o << ",\"done\":" << (m.is_done() ? "true" : "false");
    o << ",\"bytecode_position\":" << m.current_bytecode_position();
    o << ",\"recursion_depth\":" << m.current_recursion_depth();
    o << ",\"count_instructions\":" << m.count_instructions();
    o << ",\"count_reads\":" << m.count_reads();
    o << ",\"count_writes\":" << m.count_writes();
    o << "}";
  }

  template <typename M>
  bool machine_op(const std::string& op, Machine& mm, M& m, const std::vector<int64_t>& ia, const std::vector<std::string>& ss,
                  AkbResult* out) {
    if (op == "forth_begin") {
      mm.last_inputs = pairs_of(ss);
      InputMap ins = make_inputs(mm.last_inputs, mm.live_bufs);
      m.begin(ins);
      mm.live_inputs = ins;
      out->kind = K_NONE; return true;
    }
    if (op == "forth_begin_again") {
      InputMap ins = make_inputs(mm.last_inputs, mm.live_bufs);
      m.begin(ins);
      mm.live_inputs = ins;
      out->kind = K_NONE; return true;
    }
    if (op == "forth_run") {
      mm.last_inputs = pairs_of(ss);
      InputMap ins = make_inputs(mm.last_inputs, mm.live_bufs);
      mm.live_inputs = ins;          // keep alive even if run() throws half way
      ret_int(out, (int64_t)m.run(ins)); return true;
    }
    if (op == "forth_step") { ret_int(out, (int64_t)m.step()); return true; }
    if (op == "forth_step_n") {
      // up to ia[0] single steps, stopping at the first error or when the program is done; -> i = last error code, h2 = steps taken
      int64_t n = ia.at(0), taken = 0, err = 0;
      while (taken < n) {
        err = (int64_t)m.step();
        taken++;
        if (err != 0 || m.is_done()) break;
      }
      ret_int(out, err); out->h2 = taken; return true;
    }
    if (op == "forth_resume") { ret_int(out, (int64_t)m.resume()); return true; }
    if (op == "forth_call") { ret_int(out, (int64_t)m.call(ss.at(0))); return true; }
    if (op == "forth_call_index") {
      if (ia.at(0) < 0 || ia.at(0) >= (int64_t)m.dictionary().size()) throw BridgeError("bridge: forth_call_index out of range");
      ret_int(out, (int64_t)m.call(ia.at(0))); return true;
    }
    if (op == "forth_inputs_modified") {
      // number of input buffers of the latest begin/run (of this thread) whose bytes differ from what was passed in
      int64_t changed = 0;
      for (auto const& p : mm.last_inputs) {
        auto it = mm.live_bufs.find(p.first);
        if (it != mm.live_bufs.end() && !p.second.empty() && std::memcmp(it->second.get(), p.second.data(), p.second.size()) != 0) changed++;
      }
      out->kind = K_INT; out->i = changed; return true;
    }
    if (op == "forth_reset") { m.reset(); mm.live_inputs.clear(); out->kind = K_NONE; return true; }
    if (op == "forth_stack_clear") { m.stack_clear(); out->kind = K_NONE; return true; }
    if (op == "forth_count_reset") { m.count_reset(); out->kind = K_NONE; return true; }
    if (op == "forth_stack_push") {
      if (!m.stack_can_push()) throw std::invalid_argument("AwkwardForth stack overflow");
      m.stack_push((decltype(m.stack_pop()))ia.at(0)); out->kind = K_NONE; return true;
    }
    if (op == "forth_stack_pop") {
      if (!m.stack_can_pop()) throw std::invalid_argument("AwkwardForth stack underflow");
      ret_int(out, (int64_t)m.stack_pop()); return true;
    }
    if (op == "forth_state") { std::ostringstream o; state_json(o, m, mm); ret_str(out, o.str()); return true; }
    if (op == "forth_stack") { std::ostringstream o; stack_json(o, m); ret_str(out, o.str()); return true; }
    if (op == "forth_variables") { std::ostringstream o; variables_json(o, m); ret_str(out, o.str()); return true; }
    if (op == "forth_outputs") { std::ostringstream o; outputs_json(o, m); ret_str(out, o.str()); return true; }
    if (op == "forth_positions") { std::ostringstream o; positions_json(o, m, mm); ret_str(out, o.str()); return true; }
    if (op == "forth_dictionary") { ret_str(out, json_strings(m.dictionary())); return true; }
    if (op == "forth_variable_index") { ret_str(out, json_strings(m.variable_index())); return true; }
    if (op == "forth_output_index") { ret_str(out, json_strings(m.output_index())); return true; }
    if (op == "forth_bytecodes") {
      ak::ContentPtr bc = m.bytecodes();
      auto lo = dynamic_cast<ak::ListOffsetArray64*>(bc.get());
      if (lo == nullptr) throw BridgeError("bridge: bytecodes() is not a ListOffsetArray64");
      auto content = dynamic_cast<ak::NumpyArray*>(lo->content().get());
      if (content == nullptr) throw BridgeError("bridge: bytecodes().content is not a NumpyArray");
      std::ostringstream o;
      o << "{\"offsets\":[";
      ak::Index64 offs = lo->offsets();
      for (int64_t i = 0; i < offs.length(); i++) { if (i) o << ","; o << offs.getitem_at_nowrap(i); }
      o << "],\"content\":[";
      const int32_t* p = reinterpret_cast<const int32_t*>(content->data());
      for (int64_t i = 0; i < content->length(); i++) { if (i) o << ","; o << p[i]; }
      o << "]}";
      ret_str(out, o.str()); return true;
    }
    if (op == "forth_variable_at") { ret_int(out, (int64_t)m.variable_at(ss.at(0))); return true; }
    if (op == "forth_input_position_at") { ret_int(out, m.input_position_at(ss.at(0))); return true; }
    if (op == "forth_input_must_be_writable") { ret_bool(out, m.input_must_be_writable(ss.at(0))); return true; }
    if (op == "forth_output_len") { ret_int(out, m.output_at(ss.at(0))->len()); return true; }
    if (op == "forth_source") { ret_str(out, m.source()); return true; }
    if (op == "forth_decompiled") { ret_str(out, m.decompiled()); return true; }
    if (op == "forth_current_instruction") { ret_str(out, m.current_instruction()); return true; }
    if (op == "forth_string_at") { ret_str(out, m.string_at(ia.at(0))); return true; }
    if (op == "forth_current_bytecode_position") { ret_int(out, m.current_bytecode_position()); return true; }
    if (op == "forth_current_recursion_depth") { ret_int(out, m.current_recursion_depth()); return true; }
    if (op == "forth_stack_depth") { ret_int(out, m.stack_depth()); return true; }
    if (op == "forth_stack_max_depth") { ret_int(out, m.stack_max_depth()); return true; }
    if (op == "forth_recursion_max_depth") { ret_int(out, m.recursion_max_depth()); return true; }
    if (op == "forth_output_initial_size") { ret_int(out, m.output_initial_size()); return true; }
    if (op == "forth_output_resize_factor") { out->kind = K_DOUBLE; out->d = m.output_resize_factor(); return true; }
    if (op == "forth_count_instructions") { ret_int(out, m.count_instructions()); return true; }
    if (op == "forth_count_reads") { ret_int(out, m.count_reads()); return true; }
    if (op == "forth_count_writes") { ret_int(out, m.count_writes()); return true; }
    if (op == "forth_count_nanoseconds") { ret_int(out, m.count_nanoseconds()); return true; }
    if (op == "forth_is_ready") { ret_bool(out, m.is_ready()); return true; }
    if (op == "forth_is_done") { ret_bool(out, m.is_done()); return true; }
    if (op == "forth_is_segment_done") {
      if (m.current_recursion_depth() < 0 || m.current_bytecode_position() == -1) {
        // is_segment_done() indexes current_where_[depth - 1]; outside a running segment that is not addressable
        ret_bool(out, true); return true;
      }
      ret_bool(out, m.is_segment_done()); return true;
    }
    if (op == "forth_is_variable") { ret_bool(out, m.is_variable(ss.at(0))); return true; }
    if (op == "forth_is_input") { ret_bool(out, m.is_input(ss.at(0))); return true; }
    if (op == "forth_is_output") { ret_bool(out, m.is_output(ss.at(0))); return true; }
    if (op == "forth_is_defined") { ret_bool(out, m.is_defined(ss.at(0))); return true; }
    if (op == "forth_is_reserved") { ret_bool(out, m.is_reserved(ss.at(0))); return true; }
    if (op == "forth_error_message") {
      // text the Python binding would raise for this error code (maybe_throw looks at current_error_, so this only answers
      // for the machine's current error; "" when nothing is thrown)
      std::set<ak::util::ForthError> ignore;
      try { m.maybe_throw((ak::util::ForthError)ia.at(0), ignore); }
      catch (std::invalid_argument& e) { ret_str(out, e.what()); return true; }
      ret_str(out, ""); return true;
    }
    return false;
  }

  bool forth_dispatch(const std::string& op, const std::vector<int64_t>& h, const std::vector<int64_t>& ia,
                      const std::vector<double>& da, const std::vector<std::string>& ss, AkbResult* out) {
    if (op.compare(0, 6, "forth_") != 0) return false;
    if (op == "forth_new") {
      if (ia.size() < 4 || da.size() < 1 || ss.size() < 1) throw BridgeError("bridge: forth_new needs 4 ints, 1 double, 1 string");
      Machine mm;
      mm.bits = (int)ia[0];
      try {
        if (mm.bits == 32) mm.m32 = std::make_shared<ak::ForthMachine32>(ss[0], ia[1], ia[2], ia[3], da[0]);
        else if (mm.bits == 64) mm.m64 = std::make_shared<ak::ForthMachine64>(ss[0], ia[1], ia[2], ia[3], da[0]);
        else throw BridgeError("bridge: forth_new bits must be 32 or 64");
      }
      catch (std::out_of_range& e) { throw OtherError(std::string("std::out_of_range: ") + e.what()); }
      int64_t handle = next_handle++;
      machines[handle] = mm;
      ret_int(out, handle);
      return true;
    }
    if (op == "forth_release") { for (auto x : h) machines.erase(x); out->kind = K_NONE; return true; }
    if (op == "forth_live") { ret_int(out, (int64_t)machines.size()); return true; }
    if (op == "forth_error_name") { ret_str(out, error_name(ia.at(0))); return true; }
    if (op == "forth_error_count") { ret_int(out, (int64_t)ak::util::ForthError::size); return true; }
    Machine& mm = getm(h);
    bool done;
    try {
      if (mm.bits == 32) done = machine_op(op, mm, *mm.m32, ia, ss, out);
      else done = machine_op(op, mm, *mm.m64, ia, ss, out);
    }
    catch (std::out_of_range& e) { throw BridgeError(std::string("bridge: forth op argument missing: ") + e.what()); }
    if (!done) throw BridgeError("bridge: unknown forth op " + op);
    return true;
  }

  static akb::Registrar reg(&forth_dispatch);
}
