// JSON input and a minimal ArrayBuilder driver for /verif (property C15).
//
//   fromjson_string   ss: text, nan, inf, minus_inf     ia: has_nan, has_inf, has_minus_inf, initial   da: resize
//   fromjson_file     ss: path, nan, inf, minus_inf     ia: has_nan, has_inf, has_minus_inf, initial, buffersize   da: resize
//       both are the lambdas of make_fromjson / make_fromjsonfile in /repo/src/python/io.cpp, statement by statement
//       (std::string source -> source.c_str(); fopen "rb", FromJsonFile, fclose on both paths).
//   jb_new            ia: initial   da: resize   -> K_INT builder id          ArrayBuilder(ArrayBuilderOptions(initial, resize))
//   jb_null / jb_boolean(ia0) / jb_integer(ia0) / jb_real(da0) / jb_string(ss0) / jb_bytestring(ss0) /
//   jb_beginlist / jb_endlist / jb_beginrecord / jb_field(ss0: field_check(key.c_str())) / jb_endrecord /
//   jb_begintuple(ia0) / jb_index(ia0) / jb_endtuple          h0 = builder id
//   jb_snapshot -> content, jb_length -> int, jb_free
// The other ArrayBuilder bridge (bridge/akb_builder.cpp, ops "builder_*") is independent of this one; the ops here exist so
// that the differential oracle "FromJsonString(text) == ArrayBuilder fed json.loads(text)" needs nothing else.
#include <cstdio>
#include <map>
#include <memory>
#include <string>
#include <vector>

#include "awkward/Content.h"
#include "awkward/builder/ArrayBuilder.h"
#include "awkward/builder/ArrayBuilderOptions.h"
#include "awkward/io/json.h"

#include "akbridge.h"

namespace ak = awkward;
using namespace akb;

namespace {
  std::map<int64_t, std::shared_ptr<ak::ArrayBuilder>> builders;

  const char* opt(const std::vector<std::string>& ss, size_t i, const std::vector<int64_t>& ia, size_t flagpos) {
    return (ia.at(flagpos) != 0) ? ss.at(i).c_str() : nullptr;
  }

  ak::ArrayBuilder& getb(int64_t h) {
    auto it = builders.find(h);
    if (it == builders.end()) throw BridgeError("bridge: bad jb builder handle");
    return *it->second;
  }

  bool json_dispatch(const std::string& op, const std::vector<int64_t>& h, const std::vector<int64_t>& ia,
                     const std::vector<double>& da, const std::vector<std::string>& ss, AkbResult* out) {
    if (op == "fromjson_string") {
      const std::string& source = ss.at(0);
      ak::ContentPtr res = ak::FromJsonString(source.c_str(),
                                              ak::ArrayBuilderOptions(ia.at(3), da.at(0)),
                                              opt(ss, 1, ia, 0), opt(ss, 2, ia, 1), opt(ss, 3, ia, 2));
      ret_content(out, res);
      return true;
    }
    if (op == "fromjson_file") {
      const std::string& source = ss.at(0);
      FILE* file = std::fopen(source.c_str(), "rb");
      if (file == nullptr) {
        throw std::invalid_argument(std::string("file \"") + source + std::string("\" could not be opened for reading"));
      }
      std::shared_ptr<ak::Content> res(nullptr);
      try {
        res = ak::FromJsonFile(file, ak::ArrayBuilderOptions(ia.at(3), da.at(0)), ia.at(4),
                               opt(ss, 1, ia, 0), opt(ss, 2, ia, 1), opt(ss, 3, ia, 2));
      }
      catch (...) {
        std::fclose(file);
        throw;
      }
      std::fclose(file);
      ret_content(out, res);
      return true;
    }
    if (op.compare(0, 3, "jb_") != 0) return false;

    if (op == "jb_new") {
      int64_t id = next_handle++;
      builders[id] = std::make_shared<ak::ArrayBuilder>(ak::ArrayBuilderOptions(ia.at(0), da.at(0)));
      ret_int(out, id);
      return true;
    }
    if (op == "jb_free") { builders.erase(h.at(0)); out->kind = K_NONE; return true; }
    ak::ArrayBuilder& b = getb(h.at(0));
    out->kind = K_NONE;
    if (op == "jb_null") { b.null(); return true; }
    if (op == "jb_boolean") { b.boolean(ia.at(0) != 0); return true; }
    if (op == "jb_integer") { b.integer(ia.at(0)); return true; }
    if (op == "jb_real") { b.real(da.at(0)); return true; }
    if (op == "jb_string") { b.string(ss.at(0)); return true; }            // self.string(obj.cast<std::string>())
    if (op == "jb_bytestring") { b.bytestring(ss.at(0)); return true; }    // self.bytestring(obj.cast<std::string>())
    if (op == "jb_beginlist") { b.beginlist(); return true; }
    if (op == "jb_endlist") { b.endlist(); return true; }
    if (op == "jb_beginrecord") { b.beginrecord(); return true; }
    if (op == "jb_field") { std::string key = ss.at(0); b.field_check(key.c_str()); return true; }   // key.c_str(): as builder_fromiter
    if (op == "jb_endrecord") { b.endrecord(); return true; }
    if (op == "jb_begintuple") { b.begintuple(ia.at(0)); return true; }
    if (op == "jb_index") { b.index(ia.at(0)); return true; }
    if (op == "jb_endtuple") { b.endtuple(); return true; }
    if (op == "jb_snapshot") { ret_content(out, b.snapshot()); return true; }
    if (op == "jb_length") { ret_int(out, b.length()); return true; }
    throw BridgeError("bridge: unknown jb op " + op);
  }

  static akb::Registrar reg(&json_dispatch);
}
