// Bridge ops for C17 (types and forms): Type constructors with exactly the C++ constructor arguments,
// type()/form->type() with a TypeStrs map (what the Python layer passes from ak.behavior["__typestr__", ...]),
// and `form_info`, an independent reader of a Form object through its public accessors (never through tojson).
#include <sstream>

#include "awkward/Content.h"
#include "awkward/util.h"
#include "awkward/type/Type.h"
#include "awkward/type/ArrayType.h"
#include "awkward/type/ListType.h"
#include "awkward/type/OptionType.h"
#include "awkward/type/PrimitiveType.h"
#include "awkward/type/RecordType.h"
#include "awkward/type/RegularType.h"
#include "awkward/type/UnionType.h"
#include "awkward/type/UnknownType.h"
#include "awkward/array/NumpyArray.h"
#include "awkward/array/EmptyArray.h"
#include "awkward/array/ListArray.h"
#include "awkward/array/ListOffsetArray.h"
#include "awkward/array/RegularArray.h"
#include "awkward/array/IndexedArray.h"
#include "awkward/array/ByteMaskedArray.h"
#include "awkward/array/BitMaskedArray.h"
#include "awkward/array/UnmaskedArray.h"
#include "awkward/array/RecordArray.h"
#include "awkward/array/Record.h"
#include "awkward/array/UnionArray.h"
#include "awkward/array/VirtualArray.h"

#include "akbridge.h"

namespace ak = awkward;
using namespace akb;

namespace {
  // ss[from], ss[from+1], ... are key, json-text pairs
  ak::util::Parameters params_from(const std::vector<std::string>& ss, size_t from) {
    ak::util::Parameters p;
    for (size_t i = from; i + 1 < ss.size(); i += 2) p[ss[i]] = ss[i + 1];
    return p;
  }
  ak::util::TypeStrs typestrs_from(const std::vector<std::string>& ss, size_t from) {
    ak::util::TypeStrs t;
    for (size_t i = from; i + 1 < ss.size(); i += 2) t[ss[i]] = ss[i + 1];
    return t;
  }

  std::string q(const std::string& s) { return ak::util::quote(s); }

  std::string raw_parameters(const ak::util::Parameters& p) {
    std::string out = "{";
    bool first = true;
    for (auto pair : p) {
      if (!first) out += ",";
      first = false;
      // the stored text is handed over as a JSON *string*, so that the Python side sees exactly what is stored
      out += q(pair.first) + ":" + q(pair.second);
    }
    return out + "}";
  }

  std::string form_info(const ak::FormPtr& f);

  std::string common(const ak::Form* f) {
    std::string out = std::string(",\"has_identities\":") + (f->has_identities() ? "true" : "false");
    out += ",\"rawparameters\":" + raw_parameters(f->parameters());
    out += ",\"form_key\":" + (f->form_key().get() == nullptr ? std::string("null") : q(*f->form_key().get()));
    return out;
  }

  std::string ints(const std::vector<int64_t>& v) {
    std::string s = "[";
    for (size_t i = 0; i < v.size(); i++) { if (i) s += ","; s += std::to_string(v[i]); }
    return s + "]";
  }

  std::string forms(const std::vector<ak::FormPtr>& v) {
    std::string s = "[";
    for (size_t i = 0; i < v.size(); i++) { if (i) s += ","; s += form_info(v[i]); }
    return s + "]";
  }

  std::string b(bool x) { return x ? "true" : "false"; }

  std::string form_info(const ak::FormPtr& fp) {
    const ak::Form* f = fp.get();
    if (f == nullptr) return "null";
    if (auto r = dynamic_cast<const ak::NumpyForm*>(f)) {
      return "{\"node\":\"NumpyForm\",\"inner_shape\":" + ints(r->inner_shape()) + ",\"itemsize\":" + std::to_string(r->itemsize())
             + ",\"format\":" + q(r->format()) + ",\"primitive\":" + q(r->primitive()) + ",\"dtype\":" + std::to_string((int64_t)r->dtype())
             + common(f) + "}";
    }
    if (dynamic_cast<const ak::EmptyForm*>(f)) return "{\"node\":\"EmptyForm\"" + common(f) + "}";
    if (auto r = dynamic_cast<const ak::RegularForm*>(f)) {
      return "{\"node\":\"RegularForm\",\"size\":" + std::to_string(r->size()) + ",\"content\":" + form_info(r->content()) + common(f) + "}";
    }
    if (auto r = dynamic_cast<const ak::ListForm*>(f)) {
      return "{\"node\":\"ListForm\",\"starts\":" + q(ak::Index::form2str(r->starts())) + ",\"stops\":" + q(ak::Index::form2str(r->stops()))
             + ",\"content\":" + form_info(r->content()) + common(f) + "}";
    }
    if (auto r = dynamic_cast<const ak::ListOffsetForm*>(f)) {
      return "{\"node\":\"ListOffsetForm\",\"offsets\":" + q(ak::Index::form2str(r->offsets())) + ",\"content\":" + form_info(r->content()) + common(f) + "}";
    }
    if (auto r = dynamic_cast<const ak::IndexedOptionForm*>(f)) {
      return "{\"node\":\"IndexedOptionForm\",\"index\":" + q(ak::Index::form2str(r->index())) + ",\"content\":" + form_info(r->content()) + common(f) + "}";
    }
    if (auto r = dynamic_cast<const ak::IndexedForm*>(f)) {
      return "{\"node\":\"IndexedForm\",\"index\":" + q(ak::Index::form2str(r->index())) + ",\"content\":" + form_info(r->content()) + common(f) + "}";
    }
    if (auto r = dynamic_cast<const ak::ByteMaskedForm*>(f)) {
      return "{\"node\":\"ByteMaskedForm\",\"mask\":" + q(ak::Index::form2str(r->mask())) + ",\"valid_when\":" + b(r->valid_when())
             + ",\"content\":" + form_info(r->content()) + common(f) + "}";
    }
    if (auto r = dynamic_cast<const ak::BitMaskedForm*>(f)) {
      return "{\"node\":\"BitMaskedForm\",\"mask\":" + q(ak::Index::form2str(r->mask())) + ",\"valid_when\":" + b(r->valid_when())
             + ",\"lsb_order\":" + b(r->lsb_order()) + ",\"content\":" + form_info(r->content()) + common(f) + "}";
    }
    if (auto r = dynamic_cast<const ak::UnmaskedForm*>(f)) {
      return "{\"node\":\"UnmaskedForm\",\"content\":" + form_info(r->content()) + common(f) + "}";
    }
    if (auto r = dynamic_cast<const ak::RecordForm*>(f)) {
      std::string keys = "null";
      if (r->recordlookup().get() != nullptr) keys = json_strings(*r->recordlookup());
      return "{\"node\":\"RecordForm\",\"keys\":" + keys + ",\"contents\":" + forms(r->contents()) + common(f) + "}";
    }
    if (auto r = dynamic_cast<const ak::UnionForm*>(f)) {
      return "{\"node\":\"UnionForm\",\"tags\":" + q(ak::Index::form2str(r->tags())) + ",\"index\":" + q(ak::Index::form2str(r->index()))
             + ",\"contents\":" + forms(r->contents()) + common(f) + "}";
    }
    if (auto r = dynamic_cast<const ak::VirtualForm*>(f)) {
      return "{\"node\":\"VirtualForm\",\"has_length\":" + b(r->has_length()) + ",\"form\":" + (r->has_form() ? form_info(r->form()) : std::string("null"))
             + common(f) + "}";
    }
    throw BridgeError("bridge: form_info on an unknown Form class");
  }

  std::string type_info(const ak::TypePtr& tp) {
    const ak::Type* t = tp.get();
    if (t == nullptr) return "null";
    std::string tail = ",\"rawparameters\":" + raw_parameters(t->parameters()) + ",\"typestr\":" + q(t->typestr()) + "}";
    if (auto r = dynamic_cast<const ak::ArrayType*>(t)) return "{\"node\":\"array\",\"length\":" + std::to_string(r->length()) + ",\"content\":" + type_info(r->type()) + tail;
    if (auto r = dynamic_cast<const ak::PrimitiveType*>(t)) return "{\"node\":\"primitive\",\"dtype\":" + q(ak::util::dtype_to_name(r->dtype())) + tail;
    if (dynamic_cast<const ak::UnknownType*>(t)) return "{\"node\":\"unknown\"" + tail;
    if (auto r = dynamic_cast<const ak::ListType*>(t)) return "{\"node\":\"list\",\"content\":" + type_info(r->type()) + tail;
    if (auto r = dynamic_cast<const ak::RegularType*>(t)) return "{\"node\":\"regular\",\"size\":" + std::to_string(r->size()) + ",\"content\":" + type_info(r->type()) + tail;
    if (auto r = dynamic_cast<const ak::OptionType*>(t)) return "{\"node\":\"option\",\"content\":" + type_info(r->type()) + tail;
    if (auto r = dynamic_cast<const ak::UnionType*>(t)) {
      std::string s = "[";
      for (int64_t i = 0; i < r->numtypes(); i++) { if (i) s += ","; s += type_info(r->type(i)); }
      return "{\"node\":\"union\",\"contents\":" + s + "]" + tail;
    }
    if (auto r = dynamic_cast<const ak::RecordType*>(t)) {
      std::string s = "[";
      std::vector<ak::TypePtr> ts = r->types();
      for (size_t i = 0; i < ts.size(); i++) { if (i) s += ","; s += type_info(ts[i]); }
      std::string keys = "null";
      if (r->recordlookup().get() != nullptr) keys = json_strings(*r->recordlookup());
      return "{\"node\":\"record\",\"keys\":" + keys + ",\"contents\":" + s + "]" + tail;
    }
    throw BridgeError("bridge: type_info on an unknown Type class");
  }

  ak::util::RecordLookupPtr lookup(const std::vector<std::string>& ss, size_t from, size_t n) {
    ak::util::RecordLookupPtr out = std::make_shared<ak::util::RecordLookup>();
    for (size_t i = 0; i < n; i++) out->push_back(ss.at(from + i));
    return out;
  }

  // std::out_of_range escaping from the library must not look like a misuse of the bridge (akb_call maps it to status 4)
  struct EscapedOutOfRange : public std::exception {
    std::string msg;
    explicit EscapedOutOfRange(const std::string& m) : msg("std::out_of_range: " + m) { }
    const char* what() const noexcept override { return msg.c_str(); }
  };

  bool types_dispatch(const std::string& op, const std::vector<int64_t>& h, const std::vector<int64_t>& ia,
                      const std::vector<double>& da, const std::vector<std::string>& ss, AkbResult* out) {
    // ---- Type constructors; ss[0] is always the typestr ("" = none), parameters follow as key/json pairs
    if (op == "t_primitive") {   // ss: typestr, dtype name, params...
      ak::util::dtype dt = ak::util::name_to_dtype(ss.at(1));
      if (dt == ak::util::dtype::NOT_PRIMITIVE) throw std::invalid_argument("unrecognized primitive type: " + ss.at(1));   // as in src/python/types.cpp
      ret_type(out, std::make_shared<ak::PrimitiveType>(params_from(ss, 2), ss.at(0), dt)); return true;
    }
    if (op == "t_unknown") { ret_type(out, std::make_shared<ak::UnknownType>(params_from(ss, 1), ss.at(0))); return true; }
    if (op == "t_list") { ret_type(out, std::make_shared<ak::ListType>(params_from(ss, 1), ss.at(0), gett(h.at(0)))); return true; }
    if (op == "t_regular") { ret_type(out, std::make_shared<ak::RegularType>(params_from(ss, 1), ss.at(0), gett(h.at(0)), ia.at(0))); return true; }
    if (op == "t_option") { ret_type(out, std::make_shared<ak::OptionType>(params_from(ss, 1), ss.at(0), gett(h.at(0)))); return true; }
    if (op == "t_array") { ret_type(out, std::make_shared<ak::ArrayType>(params_from(ss, 1), ss.at(0), gett(h.at(0)), ia.at(0))); return true; }
    if (op == "t_union") {
      std::vector<ak::TypePtr> ts;
      for (auto x : h) ts.push_back(gett(x));
      ret_type(out, std::make_shared<ak::UnionType>(params_from(ss, 1), ss.at(0), ts)); return true;
    }
    if (op == "t_record") {   // ia[0]: has keys ; ia[1]: number of keys ; ss: typestr, keys..., params...
      std::vector<ak::TypePtr> ts;
      for (auto x : h) ts.push_back(gett(x));
      size_t nkeys = (size_t)ia.at(1);
      if (ia.at(0)) {
        if (nkeys != ts.size()) throw std::invalid_argument("if provided, 'keys' must have the same length as 'types'");   // as in src/python/types.cpp
        ret_type(out, std::make_shared<ak::RecordType>(params_from(ss, 1 + nkeys), ss.at(0), ts, lookup(ss, 1, nkeys)));
      }
      else ret_type(out, std::make_shared<ak::RecordType>(params_from(ss, 1), ss.at(0), ts, ak::util::RecordLookupPtr(nullptr)));
      return true;
    }
    if (op == "type_info") { ret_str(out, type_info(gett(h.at(0)))); return true; }
    if (op == "type_rawparameters") { ret_str(out, raw_parameters(gett(h.at(0))->parameters())); return true; }
    if (op == "type_typestr") { ret_str(out, gett(h.at(0))->typestr()); return true; }

    // ---- type of a content / of a form with the typestrs the Python layer passes
    if (op == "type_ts") { ret_type(out, getc(h.at(0))->type(typestrs_from(ss, 0))); return true; }
    if (op == "typestr_ts") { ret_str(out, getc(h.at(0))->type(typestrs_from(ss, 0))->tostring()); return true; }
    if (op == "form_type_ts") { ret_type(out, getf(h.at(0))->type(typestrs_from(ss, 0))); return true; }
    if (op == "arraytypestr_ts") {
      ak::ArrayType t(ak::util::Parameters(), std::string(), getc(h.at(0))->type(typestrs_from(ss, 0)), getc(h.at(0))->length());
      ret_str(out, t.tostring()); return true;
    }

    // ---- forms
    if (op == "form_info") { ret_str(out, form_info(getf(h.at(0)))); return true; }
    if (op == "form_rawparameter") { ret_str(out, getf(h.at(0))->parameter(ss.at(0))); return true; }
    if (op == "form_getitem_range") { ret_form(out, getf(h.at(0))->getitem_range()); return true; }

    // ---- field queries whose std::out_of_range (std::stoi on a long digit string) must stay visible as a native exception
    if (op == "haskey_x" || op == "fieldindex_x" || op == "form_haskey_x" || op == "form_fieldindex_x") {
      const std::string key = ss.at(0);
      const int64_t h0 = h.at(0);
      bool onform = (op[0] == 'f' && op[1] == 'o');
      ak::ContentPtr c = onform ? ak::ContentPtr(nullptr) : getc(h0);
      ak::FormPtr f = onform ? getf(h0) : ak::FormPtr(nullptr);
      try {
        if (op == "haskey_x") ret_bool(out, c->haskey(key));
        else if (op == "fieldindex_x") ret_int(out, c->fieldindex(key));
        else if (op == "form_haskey_x") ret_bool(out, f->haskey(key));
        else ret_int(out, f->fieldindex(key));
      }
      catch (std::out_of_range& e) { throw EscapedOutOfRange(e.what()); }
      return true;
    }
    if (op == "key_x" || op == "form_key_x") {
      const int64_t at = ia.at(0);
      const int64_t h0 = h.at(0);
      ak::ContentPtr c = (op == "key_x") ? getc(h0) : ak::ContentPtr(nullptr);
      ak::FormPtr f = (op == "key_x") ? ak::FormPtr(nullptr) : getf(h0);
      try {
        if (op == "key_x") ret_str(out, c->key(at));
        else ret_str(out, f->key(at));
      }
      catch (std::out_of_range& e) { throw EscapedOutOfRange(e.what()); }
      return true;
    }
    return false;
  }

  static akb::Registrar reg(&types_dispatch);
}
