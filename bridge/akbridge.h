// shared declarations for the /verif bridge translation units
#ifndef AKBRIDGE_H_
#define AKBRIDGE_H_
#include <cstdint>
#include <map>
#include <memory>
#include <stdexcept>
#include <string>
#include <vector>
#include "awkward/Content.h"
#include "awkward/Index.h"
#include "awkward/Slice.h"
#include "awkward/type/Type.h"

extern "C" {
  struct AkbResult { int64_t kind; int64_t h; int64_t h2; int64_t i; double d; const char* s; int64_t slen; };
}

namespace akb {
  namespace ak = awkward;
  enum { K_NONE = 0, K_CONTENT = 1, K_INDEX = 2, K_INT = 3, K_BOOL = 4, K_DOUBLE = 5, K_STR = 6, K_PAIR = 7, K_FORM = 8, K_TYPE = 9 };

  struct BridgeError : public std::exception {
    std::string msg;
    explicit BridgeError(const std::string& m) : msg(m) { }
    const char* what() const noexcept override { return msg.c_str(); }
  };

  struct AnyIndex {
    int kind;   // 0: i8, 1: u8, 2: i32, 3: u32, 4: i64
    std::shared_ptr<ak::Index8> i8;
    std::shared_ptr<ak::IndexU8> u8;
    std::shared_ptr<ak::Index32> i32;
    std::shared_ptr<ak::IndexU32> u32;
    std::shared_ptr<ak::Index64> i64;
  };

  extern std::map<int64_t, ak::ContentPtr> contents;
  extern std::map<int64_t, AnyIndex> indexes;
  extern int64_t next_handle;
  extern thread_local std::string last_error;
  extern thread_local std::string last_string;

  int64_t put(const ak::ContentPtr& c);
  int64_t put(const AnyIndex& x);
  int64_t put(const ak::FormPtr& f);
  int64_t put(const ak::TypePtr& t);
  const ak::ContentPtr& getc(int64_t h);
  const AnyIndex& geti(int64_t h);
  const ak::FormPtr& getf(int64_t h);
  const ak::TypePtr& gett(int64_t h);
  AnyIndex wrap(const ak::Index8& x);
  AnyIndex wrap(const ak::IndexU8& x);
  AnyIndex wrap(const ak::Index32& x);
  AnyIndex wrap(const ak::IndexU32& x);
  AnyIndex wrap(const ak::Index64& x);
  const ak::Index64& need64(int64_t h);
  const ak::Index8& need8(int64_t h);

  void ret_content(AkbResult* out, const ak::ContentPtr& c);
  void ret_index(AkbResult* out, const AnyIndex& x);
  void ret_int(AkbResult* out, int64_t i);
  void ret_bool(AkbResult* out, bool b);
  void ret_str(AkbResult* out, const std::string& s);
  void ret_form(AkbResult* out, const ak::FormPtr& f);
  void ret_type(AkbResult* out, const ak::TypePtr& t);
  void ret_handles(AkbResult* out, const std::vector<int64_t>& hs);
  std::string json_strings(const std::vector<std::string>& v);

  // further translation units (builders, JSON input, Forth, virtual, partitions) register a dispatcher:
  //   static akb::Registrar reg(&my_dispatch);     my_dispatch returns false if the op is not its own.
  typedef bool (*DispatchFn)(const std::string& op, const std::vector<int64_t>& h, const std::vector<int64_t>& ia,
                             const std::vector<double>& da, const std::vector<std::string>& ss, AkbResult* out);
  struct Registrar { explicit Registrar(DispatchFn fn); };
  bool dispatch_more(const std::string& op, const std::vector<int64_t>& h, const std::vector<int64_t>& ia,
                     const std::vector<double>& da, const std::vector<std::string>& ss, AkbResult* out);
}
#endif
