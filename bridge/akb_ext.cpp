// bridge ops needed by the `awkward._ext` emulation (tier P): Type and Form constructors and accessors with the
// argument lists of src/python/types.cpp and src/python/forms.cpp.  Ops are prefixed "t_" (types) and "f_" (forms).
#include <sstream>
#include "akbridge.h"
#include "awkward/type/ArrayType.h"
#include "awkward/type/ListType.h"
#include "awkward/type/OptionType.h"
#include "awkward/type/PrimitiveType.h"
#include "awkward/type/RecordType.h"
#include "awkward/type/RegularType.h"
#include "awkward/type/UnionType.h"
#include "awkward/type/UnknownType.h"
#include "awkward/array/NumpyArray.h"
#include "awkward/array/EmptyArray.h"
#include "awkward/array/ListArray.h"
#include "awkward/array/ListOffsetArray.h"
#include "awkward/array/RegularArray.h"
#include "awkward/array/IndexedArray.h"
#include "awkward/array/ByteMaskedArray.h"
#include "awkward/array/BitMaskedArray.h"
#include "awkward/array/UnmaskedArray.h"
#include "awkward/array/RecordArray.h"
#include "awkward/array/UnionArray.h"
#include "awkward/array/VirtualArray.h"
#include "awkward/util.h"

namespace ak = awkward;
using namespace akb;

namespace {
  std::string jstr(const std::string& s) {
    std::string o = "\"";
    for (unsigned char c : s) {
      switch (c) {
        case '"': o += "\\\""; break;
        case '\\': o += "\\\\"; break;
        case '\n': o += "\\n"; break;
        case '\r': o += "\\r"; break;
        case '\t': o += "\\t"; break;
        default:
          if (c < 0x20) { char b[8]; std::snprintf(b, sizeof b, "\\u%04x", c); o += b; }
          else o += (char)c;
      }
    }
    return o + "\"";
  }

  // parameters are stored as key -> JSON text: emit them without going through any JSON library
  std::string params_json(const ak::util::Parameters& p) {
    std::string o = "{";
    bool first = true;
    for (auto kv : p) {
      if (!first) o += ",";
      first = false;
      o += jstr(kv.first) + ":" + kv.second;
    }
    return o + "}";
  }

  // ss layout for constructors: ss[0] class, ss[1] typestr / form_key ("" with flag = none), ss[2] = N parameters,
  // then N (key, json) pairs, then class-specific strings
  ak::util::Parameters read_params(const std::vector<std::string>& ss, size_t& pos) {
    ak::util::Parameters out;
    int64_t n = std::stoll(ss.at(pos++));
    for (int64_t i = 0; i < n; i++) { std::string k = ss.at(pos++); std::string v = ss.at(pos++); out[k] = v; }
    return out;
  }

  std::string type_class(const ak::TypePtr& t) {
    ak::Type* r = t.get();
    if (dynamic_cast<ak::ArrayType*>(r)) return "ArrayType";
    if (dynamic_cast<ak::ListType*>(r)) return "ListType";
    if (dynamic_cast<ak::OptionType*>(r)) return "OptionType";
    if (dynamic_cast<ak::PrimitiveType*>(r)) return "PrimitiveType";
    if (dynamic_cast<ak::RecordType*>(r)) return "RecordType";
    if (dynamic_cast<ak::RegularType*>(r)) return "RegularType";
    if (dynamic_cast<ak::UnionType*>(r)) return "UnionType";
    if (dynamic_cast<ak::UnknownType*>(r)) return "UnknownType";
    throw std::runtime_error("missing boxer for Type subtype");
  }

  std::string form_class(const ak::FormPtr& f) {
    ak::Form* r = f.get();
    if (dynamic_cast<ak::BitMaskedForm*>(r)) return "BitMaskedForm";
    if (dynamic_cast<ak::ByteMaskedForm*>(r)) return "ByteMaskedForm";
    if (dynamic_cast<ak::EmptyForm*>(r)) return "EmptyForm";
    if (dynamic_cast<ak::IndexedForm*>(r)) return "IndexedForm";
    if (dynamic_cast<ak::IndexedOptionForm*>(r)) return "IndexedOptionForm";
    if (dynamic_cast<ak::ListForm*>(r)) return "ListForm";
    if (dynamic_cast<ak::ListOffsetForm*>(r)) return "ListOffsetForm";
    if (dynamic_cast<ak::NumpyForm*>(r)) return "NumpyForm";
    if (dynamic_cast<ak::RecordForm*>(r)) return "RecordForm";
    if (dynamic_cast<ak::RegularForm*>(r)) return "RegularForm";
    if (dynamic_cast<ak::UnionForm*>(r)) return "UnionForm";
    if (dynamic_cast<ak::UnmaskedForm*>(r)) return "UnmaskedForm";
    if (dynamic_cast<ak::VirtualForm*>(r)) return "VirtualForm";
    throw std::runtime_error("missing boxer for Form subtype");
  }

  ak::util::TypeStrs read_typestrs(const std::vector<std::string>& ss, size_t pos) {
    ak::util::TypeStrs out;
    for (size_t i = pos; i + 1 < ss.size(); i += 2) out[ss[i]] = ss[i + 1];
    return out;
  }

  bool dispatch_ext(const std::string& op, const std::vector<int64_t>& h, const std::vector<int64_t>& ia,
                    const std::vector<double>& da, const std::vector<std::string>& ss, AkbResult* out) {
    if (op.size() < 2 || op[1] != '_' || (op[0] != 't' && op[0] != 'f' && op[0] != 'c')) return false;

    // ------------------------------------------------------------------------------------------------ types
    if (op == "t_new") {
      size_t pos = 0;
      std::string cls = ss.at(pos++);
      std::string typestr = ss.at(pos++);
      ak::util::Parameters params = read_params(ss, pos);
      if (cls == "PrimitiveType") {
        std::string dtype = ss.at(pos++);
        ak::util::dtype dt = ak::util::name_to_dtype(dtype);
        if (dt == ak::util::dtype::NOT_PRIMITIVE) throw std::invalid_argument("unrecognized primitive type: " + dtype);
        ret_type(out, std::make_shared<ak::PrimitiveType>(params, typestr, dt)); return true;
      }
      if (cls == "ListType") { ret_type(out, std::make_shared<ak::ListType>(params, typestr, gett(h.at(0)))); return true; }
      if (cls == "OptionType") { ret_type(out, std::make_shared<ak::OptionType>(params, typestr, gett(h.at(0)))); return true; }
      if (cls == "RegularType") { ret_type(out, std::make_shared<ak::RegularType>(params, typestr, gett(h.at(0)), ia.at(0))); return true; }
      if (cls == "ArrayType") { ret_type(out, std::make_shared<ak::ArrayType>(params, typestr, gett(h.at(0)), ia.at(0))); return true; }
      if (cls == "UnknownType") { ret_type(out, std::make_shared<ak::UnknownType>(params, typestr)); return true; }
      if (cls == "UnionType") {
        std::vector<ak::TypePtr> ts;
        for (auto x : h) ts.push_back(gett(x));
        ret_type(out, std::make_shared<ak::UnionType>(params, typestr, ts)); return true;
      }
      if (cls == "RecordType") {
        std::vector<ak::TypePtr> ts;
        for (auto x : h) ts.push_back(gett(x));
        ak::util::RecordLookupPtr lookup(nullptr);
        if (ia.at(0) != 0) {
          lookup = std::make_shared<ak::util::RecordLookup>();
          while (pos < ss.size()) lookup->push_back(ss.at(pos++));
          if (lookup->size() != ts.size()) throw std::invalid_argument("if provided, 'keys' must have the same length as 'types'");
        }
        ret_type(out, std::make_shared<ak::RecordType>(params, typestr, ts, lookup)); return true;
      }
      throw BridgeError("bridge: unknown type class " + cls);
    }
    if (op == "t_class") { ret_str(out, type_class(gett(h.at(0)))); return true; }
    if (op == "t_params") { ret_str(out, params_json(gett(h.at(0))->parameters())); return true; }
    if (op == "t_setparameter") { gett(h.at(0))->setparameter(ss.at(0), ss.at(1)); out->kind = K_NONE; return true; }
    if (op == "t_setparameters") { size_t pos = 0; gett(h.at(0))->setparameters(read_params(ss, pos)); out->kind = K_NONE; return true; }
    if (op == "t_typestr") { ret_str(out, gett(h.at(0))->typestr()); return true; }
    if (op == "t_numfields") { ret_int(out, gett(h.at(0))->numfields()); return true; }
    if (op == "t_fieldindex") { ret_int(out, gett(h.at(0))->fieldindex(ss.at(0))); return true; }
    if (op == "t_key") { ret_str(out, gett(h.at(0))->key(ia.at(0))); return true; }
    if (op == "t_haskey") { ret_bool(out, gett(h.at(0))->haskey(ss.at(0))); return true; }
    if (op == "t_keys") { ret_str(out, json_strings(gett(h.at(0))->keys())); return true; }
    if (op == "t_empty") { ret_content(out, gett(h.at(0))->empty()); return true; }
    if (op == "t_shallow_copy") { ret_type(out, gett(h.at(0))->shallow_copy()); return true; }
    if (op == "t_info") {
      // integer facts: ia[0] selector
      const ak::TypePtr& t = gett(h.at(0));
      ak::Type* r = t.get();
      switch (ia.at(0)) {
        case 0: if (auto x = dynamic_cast<ak::RegularType*>(r)) { ret_int(out, x->size()); return true; } break;
        case 1: if (auto x = dynamic_cast<ak::ArrayType*>(r)) { ret_int(out, x->length()); return true; } break;
        case 2: if (auto x = dynamic_cast<ak::UnionType*>(r)) { ret_int(out, x->numtypes()); return true; } break;
        case 3: if (auto x = dynamic_cast<ak::RecordType*>(r)) { ret_bool(out, x->istuple()); return true; } break;
        case 4: if (auto x = dynamic_cast<ak::PrimitiveType*>(r)) { ret_str(out, ak::util::dtype_to_name(x->dtype())); return true; } break;
        case 5: if (auto x = dynamic_cast<ak::PrimitiveType*>(r)) { ret_int(out, (int64_t)x->dtype()); return true; } break;
      }
      throw BridgeError("bridge: t_info selector does not apply to this type");
    }
    if (op == "t_child") {
      const ak::TypePtr& t = gett(h.at(0));
      ak::Type* r = t.get();
      if (auto x = dynamic_cast<ak::ArrayType*>(r)) { ret_type(out, x->type()); return true; }
      if (auto x = dynamic_cast<ak::ListType*>(r)) { ret_type(out, x->type()); return true; }
      if (auto x = dynamic_cast<ak::OptionType*>(r)) { ret_type(out, x->type()); return true; }
      if (auto x = dynamic_cast<ak::RegularType*>(r)) { ret_type(out, x->type()); return true; }
      if (auto x = dynamic_cast<ak::UnionType*>(r)) { ret_type(out, x->type(ia.at(0))); return true; }
      if (auto x = dynamic_cast<ak::RecordType*>(r)) {
        if (ia.at(1) != 0) ret_type(out, x->field(ss.at(0))); else ret_type(out, x->field(ia.at(0)));
        return true;
      }
      throw BridgeError("bridge: type has no child");
    }

    // ------------------------------------------------------------------------------------------------ forms
    if (op == "f_new") {
      size_t pos = 0;
      std::string cls = ss.at(pos++);
      std::string fk = ss.at(pos++);
      ak::util::Parameters params = read_params(ss, pos);
      bool has_identities = ia.at(0) != 0;
      ak::FormKey form_key(nullptr);
      if (ia.at(1) != 0) form_key = std::make_shared<std::string>(fk);
      if (cls == "BitMaskedForm") {
        ret_form(out, std::make_shared<ak::BitMaskedForm>(has_identities, params, form_key, ak::Index::str2form(ss.at(pos)), getf(h.at(0)), ia.at(2) != 0, ia.at(3) != 0));
        return true;
      }
      if (cls == "ByteMaskedForm") {
        ret_form(out, std::make_shared<ak::ByteMaskedForm>(has_identities, params, form_key, ak::Index::str2form(ss.at(pos)), getf(h.at(0)), ia.at(2) != 0));
        return true;
      }
      if (cls == "EmptyForm") { ret_form(out, std::make_shared<ak::EmptyForm>(has_identities, params, form_key)); return true; }
      if (cls == "IndexedForm") {
        ret_form(out, std::make_shared<ak::IndexedForm>(has_identities, params, form_key, ak::Index::str2form(ss.at(pos)), getf(h.at(0)))); return true;
      }
      if (cls == "IndexedOptionForm") {
        ret_form(out, std::make_shared<ak::IndexedOptionForm>(has_identities, params, form_key, ak::Index::str2form(ss.at(pos)), getf(h.at(0)))); return true;
      }
      if (cls == "ListForm") {
        ret_form(out, std::make_shared<ak::ListForm>(has_identities, params, form_key, ak::Index::str2form(ss.at(pos)), ak::Index::str2form(ss.at(pos + 1)), getf(h.at(0))));
        return true;
      }
      if (cls == "ListOffsetForm") {
        ret_form(out, std::make_shared<ak::ListOffsetForm>(has_identities, params, form_key, ak::Index::str2form(ss.at(pos)), getf(h.at(0)))); return true;
      }
      if (cls == "NumpyForm") {
        // ia[2] itemsize, ia[3..] inner_shape ; ss[pos] format
        std::vector<int64_t> inner(ia.begin() + 3, ia.end());
        std::string format = ss.at(pos);
        ret_form(out, std::make_shared<ak::NumpyForm>(has_identities, params, form_key, inner, ia.at(2), format, ak::util::format_to_dtype(format, ia.at(2))));
        return true;
      }
      if (cls == "RecordForm") {
        std::vector<ak::FormPtr> cs;
        for (auto x : h) cs.push_back(getf(x));
        ak::util::RecordLookupPtr lookup(nullptr);
        if (ia.at(2) != 0) {
          lookup = std::make_shared<ak::util::RecordLookup>();
          while (pos < ss.size()) lookup->push_back(ss.at(pos++));
        }
        ret_form(out, std::make_shared<ak::RecordForm>(has_identities, params, form_key, lookup, cs)); return true;
      }
      if (cls == "RegularForm") { ret_form(out, std::make_shared<ak::RegularForm>(has_identities, params, form_key, getf(h.at(0)), ia.at(2))); return true; }
      if (cls == "UnionForm") {
        std::vector<ak::FormPtr> cs;
        for (auto x : h) cs.push_back(getf(x));
        ret_form(out, std::make_shared<ak::UnionForm>(has_identities, params, form_key, ak::Index::str2form(ss.at(pos)), ak::Index::str2form(ss.at(pos + 1)), cs));
        return true;
      }
      if (cls == "UnmaskedForm") { ret_form(out, std::make_shared<ak::UnmaskedForm>(has_identities, params, form_key, getf(h.at(0)))); return true; }
      if (cls == "VirtualForm") {
        ak::FormPtr inner(nullptr);
        if (!h.empty()) inner = getf(h.at(0));
        ret_form(out, std::make_shared<ak::VirtualForm>(has_identities, params, form_key, inner, ia.at(2) != 0)); return true;
      }
      throw BridgeError("bridge: unknown form class " + cls);
    }
    if (op == "f_class") { ret_str(out, form_class(getf(h.at(0)))); return true; }
    if (op == "f_params") { ret_str(out, params_json(getf(h.at(0))->parameters())); return true; }
    if (op == "f_parameter") { ret_str(out, getf(h.at(0))->parameter(ss.at(0))); return true; }
    if (op == "f_has_identities") { ret_bool(out, getf(h.at(0))->has_identities()); return true; }
    if (op == "f_form_key") {
      const ak::FormKey& k = getf(h.at(0))->form_key();
      if (k.get() == nullptr) { out->kind = K_NONE; return true; }
      ret_str(out, *k); return true;
    }
    if (op == "f_with_form_key") {
      ak::FormKey k(nullptr);
      if (ia.at(0) != 0) k = std::make_shared<std::string>(ss.at(0));
      ret_form(out, getf(h.at(0))->with_form_key(k)); return true;
    }
    if (op == "f_type") { ret_type(out, getf(h.at(0))->type(read_typestrs(ss, 0))); return true; }
    if (op == "f_fromnumpy") {
      std::vector<int64_t> inner(ia.begin() + 2, ia.end());
      ret_form(out, ak::Form::fromnumpy((char)ia.at(0), ia.at(1), inner)); return true;
    }
    if (op == "f_getitem_fields") { ret_form(out, getf(h.at(0))->getitem_fields(ss)); return true; }
    if (op == "f_str") {
      // string facts by selector
      const ak::FormPtr& f = getf(h.at(0));
      ak::Form* r = f.get();
      int64_t sel = ia.at(0);
      if (auto x = dynamic_cast<ak::BitMaskedForm*>(r)) { if (sel == 0) { ret_str(out, ak::Index::form2str(x->mask())); return true; } }
      if (auto x = dynamic_cast<ak::ByteMaskedForm*>(r)) { if (sel == 0) { ret_str(out, ak::Index::form2str(x->mask())); return true; } }
      if (auto x = dynamic_cast<ak::IndexedForm*>(r)) { if (sel == 0) { ret_str(out, ak::Index::form2str(x->index())); return true; } }
      if (auto x = dynamic_cast<ak::IndexedOptionForm*>(r)) { if (sel == 0) { ret_str(out, ak::Index::form2str(x->index())); return true; } }
      if (auto x = dynamic_cast<ak::ListForm*>(r)) {
        if (sel == 0) { ret_str(out, ak::Index::form2str(x->starts())); return true; }
        if (sel == 1) { ret_str(out, ak::Index::form2str(x->stops())); return true; }
      }
      if (auto x = dynamic_cast<ak::ListOffsetForm*>(r)) { if (sel == 0) { ret_str(out, ak::Index::form2str(x->offsets())); return true; } }
      if (auto x = dynamic_cast<ak::UnionForm*>(r)) {
        if (sel == 0) { ret_str(out, ak::Index::form2str(x->tags())); return true; }
        if (sel == 1) { ret_str(out, ak::Index::form2str(x->index())); return true; }
      }
      if (auto x = dynamic_cast<ak::NumpyForm*>(r)) {
        if (sel == 0) { ret_str(out, x->format()); return true; }
        if (sel == 1) { ret_str(out, x->primitive()); return true; }
        if (sel == 2) {
          std::string s = "[";
          bool first = true;
          for (auto v : x->inner_shape()) { if (!first) s += ","; first = false; s += std::to_string(v); }
          ret_str(out, s + "]"); return true;
        }
      }
      throw BridgeError("bridge: f_str selector does not apply");
    }
    if (op == "f_int") {
      const ak::FormPtr& f = getf(h.at(0));
      ak::Form* r = f.get();
      int64_t sel = ia.at(0);
      if (auto x = dynamic_cast<ak::BitMaskedForm*>(r)) {
        if (sel == 0) { ret_bool(out, x->valid_when()); return true; }
        if (sel == 1) { ret_bool(out, x->lsb_order()); return true; }
      }
      if (auto x = dynamic_cast<ak::ByteMaskedForm*>(r)) { if (sel == 0) { ret_bool(out, x->valid_when()); return true; } }
      if (auto x = dynamic_cast<ak::RegularForm*>(r)) { if (sel == 0) { ret_int(out, x->size()); return true; } }
      if (auto x = dynamic_cast<ak::NumpyForm*>(r)) {
        if (sel == 0) { ret_int(out, x->itemsize()); return true; }
        if (sel == 1) { ret_int(out, (int64_t)x->dtype()); return true; }
      }
      if (auto x = dynamic_cast<ak::RecordForm*>(r)) { if (sel == 0) { ret_bool(out, x->istuple()); return true; } }
      if (auto x = dynamic_cast<ak::UnionForm*>(r)) { if (sel == 0) { ret_int(out, x->numcontents()); return true; } }
      if (auto x = dynamic_cast<ak::VirtualForm*>(r)) {
        if (sel == 0) { ret_bool(out, x->has_length()); return true; }
        if (sel == 1) { ret_bool(out, x->has_form()); return true; }
      }
      throw BridgeError("bridge: f_int selector does not apply");
    }
    if (op == "f_child") {
      const ak::FormPtr& f = getf(h.at(0));
      ak::Form* r = f.get();
      if (auto x = dynamic_cast<ak::BitMaskedForm*>(r)) { ret_form(out, x->content()); return true; }
      if (auto x = dynamic_cast<ak::ByteMaskedForm*>(r)) { ret_form(out, x->content()); return true; }
      if (auto x = dynamic_cast<ak::IndexedForm*>(r)) { ret_form(out, x->content()); return true; }
      if (auto x = dynamic_cast<ak::IndexedOptionForm*>(r)) { ret_form(out, x->content()); return true; }
      if (auto x = dynamic_cast<ak::ListForm*>(r)) { ret_form(out, x->content()); return true; }
      if (auto x = dynamic_cast<ak::ListOffsetForm*>(r)) { ret_form(out, x->content()); return true; }
      if (auto x = dynamic_cast<ak::RegularForm*>(r)) { ret_form(out, x->content()); return true; }
      if (auto x = dynamic_cast<ak::UnmaskedForm*>(r)) { ret_form(out, x->content()); return true; }
      if (auto x = dynamic_cast<ak::VirtualForm*>(r)) { ret_form(out, x->form()); return true; }
      if (auto x = dynamic_cast<ak::UnionForm*>(r)) { ret_form(out, x->content(ia.at(0))); return true; }
      if (auto x = dynamic_cast<ak::RecordForm*>(r)) {
        if (ia.at(1) != 0) ret_form(out, x->content(ss.at(0))); else ret_form(out, x->content(ia.at(0)));
        return true;
      }
      throw BridgeError("bridge: form has no child");
    }
    // ------------------------------------------------------------------------------------------------ contents
    if (op == "c_union_nested_tags_index") {
      // h[0] offsets (Index64), h[1..] counts (Index64) ; ia[0] index width kind (2: 32, 3: U32, 4: 64)
      std::vector<ak::Index64> counts;
      for (size_t i = 1; i < h.size(); i++) counts.push_back(need64(h[i]));
      switch (ia.at(0)) {
        case 2: { auto p = ak::UnionArray8_32::nested_tags_index(need64(h.at(0)), counts); out->kind = K_PAIR; out->h = put(wrap(p.first)); out->h2 = put(wrap(p.second)); return true; }
        case 3: { auto p = ak::UnionArray8_U32::nested_tags_index(need64(h.at(0)), counts); out->kind = K_PAIR; out->h = put(wrap(p.first)); out->h2 = put(wrap(p.second)); return true; }
        case 4: { auto p = ak::UnionArray8_64::nested_tags_index(need64(h.at(0)), counts); out->kind = K_PAIR; out->h = put(wrap(p.first)); out->h2 = put(wrap(p.second)); return true; }
      }
      throw BridgeError("bridge: bad union width");
    }
    if (op == "c_type") { ret_type(out, getc(h.at(0))->type(read_typestrs(ss, 0))); return true; }
    return false;
  }

  static akb::Registrar reg(&dispatch_ext);
}
