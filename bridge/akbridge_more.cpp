// second translation unit of the bridge: builders, JSON input, Forth, virtual arrays, partitions
#include "akbridge.h"

namespace akb {
  bool dispatch_more(const std::string& op, const std::vector<int64_t>& h, const std::vector<int64_t>& ia,
                     const std::vector<double>& da, const std::vector<std::string>& ss, AkbResult* out) {
    return false;
  }
}
