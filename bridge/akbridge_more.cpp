// registry of additional dispatchers: every further translation unit of the bridge (builders, JSON input, Forth,
// virtual arrays, partitions, ...) registers one function through a static akb::Registrar object.
#include "akbridge.h"

namespace akb {
  static std::vector<DispatchFn>& registry() { static std::vector<DispatchFn> r; return r; }

  Registrar::Registrar(DispatchFn fn) { registry().push_back(fn); }

  bool dispatch_more(const std::string& op, const std::vector<int64_t>& h, const std::vector<int64_t>& ia,
                     const std::vector<double>& da, const std::vector<std::string>& ss, AkbResult* out) {
    for (auto fn : registry()) {
      if (fn(op, h, ia, da, ss, out)) return true;
    }
    return false;
  }
}
