// bridge ops for VirtualArray / ArrayGenerator / SliceGenerator / ArrayCache and IrregularlyPartitionedArray (C18).
//
// BridgeGenerator and BridgeCache re-state PyArrayGenerator / PyArrayCache of /repo/src/python/virtual.cpp with the
// Python calls replaced by C function pointers registered from ctypes:
//   generate(token)                      -> content handle (ownership passes to C++), or < 0: the Python side has an exception pending
//   cache_get(token, key, keylen)        -> content handle (ownership passes), 0: miss, < 0: exception pending
//   cache_set(token, key, keylen, h)     -> 0, or < 0: exception pending   (h is a fresh handle owned by the Python side)
//   cache_broken(token)                  -> 0 / 1
// An error return is turned into a thrown std::runtime_error subclass (pybind11's error_already_set is a
// std::runtime_error too); it unwinds through libawkward like a Python exception raised inside the callable would, and
// the Python side re-raises the pending exception when the status comes back.
#include <mutex>
#include <sstream>

#include "awkward/array/VirtualArray.h"
#include "awkward/virtual/ArrayGenerator.h"
#include "awkward/virtual/ArrayCache.h"
#include "awkward/partition/PartitionedArray.h"
#include "awkward/partition/IrregularlyPartitionedArray.h"
#include "awkward/util.h"

#include "akbridge.h"

namespace ak = awkward;

namespace akb {
  extern std::map<int64_t, std::shared_ptr<ak::Slice>> slices;
  extern std::mutex& released_mutex;
  extern std::vector<int64_t>& released_tokens;
}

namespace {
  using namespace akb;

  typedef int64_t (*generate_cb_t)(int64_t token);
  typedef int64_t (*cache_get_cb_t)(int64_t token, const char* key, int64_t keylen);
  typedef int64_t (*cache_set_cb_t)(int64_t token, const char* key, int64_t keylen, int64_t h);
  typedef int64_t (*cache_broken_cb_t)(int64_t token);

  generate_cb_t generate_cb = nullptr;
  cache_get_cb_t cache_get_cb = nullptr;
  cache_set_cb_t cache_set_cb = nullptr;
  cache_broken_cb_t cache_broken_cb = nullptr;

  const char* CALLBACK_MARK = "akb-python-callback-raised";

  struct CallbackError : public std::runtime_error {
    explicit CallbackError(const std::string& what) : std::runtime_error(std::string(CALLBACK_MARK) + ": " + what) { }
  };

  // reports `token` to the Python side (akb_drain_released) when the last C++ owner goes away
  struct PyRef {
    int64_t token;
    explicit PyRef(int64_t t) : token(t) { }
    ~PyRef() {
      if (token != 0) { std::lock_guard<std::mutex> g(released_mutex); released_tokens.push_back(token); }
    }
  };

  // content handed over by a callback: the handle was created for us, take the pointer and drop the handle
  ak::ContentPtr take(int64_t h) {
    auto it = contents.find(h);
    if (it == contents.end()) throw BridgeError("bridge: callback returned a bad content handle");
    ak::ContentPtr out = it->second;
    contents.erase(it);
    return out;
  }

  std::string form_block(const ak::FormPtr& form, const std::string& indent) {
    std::string formstr = form.get()->tojson(true, false);
    std::string replace = std::string("\n") + indent + std::string("        ");
    size_t pos = 0;
    while ((pos = formstr.find("\n", pos)) != std::string::npos) {
      formstr.replace(pos, 1, replace);
      pos += replace.length();
    }
    return indent + "    <form>\n" + indent + "        " + formstr + "\n" + indent + "    </form>\n";
  }

  class BridgeCache : public ak::ArrayCache {
  public:
    explicit BridgeCache(const std::shared_ptr<PyRef>& ref) : ref_(ref) { }
    int64_t token() const { return ref_.get()->token; }

    ak::ContentPtr get(const std::string& key) const override {
      if (cache_get_cb == nullptr) throw BridgeError("bridge: no cache_get callback registered");
      int64_t h = cache_get_cb(token(), key.data(), (int64_t)key.size());
      if (h < 0) throw CallbackError("ArrayCache.get");
      if (h == 0) return ak::ContentPtr(nullptr);
      return take(h);
    }

    void set(const std::string& key, const ak::ContentPtr& value) override {
      if (cache_set_cb == nullptr) throw BridgeError("bridge: no cache_set callback registered");
      int64_t h = put(value);
      int64_t st = cache_set_cb(token(), key.data(), (int64_t)key.size(), h);
      if (st < 0) throw CallbackError("ArrayCache.set");
    }

    bool is_broken() const override {
      if (cache_broken_cb == nullptr) throw BridgeError("bridge: no cache_broken callback registered");
      return cache_broken_cb(token()) != 0;
    }

    const std::string tostring_part(const std::string& indent, const std::string& pre, const std::string& post) const override {
      std::stringstream out;
      if (is_broken()) out << indent << pre << "<ArrayCache is_broken=\"true\"/>" << post;
      else out << indent << pre << "<ArrayCache mapping=\"<python mapping " << token() << ">\"/>" << post;
      return out.str();
    }

  private:
    std::shared_ptr<PyRef> ref_;
  };

  class BridgeGenerator : public ak::ArrayGenerator {
  public:
    BridgeGenerator(const ak::FormPtr& form, int64_t length, const std::shared_ptr<PyRef>& ref,
                    const std::vector<ak::ArrayCachePtr>& argcaches)
        : ak::ArrayGenerator(form, length), ref_(ref), argcaches_(argcaches) { }
    int64_t token() const { return ref_.get()->token; }

    const ak::ContentPtr generate() const override {
      if (generate_cb == nullptr) throw BridgeError("bridge: no generate callback registered");
      int64_t h = generate_cb(token());
      if (h <= 0) throw CallbackError("ArrayGenerator callable");
      return take(h);
    }

    // PyArrayGenerator::caches: the ArrayCache objects found among the callable's positional arguments
    void caches(std::vector<ak::ArrayCachePtr>& out) const override {
      for (auto c : argcaches_) {
        bool found = false;
        for (auto old : out) { if (old.get() == c.get()) { found = true; break; } }
        if (!found) out.push_back(c);
      }
    }

    const std::string tostring_part(const std::string& indent, const std::string& pre, const std::string& post) const override {
      std::stringstream out;
      out << indent << pre << "<ArrayGenerator f=\"<python callable " << token() << ">\"";
      if (form_.get() == nullptr && length_ < 0) out << "/>";
      else {
        out << ">\n";
        if (length_ >= 0) out << indent << "    <length>" << length_ << "</length>\n";
        if (form_.get() != nullptr) out << form_block(form_, indent);
        out << indent << "</ArrayGenerator>";
      }
      out << post;
      return out.str();
    }

    const std::shared_ptr<ak::ArrayGenerator> shallow_copy() const override {
      return std::make_shared<BridgeGenerator>(form_, length_, ref_, argcaches_);
    }
    const std::shared_ptr<ak::ArrayGenerator> with_form(const ak::FormPtr& form) const override {
      return std::make_shared<BridgeGenerator>(form, length_, ref_, argcaches_);
    }
    const std::shared_ptr<ak::ArrayGenerator> with_length(int64_t length) const override {
      return std::make_shared<BridgeGenerator>(form_, length, ref_, argcaches_);
    }

    bool referentially_equal(const ak::ArrayGeneratorPtr& other) const override {
      if (length_ != other.get()->length()) return false;
      if (form_.get() == nullptr && other.get()->form().get() != nullptr) return false;
      if (form_.get() != nullptr && other.get()->form().get() == nullptr) return false;
      if (form_.get() != nullptr && other.get()->form().get() != nullptr) {
        return form_.get()->equal(other.get()->form(), true, true, true, false);
      }
      if (BridgeGenerator* raw = dynamic_cast<BridgeGenerator*>(other.get())) return token() == raw->token();
      return false;
    }

  private:
    std::shared_ptr<PyRef> ref_;
    std::vector<ak::ArrayCachePtr> argcaches_;
  };

  // heap-allocated and never destroyed: PyRef's destructor touches akb::released_tokens, which lives in another
  // translation unit and may already be gone during static destruction
  std::map<int64_t, ak::ArrayGeneratorPtr>& generators = *new std::map<int64_t, ak::ArrayGeneratorPtr>();
  std::map<int64_t, ak::ArrayCachePtr>& caches = *new std::map<int64_t, ak::ArrayCachePtr>();
  std::map<int64_t, ak::PartitionedArrayPtr>& partitioned = *new std::map<int64_t, ak::PartitionedArrayPtr>();

  const ak::ArrayGeneratorPtr& getg(int64_t h) {
    auto it = generators.find(h);
    if (it == generators.end()) throw BridgeError("bridge: bad generator handle");
    return it->second;
  }
  const ak::ArrayCachePtr& getcache(int64_t h) {
    auto it = caches.find(h);
    if (it == caches.end()) throw BridgeError("bridge: bad cache handle");
    return it->second;
  }
  const ak::PartitionedArrayPtr& getp(int64_t h) {
    auto it = partitioned.find(h);
    if (it == partitioned.end()) throw BridgeError("bridge: bad partitioned-array handle");
    return it->second;
  }
  ak::IrregularlyPartitionedArray* irregular(int64_t h) {
    ak::IrregularlyPartitionedArray* raw = dynamic_cast<ak::IrregularlyPartitionedArray*>(getp(h).get());
    if (raw == nullptr) throw BridgeError("bridge: not an IrregularlyPartitionedArray");
    return raw;
  }
  void ret_generator(AkbResult* out, const ak::ArrayGeneratorPtr& g) {
    int64_t h = next_handle++; generators[h] = g;
    out->kind = K_INT; out->i = h;
    out->h2 = dynamic_cast<BridgeGenerator*>(g.get()) != nullptr ? 0 : (dynamic_cast<ak::SliceGenerator*>(g.get()) != nullptr ? 1 : 2);
  }
  void ret_cache(AkbResult* out, const ak::ArrayCachePtr& c) {
    int64_t h = next_handle++; caches[h] = c; out->kind = K_INT; out->i = h;
    BridgeCache* raw = dynamic_cast<BridgeCache*>(c.get());
    out->h2 = raw != nullptr ? raw->token() : 0;
  }
  void ret_partitioned(AkbResult* out, const ak::PartitionedArrayPtr& p) {
    int64_t h = next_handle++; partitioned[h] = p; out->kind = K_INT; out->i = h;
  }
  void ret_content_or_none(AkbResult* out, const ak::ContentPtr& c) {
    if (c.get() == nullptr) out->kind = K_NONE; else ret_content(out, c);
  }
  ak::VirtualArray* virtualarray(int64_t h) {
    ak::VirtualArray* raw = dynamic_cast<ak::VirtualArray*>(getc(h).get());
    if (raw == nullptr) throw BridgeError("bridge: not a VirtualArray");
    return raw;
  }
  std::string json_ints(const std::vector<int64_t>& v) {
    std::string s = "[";
    for (size_t i = 0; i < v.size(); i++) { if (i) s += ","; s += std::to_string(v[i]); }
    return s + "]";
  }

  bool dispatch_virtual(const std::string& op, const std::vector<int64_t>& h, const std::vector<int64_t>& ia,
                        const std::vector<double>& da, const std::vector<std::string>& ss, AkbResult* out) {
    if (op.size() < 2 || (op[0] != 'v' && op[0] != 'p') || op[1] != '_') return false;

    // ------------------------------------------------------------------ lifetime
    if (op == "v_release") {
      for (auto x : h) { generators.erase(x); caches.erase(x); partitioned.erase(x); }
      out->kind = K_NONE; return true;
    }
    if (op == "v_live") { ret_int(out, (int64_t)(generators.size() + caches.size() + partitioned.size())); return true; }
    if (op == "v_dup") { ret_content(out, getc(h.at(0))); return true; }   // a second handle on the same node (for hand-over)
    if (op == "v_mark") { ret_str(out, CALLBACK_MARK); return true; }

    // ------------------------------------------------------------------ ArrayCache
    if (op == "v_cache_new") { ret_cache(out, std::make_shared<BridgeCache>(std::make_shared<PyRef>(ia.at(0)))); return true; }
    if (op == "v_cache_is_broken") { ret_bool(out, getcache(h.at(0)).get()->is_broken()); return true; }
    if (op == "v_cache_get") { ret_content_or_none(out, getcache(h.at(0)).get()->get(ss.at(0))); return true; }
    if (op == "v_cache_set") { getcache(h.at(0)).get()->set(ss.at(0), getc(h.at(1))); out->kind = K_NONE; return true; }
    if (op == "v_cache_tostring") { ret_str(out, getcache(h.at(0)).get()->tostring_part("", "", "")); return true; }
    if (op == "v_newkey") { ret_str(out, ak::ArrayCache::newkey()); return true; }

    // ------------------------------------------------------------------ generators
    if (op == "v_generator_new") {
      // ia: token, length (-1: none), has_form ; h: [form] then the caches found among the arguments
      size_t at = 0;
      ak::FormPtr form(nullptr);
      if (ia.at(2)) form = getf(h.at(at++)).get()->shallow_copy();
      std::vector<ak::ArrayCachePtr> argcaches;
      for (; at < h.size(); at++) argcaches.push_back(getcache(h[at]));
      ret_generator(out, std::make_shared<BridgeGenerator>(form, ia.at(1), std::make_shared<PyRef>(ia.at(0)), argcaches));
      return true;
    }
    if (op == "v_slicegenerator_new") {
      // h: content, slice, [form] ; ia: length (-1: none), has_form
      ak::FormPtr form(nullptr);
      if (ia.at(1)) form = getf(h.at(2)).get()->shallow_copy();
      auto it = slices.find(h.at(1));
      if (it == slices.end()) throw BridgeError("bridge: bad slice handle");
      if (!it->second->sealed()) it->second->become_sealed();
      ret_generator(out, std::make_shared<ak::SliceGenerator>(form, ia.at(0), getc(h.at(0)), *it->second));
      return true;
    }
    if (op == "v_generator_length") { ret_int(out, getg(h.at(0)).get()->length()); return true; }
    if (op == "v_generator_form") {
      ak::FormPtr f = getg(h.at(0)).get()->form();
      if (f.get() == nullptr) out->kind = K_NONE; else ret_form(out, f);
      return true;
    }
    if (op == "v_generator_token") {
      BridgeGenerator* raw = dynamic_cast<BridgeGenerator*>(getg(h.at(0)).get());
      if (raw == nullptr) throw BridgeError("bridge: not a callable generator");
      ret_int(out, raw->token()); return true;
    }
    if (op == "v_generator_call") { ret_content(out, getg(h.at(0)).get()->generate_and_check()); return true; }
    if (op == "v_generator_generate") { ret_content(out, getg(h.at(0)).get()->generate()); return true; }
    if (op == "v_generator_tostring") { ret_str(out, getg(h.at(0)).get()->tostring_part("", "", "")); return true; }
    if (op == "v_generator_with_form") { ret_generator(out, getg(h.at(0)).get()->with_form(getf(h.at(1)))); return true; }
    if (op == "v_generator_with_length") { ret_generator(out, getg(h.at(0)).get()->with_length(ia.at(0))); return true; }
    if (op == "v_generator_shallow_copy") { ret_generator(out, getg(h.at(0)).get()->shallow_copy()); return true; }
    if (op == "v_generator_referentially_equal") { ret_bool(out, getg(h.at(0)).get()->referentially_equal(getg(h.at(1)))); return true; }
    if (op == "v_generator_caches") {
      std::vector<ak::ArrayCachePtr> found;
      getg(h.at(0)).get()->caches(found);
      std::vector<int64_t> hs;
      for (auto c : found) { AkbResult tmp; ret_cache(&tmp, c); hs.push_back(tmp.i); hs.push_back(tmp.h2); }
      ret_str(out, json_ints(hs)); return true;
    }
    if (op == "v_slicegenerator_content") {
      ak::SliceGenerator* raw = dynamic_cast<ak::SliceGenerator*>(getg(h.at(0)).get());
      if (raw == nullptr) throw BridgeError("bridge: not a SliceGenerator");
      ret_content(out, raw->content()); return true;
    }
    if (op == "v_slicegenerator_slice") {
      ak::SliceGenerator* raw = dynamic_cast<ak::SliceGenerator*>(getg(h.at(0)).get());
      if (raw == nullptr) throw BridgeError("bridge: not a SliceGenerator");
      ret_str(out, raw->slice().tostring()); return true;
    }

    // ------------------------------------------------------------------ VirtualArray
    if (op == "v_virtualarray_new") {
      // h: generator, [cache] ; ia: has_cache, has_cache_key ; ss: [cache_key] then parameter key/value pairs
      ak::ArrayCachePtr cache(nullptr);
      if (ia.at(0)) cache = getcache(h.at(1));
      size_t at = ia.at(1) ? 1 : 0;
      ak::util::Parameters p;
      for (size_t i = at; i + 1 < ss.size(); i += 2) p[ss[i]] = ss[i + 1];
      if (ia.at(1)) ret_content(out, std::make_shared<ak::VirtualArray>(ak::Identities::none(), p, getg(h.at(0)), cache, ss.at(0)));
      else ret_content(out, std::make_shared<ak::VirtualArray>(ak::Identities::none(), p, getg(h.at(0)), cache));
      return true;
    }
    if (op == "v_generator") { ret_generator(out, virtualarray(h.at(0))->generator()); return true; }
    if (op == "v_cache") {
      ak::ArrayCachePtr c = virtualarray(h.at(0))->cache();
      if (c.get() == nullptr) out->kind = K_NONE; else ret_cache(out, c);
      return true;
    }
    if (op == "v_cache_key") { ret_str(out, virtualarray(h.at(0))->cache_key()); return true; }
    if (op == "v_peek_array") { ret_content_or_none(out, virtualarray(h.at(0))->peek_array()); return true; }
    if (op == "v_array") { ret_content(out, virtualarray(h.at(0))->array()); return true; }
    if (op == "v_ptr_lib") { ret_int(out, (int64_t)virtualarray(h.at(0))->ptr_lib()); return true; }
    if (op == "v_caches") {   // Content::caches of any node
      std::vector<ak::ArrayCachePtr> found;
      getc(h.at(0)).get()->caches(found);
      std::vector<int64_t> hs;
      for (auto c : found) { AkbResult tmp; ret_cache(&tmp, c); hs.push_back(tmp.i); hs.push_back(tmp.h2); }
      ret_str(out, json_ints(hs)); return true;
    }
    if (op == "v_copy_to_cpu") { ret_content(out, getc(h.at(0)).get()->copy_to(ak::kernel::lib::cpu)); return true; }

    // ------------------------------------------------------------------ IrregularlyPartitionedArray
    if (op == "p_new") {
      // h: partitions ; ia: has_stops, stops...
      ak::ContentPtrVec parts;
      for (auto x : h) parts.push_back(getc(x));
      std::vector<int64_t> stops;
      if (ia.at(0)) { for (size_t i = 1; i < ia.size(); i++) stops.push_back(ia[i]); }
      else { int64_t total = 0; for (auto p : parts) { total += p.get()->length(); stops.push_back(total); } }
      ret_partitioned(out, std::make_shared<ak::IrregularlyPartitionedArray>(parts, stops));
      return true;
    }
    if (op == "p_numpartitions") { ret_int(out, getp(h.at(0)).get()->numpartitions()); return true; }
    if (op == "p_partition") { ret_content(out, getp(h.at(0)).get()->partition(ia.at(0))); return true; }
    if (op == "p_partitions") {
      std::vector<int64_t> hs;
      for (auto x : getp(h.at(0)).get()->partitions()) hs.push_back(put(x));
      ret_handles(out, hs); return true;
    }
    if (op == "p_start") { ret_int(out, getp(h.at(0)).get()->start(ia.at(0))); return true; }
    if (op == "p_stop") { ret_int(out, getp(h.at(0)).get()->stop(ia.at(0))); return true; }
    if (op == "p_stops") { ret_str(out, json_ints(irregular(h.at(0))->stops())); return true; }
    if (op == "p_partitionid_index_at") {
      int64_t partitionid, index;
      getp(h.at(0)).get()->partitionid_index_at(ia.at(0), partitionid, index);
      out->kind = K_INT; out->i = partitionid; out->h2 = index; return true;
    }
    if (op == "p_length") { ret_int(out, getp(h.at(0)).get()->length()); return true; }
    if (op == "p_classname") { ret_str(out, getp(h.at(0)).get()->classname()); return true; }
    if (op == "p_tostring") { ret_str(out, getp(h.at(0)).get()->tostring()); return true; }
    if (op == "p_tojson") { ret_str(out, getp(h.at(0)).get()->tojson(ia.at(0) != 0, ia.at(1))); return true; }
    if (op == "p_tojson_file") {
      FILE* f = std::fopen(ss.at(0).c_str(), "wb");
      if (f == nullptr) throw std::invalid_argument("file \"" + ss.at(0) + "\" could not be opened for writing");
      try { getp(h.at(0)).get()->tojson(f, ia.at(0) != 0, ia.at(1), ia.at(2)); }
      catch (...) { std::fclose(f); throw; }
      std::fclose(f);
      out->kind = K_NONE; return true;
    }
    if (op == "p_getitem_at") { ret_content(out, getp(h.at(0)).get()->getitem_at(ia.at(0))); return true; }
    if (op == "p_getitem_at_nowrap") { ret_content(out, getp(h.at(0)).get()->getitem_at_nowrap(ia.at(0))); return true; }
    if (op == "p_getitem_range") { ret_partitioned(out, getp(h.at(0)).get()->getitem_range(ia.at(0), ia.at(1), ia.at(2))); return true; }
    if (op == "p_getitem_range_nowrap") { ret_partitioned(out, getp(h.at(0)).get()->getitem_range_nowrap(ia.at(0), ia.at(1), ia.at(2))); return true; }
    if (op == "p_repartition") { ret_partitioned(out, getp(h.at(0)).get()->repartition(ia)); return true; }
    if (op == "p_shallow_copy") { ret_partitioned(out, getp(h.at(0)).get()->shallow_copy()); return true; }
    if (op == "p_copy_to_cpu") { ret_partitioned(out, getp(h.at(0)).get()->copy_to(ak::kernel::lib::cpu)); return true; }
    return false;
  }

  akb::Registrar reg(&dispatch_virtual);
}

extern "C" {
  void akb_virtual_set_callbacks(generate_cb_t g, cache_get_cb_t cg, cache_set_cb_t cs, cache_broken_cb_t cb) {
    generate_cb = g; cache_get_cb = cg; cache_set_cb = cs; cache_broken_cb = cb;
  }
}
