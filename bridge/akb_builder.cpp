// bridge translation unit for property C14: ArrayBuilder and LayoutBuilder behind integer handles.
//
//   ab_*  ArrayBuilder  (src/libawkward/builder/*.cpp), with exactly the calls src/python/content.cpp make_ArrayBuilder
//         makes (beginrecord()/beginrecord_check(name), field_check(key)) plus the *_fast variants that the exported
//         C interface / numba use (names compared by pointer: the bridge interns them so that equal text => equal pointer)
//   lb_*  LayoutBuilder (src/libawkward/layoutbuilder/*.cpp), the commands make_LayoutBuilder exposes (+ index)
//
// A builder handle is returned as an integer (K_INT); "ab_release"/"lb_release" drop it.
#include <complex>
#include <map>
#include <memory>
#include <string>
#include <vector>

#include "awkward/builder/ArrayBuilder.h"
#include "awkward/builder/ArrayBuilderOptions.h"
#include "awkward/layoutbuilder/LayoutBuilder.h"
#include "awkward/forth/ForthMachine.h"
#include "awkward/type/Type.h"
#include "awkward/Content.h"

#include "akbridge.h"

namespace ak = awkward;
using namespace akb;

namespace {
  std::map<int64_t, std::shared_ptr<ak::ArrayBuilder>> abuilders;
  std::map<int64_t, std::shared_ptr<ak::LayoutBuilder>> lbuilders;

  ak::ArrayBuilder& getab(int64_t h) {
    auto it = abuilders.find(h);
    if (it == abuilders.end()) throw BridgeError("bridge: bad ArrayBuilder handle");
    return *it->second;
  }

  ak::LayoutBuilder& getlb(int64_t h) {
    auto it = lbuilders.find(h);
    if (it == lbuilders.end()) throw BridgeError("bridge: bad LayoutBuilder handle");
    return *it->second;
  }

  // the *_fast calls compare names by address: one stable address per distinct text, for the life of the process
  const char* intern(const std::string& s) {
    static std::map<std::string, std::unique_ptr<std::string>> table;
    auto it = table.find(s);
    if (it == table.end()) it = table.emplace(s, std::unique_ptr<std::string>(new std::string(s))).first;
    return it->second->c_str();
  }

  bool dispatch_builder(const std::string& op, const std::vector<int64_t>& h, const std::vector<int64_t>& ia,
                        const std::vector<double>& da, const std::vector<std::string>& ss, AkbResult* out) {
    if (op.size() < 3 || op[2] != '_' || op[1] != 'b' || (op[0] != 'a' && op[0] != 'l')) return false;

    // ------------------------------------------------------------------ ArrayBuilder
    if (op == "ab_new") {
      int64_t handle = next_handle++;
      abuilders[handle] = std::make_shared<ak::ArrayBuilder>(ak::ArrayBuilderOptions(ia.at(0), da.at(0)));
      ret_int(out, handle);
      return true;
    }
    if (op == "ab_release") { for (auto x : h) abuilders.erase(x); out->kind = K_NONE; return true; }
    if (op == "ab_live") { ret_int(out, (int64_t)abuilders.size()); return true; }
    if (op[0] == 'a') {
      ak::ArrayBuilder& b = getab(h.at(0));
      out->kind = K_NONE;
      if (op == "ab_ptr") { ret_int(out, (int64_t)reinterpret_cast<intptr_t>(&b)); return true; }
      if (op == "ab_length") { ret_int(out, b.length()); return true; }
      if (op == "ab_clear") { b.clear(); return true; }
      if (op == "ab_typestr") { ret_str(out, b.type(ak::util::TypeStrs()).get()->tostring()); return true; }
      if (op == "ab_type") { ret_type(out, b.type(ak::util::TypeStrs())); return true; }
      if (op == "ab_tostring") { ret_str(out, b.tostring()); return true; }
      if (op == "ab_snapshot") { ret_content(out, b.snapshot()); return true; }
      if (op == "ab_getitem_at") { ret_content(out, b.getitem_at(ia.at(0))); return true; }
      if (op == "ab_getitem_range") { ret_content(out, b.getitem_range(ia.at(0), ia.at(1))); return true; }
      if (op == "ab_getitem_field") { ret_content(out, b.getitem_field(ss.at(0))); return true; }
      if (op == "ab_null") { b.null(); return true; }
      if (op == "ab_boolean") { b.boolean(ia.at(0) != 0); return true; }
      if (op == "ab_integer") { b.integer(ia.at(0)); return true; }
      if (op == "ab_real") { b.real(da.at(0)); return true; }
      if (op == "ab_complex") { b.complex(std::complex<double>(da.at(0), da.at(1))); return true; }
      if (op == "ab_datetime") { b.datetime(ia.at(0), ss.at(0)); return true; }
      if (op == "ab_timedelta") { b.timedelta(ia.at(0), ss.at(0)); return true; }
      if (op == "ab_string") { b.string(ss.at(0)); return true; }            // std::string overload, as pybind calls it
      if (op == "ab_bytestring") { b.bytestring(ss.at(0)); return true; }
      if (op == "ab_beginlist") { b.beginlist(); return true; }
      if (op == "ab_endlist") { b.endlist(); return true; }
      if (op == "ab_begintuple") { b.begintuple(ia.at(0)); return true; }
      if (op == "ab_index") { b.index(ia.at(0)); return true; }
      if (op == "ab_endtuple") { b.endtuple(); return true; }
      if (op == "ab_beginrecord") { b.beginrecord(); return true; }
      if (op == "ab_beginrecord_check") { b.beginrecord_check(ss.at(0)); return true; }
      if (op == "ab_beginrecord_fast") { b.beginrecord_fast(ia.at(0) != 0 ? nullptr : intern(ss.at(0))); return true; }
      if (op == "ab_field_check") { b.field_check(ss.at(0)); return true; }
      if (op == "ab_field_fast") { b.field_fast(intern(ss.at(0))); return true; }
      if (op == "ab_endrecord") { b.endrecord(); return true; }
      if (op == "ab_append") { b.append(getc(h.at(1)), ia.at(0)); return true; }
      if (op == "ab_append_nowrap") { b.append_nowrap(getc(h.at(1)), ia.at(0)); return true; }
      if (op == "ab_extend") { b.extend(getc(h.at(1))); return true; }
      throw BridgeError("bridge: unknown ArrayBuilder op " + op);
    }

    // ------------------------------------------------------------------ LayoutBuilder
    if (op == "lb_new") {
      // ss[0] form JSON (or h[0] a form handle) ; ia[0] initial ; da[0] resize ; ia[1] vm_init
      ak::FormPtr form = h.empty() ? ak::Form::fromjson(ss.at(0)) : getf(h.at(0));
      int64_t handle = next_handle++;
      lbuilders[handle] = std::make_shared<ak::LayoutBuilder>(form, ak::ArrayBuilderOptions(ia.at(0), da.at(0)), ia.at(1) != 0);
      ret_int(out, handle);
      return true;
    }
    if (op == "lb_release") { for (auto x : h) lbuilders.erase(x); out->kind = K_NONE; return true; }
    {
      ak::LayoutBuilder& b = getlb(h.at(0));
      out->kind = K_NONE;
      if (op == "lb_ptr") { ret_int(out, (int64_t)reinterpret_cast<intptr_t>(&b)); return true; }
      if (op == "lb_length") { ret_int(out, b.length()); return true; }
      if (op == "lb_typestr") { ret_str(out, b.type(ak::util::TypeStrs()).get()->tostring()); return true; }
      if (op == "lb_type") { ret_type(out, b.type(ak::util::TypeStrs())); return true; }
      if (op == "lb_tostring") { ret_str(out, b.tostring()); return true; }
      if (op == "lb_snapshot") { ret_content(out, b.snapshot()); return true; }
      if (op == "lb_getitem_at") { ret_content(out, b.getitem_at(ia.at(0))); return true; }
      if (op == "lb_form") { ret_form(out, b.form()); return true; }
      if (op == "lb_form_json") { ret_str(out, b.form().get()->tojson(false, ia.empty() ? false : ia.at(0) != 0)); return true; }
      if (op == "lb_vm_source") { ret_str(out, b.vm_source()); return true; }
      if (op == "lb_null") { b.null(); return true; }
      if (op == "lb_boolean") { b.boolean(ia.at(0) != 0); return true; }
      if (op == "lb_int64") { b.int64(ia.at(0)); return true; }
      if (op == "lb_float64") { b.float64(da.at(0)); return true; }
      if (op == "lb_complex") { b.complex(std::complex<double>(da.at(0), da.at(1))); return true; }
      if (op == "lb_bytestring") { b.bytestring(ss.at(0)); return true; }
      if (op == "lb_string") { b.string(ss.at(0)); return true; }
      if (op == "lb_begin_list") { b.begin_list(); return true; }
      if (op == "lb_end_list") { b.end_list(); return true; }
      if (op == "lb_index") { b.index(ia.at(0)); return true; }
      if (op == "lb_tag") { b.tag((int8_t)ia.at(0)); return true; }
      if (op == "lb_connect_new_vm") { b.connect(std::make_shared<ak::ForthMachine32>(b.vm_source())); return true; }
      throw BridgeError("bridge: unknown LayoutBuilder op " + op);
    }
  }

  static akb::Registrar reg(&dispatch_builder);
}
