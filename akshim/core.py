"""ctypes access to libakbridge.so: the generic call, handle lifetime, foreign-memory views."""
import ctypes
import json
import os
import threading

import numpy as np

from vlib.common import build_dir

c_i64 = ctypes.c_int64


class AkbResult(ctypes.Structure):
    _fields_ = [("kind", c_i64), ("h", c_i64), ("h2", c_i64), ("i", c_i64), ("d", ctypes.c_double),
                ("s", ctypes.c_void_p), ("slen", c_i64)]


K_NONE, K_CONTENT, K_INDEX, K_INT, K_BOOL, K_DOUBLE, K_STR, K_PAIR, K_FORM, K_TYPE = range(10)

FLAVOUR = os.environ.get("VERIF_FLAVOUR", "plain")
_dir = build_dir(FLAVOUR)
# libawkward.so is found through libakbridge's rpath ($ORIGIN)
lib = ctypes.CDLL(os.path.join(_dir, "libakbridge.so"), mode=ctypes.RTLD_GLOBAL)
libawkward = ctypes.CDLL(os.path.join(_dir, "libawkward.so"), mode=ctypes.RTLD_GLOBAL)

lib.akb_last_error.restype = ctypes.c_char_p
lib.akb_call.restype = ctypes.c_int
lib.akb_call.argtypes = [ctypes.c_char_p, ctypes.POINTER(c_i64), c_i64, ctypes.POINTER(c_i64), c_i64,
                         ctypes.POINTER(ctypes.c_double), c_i64, ctypes.c_char_p, ctypes.POINTER(c_i64), c_i64,
                         ctypes.POINTER(AkbResult)]
lib.akb_index_new.restype = c_i64
lib.akb_index_new.argtypes = [ctypes.c_int, ctypes.c_void_p, c_i64, c_i64]
lib.akb_index_info.argtypes = [c_i64, ctypes.POINTER(ctypes.c_int), ctypes.POINTER(ctypes.c_void_p), ctypes.POINTER(c_i64)]
lib.akb_numpy_new.restype = c_i64
lib.akb_numpy_new.argtypes = [ctypes.c_void_p, c_i64, ctypes.c_int, ctypes.POINTER(c_i64), ctypes.POINTER(c_i64), c_i64, c_i64,
                              ctypes.c_char_p, ctypes.c_int, c_i64]
lib.akb_numpy_info.argtypes = [c_i64, ctypes.POINTER(ctypes.c_void_p), ctypes.POINTER(ctypes.c_int), ctypes.POINTER(c_i64),
                               ctypes.POINTER(c_i64), ctypes.POINTER(c_i64), ctypes.c_char_p, ctypes.POINTER(ctypes.c_int),
                               ctypes.POINTER(c_i64)]
lib.akb_drain_released.restype = c_i64
lib.akb_drain_released.argtypes = [ctypes.POINTER(c_i64), c_i64]
lib.akb_slice_new.restype = c_i64
lib.akb_slice_append.argtypes = [c_i64, ctypes.c_int, c_i64, c_i64, c_i64, c_i64, c_i64, ctypes.POINTER(c_i64), ctypes.c_char_p,
                                 ctypes.POINTER(c_i64)]
lib.akb_slice_tostring.argtypes = [c_i64, ctypes.POINTER(ctypes.c_void_p), ctypes.POINTER(c_i64)]


class BridgeMisuse(Exception):
    """status 4: the harness called the bridge wrongly - never a property violation"""


class OtherNativeError(Exception):
    """status 3: a C++ exception that is neither invalid_argument nor runtime_error (e.g. bad_alloc)"""


STATUS_HOOKS = []   # fn(status, message), called first; may raise instead (akshim.virtual re-raises an exception parked by a Python callback)


def raise_status(status):
    msg = lib.akb_last_error().decode("utf-8", "surrogateescape")
    for hook in STATUS_HOOKS:
        hook(status, msg)
    if status == 1:
        raise ValueError(msg)
    if status == 2:
        raise RuntimeError(msg)
    if status == 3:
        raise OtherNativeError(msg)
    raise BridgeMisuse(msg)


_KEEP = {}
_next_token = [1]
_drainbuf = (c_i64 * 256)()
_lock = threading.RLock()


def keep(obj):
    """register a Python buffer owner; returns the token the bridge reports when C++ drops its last reference"""
    with _lock:
        t = _next_token[0]
        _next_token[0] += 1
        _KEEP[t] = obj
        return t


def drain():
    while True:
        n = lib.akb_drain_released(_drainbuf, 256)
        for i in range(n):
            _KEEP.pop(_drainbuf[i], None)
        if n < 256:
            break


_empty_i = (c_i64 * 1)()
_empty_d = (ctypes.c_double * 1)()


def call(op, hs=(), ia=(), da=(), ss=()):
    """generic bridge call; returns the raw AkbResult"""
    nh, ni, nd, ns = len(hs), len(ia), len(da), len(ss)
    harr = (c_i64 * max(nh, 1))(*hs)
    iarr = (c_i64 * max(ni, 1))(*[int(x) for x in ia])
    darr = (ctypes.c_double * max(nd, 1))(*da)
    enc = [s.encode("utf-8", "surrogateescape") if isinstance(s, str) else bytes(s) for s in ss]
    sbuf = b"".join(enc)
    slens = (c_i64 * max(ns, 1))(*[len(e) for e in enc])
    res = AkbResult()
    status = lib.akb_call(op.encode(), harr, nh, iarr, ni, darr, nd, sbuf, slens, ns, ctypes.byref(res))
    if status != 0:
        raise_status(status)
    if len(_KEEP) > 64:
        drain()
    return res


def result_str(res):
    if res.kind == K_NONE:
        return None
    return ctypes.string_at(res.s, res.slen).decode("utf-8", "surrogateescape")


def release(h):
    try:
        harr = (c_i64 * 1)(h)
        res = AkbResult()
        lib.akb_call(b"release", harr, 1, _empty_i, 0, _empty_d, 0, b"", _empty_i, 0, ctypes.byref(res))
    except Exception:
        pass


class Holder(object):
    """exposes foreign memory through __array_interface__ and keeps its owner (a handle wrapper) alive;
    numpy uses this object as .base of every view derived from it"""

    def __init__(self, ptr, shape, dt, strides, owner, readonly=False):
        self.owner = owner
        self.__array_interface__ = {"data": (ptr, readonly), "shape": tuple(shape), "typestr": dt.str,
                                    "strides": tuple(strides) if strides is not None else None, "version": 3}


def live_handles():
    return call("live_handles").i
