"""JSON input of `awkward._ext` (src/python/io.cpp) and `ArrayBuilder.fromiter` (src/python/content.cpp), re-stated on the bridge.

fromjson / fromjsonfile carry the argument names and defaults of make_fromjson / make_fromjsonfile:
    (source, nan_string=None, infinity_string=None, minus_infinity_string=None, initial=1024, resize=1.5, buffersize=65536)
and return box(out): None, a Python scalar, a Record or a Content.

JsonBuilder is the part of ak.layout.ArrayBuilder that `builder_fromiter` needs, driven through the jb_* ops of
bridge/akb_json.cpp; `fromiter(obj)` follows builder_fromiter branch by branch for the Python types json.loads can
produce (None, bool, int, float, str, list, dict) plus bytes and tuple.
"""
import numbers

from akshim import core
from akshim.core import call
from akshim import layout as L

INT64_MIN, INT64_MAX = -2 ** 63, 2 ** 63 - 1


def _opts(nan_string, infinity_string, minus_infinity_string):
    strs = [nan_string, infinity_string, minus_infinity_string]
    for s in strs:
        if s is not None and not isinstance(s, (str, bytes)):
            raise TypeError("fromjson(): incompatible function arguments")
        if s is not None and "\x00" in (s if isinstance(s, str) else s.decode("latin-1")):
            raise ValueError("embedded null character")     # pybind11's const char* caster hands over a C string
    return [int(s is not None) for s in strs], [s if s is not None else "" for s in strs]


def fromjson(source, nan_string=None, infinity_string=None, minus_infinity_string=None, initial=1024, resize=1.5, buffersize=65536):
    flags, strs = _opts(nan_string, infinity_string, minus_infinity_string)
    res = call("fromjson_string", [], flags + [int(initial)], [float(resize)], [source] + strs)
    return L.box(res.h)


def fromjsonfile(source, nan_string=None, infinity_string=None, minus_infinity_string=None, initial=1024, resize=1.5, buffersize=65536):
    flags, strs = _opts(nan_string, infinity_string, minus_infinity_string)
    res = call("fromjson_file", [], flags + [int(initial), int(buffersize)], [float(resize)], [source] + strs)
    return L.box(res.h)


class JsonBuilder(object):
    """ak.layout.ArrayBuilder(initial=1024, resize=1.5), the methods builder_fromiter uses"""

    def __init__(self, initial=1024, resize=1.5):
        self._b = call("jb_new", [], [int(initial)], [float(resize)]).i

    def __del__(self):
        try:
            call("jb_free", [self._b])
        except Exception:   # noqa: B902  (interpreter shutdown)
            pass

    def __len__(self):
        return call("jb_length", [self._b]).i

    def null(self):
        call("jb_null", [self._b])

    def boolean(self, x):
        call("jb_boolean", [self._b], [1 if x else 0])

    def integer(self, x):
        if not (INT64_MIN <= x <= INT64_MAX):
            # obj.cast<int64_t>() fails for a Python int outside int64: pybind11 raises cast_error (a RuntimeError)
            raise RuntimeError("Unable to cast Python instance of type <class 'int'> to C++ type 'int64_t'")
        call("jb_integer", [self._b], [int(x)])

    def real(self, x):
        call("jb_real", [self._b], [], [float(x)])

    def string(self, x):
        call("jb_string", [self._b], ss=[x])

    def bytestring(self, x):
        call("jb_bytestring", [self._b], ss=[x])

    def beginlist(self):
        call("jb_beginlist", [self._b])

    def endlist(self):
        call("jb_endlist", [self._b])

    def begintuple(self, numfields):
        call("jb_begintuple", [self._b], [int(numfields)])

    def index(self, i):
        call("jb_index", [self._b], [int(i)])

    def endtuple(self):
        call("jb_endtuple", [self._b])

    def beginrecord(self):
        call("jb_beginrecord", [self._b])

    def field(self, key):
        call("jb_field", [self._b], ss=[key])

    def endrecord(self):
        call("jb_endrecord", [self._b])

    def snapshot(self):
        return L.box(call("jb_snapshot", [self._b]).h)

    def fromiter(self, obj):
        """builder_fromiter(self, obj) of src/python/content.cpp, in its order of tests"""
        if obj is None:
            self.null()
        elif isinstance(obj, bool):
            self.boolean(obj)
        elif isinstance(obj, numbers.Integral) and type(obj) is int:
            self.integer(obj)
        elif isinstance(obj, float):
            self.real(obj)
        elif isinstance(obj, bytes):
            self.bytestring(obj)
        elif isinstance(obj, str):
            self.string(obj)
        elif isinstance(obj, tuple):
            self.begintuple(len(obj))
            for i, x in enumerate(obj):
                self.index(i)
                self.fromiter(x)
            self.endtuple()
        elif isinstance(obj, dict):
            self.beginrecord()
            for key, value in obj.items():       # insertion order, as PyDict_Next
                if not isinstance(key, str):
                    raise ValueError("keys of dicts in 'fromiter' must all be strings")
                self.field(key)
                self.fromiter(value)
            self.endrecord()
        elif hasattr(obj, "__iter__"):
            self.beginlist()
            for x in obj:
                self.fromiter(x)
            self.endlist()
        else:
            raise ValueError("cannot convert %r (type %s) to an array element" % (obj, type(obj).__name__))


def fromiter(iterable, initial=1024, resize=1.5):
    """layout-level ak.from_iter (src/awkward/operations/convert.py): one fromiter() per element, then snapshot"""
    if isinstance(iterable, dict):
        return fromiter([iterable], initial, resize)[0]
    out = JsonBuilder(initial, resize)
    for x in iterable:
        out.fromiter(x)
    return out.snapshot()


def fromdocuments(docs, initial=1024, resize=1.5):
    """what do_parse (src/libawkward/io/json.cpp) does with the documents of a stream, with the Python driver in the
    place of the SAX handler: every document is one fromiter(), and exactly one document is unwrapped"""
    out = JsonBuilder(initial, resize)
    for x in docs:
        out.fromiter(x)
    snap = out.snapshot()
    if len(docs) == 1:
        return snap.getitem_at_nowrap(0)
    return snap
