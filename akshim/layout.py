"""Python classes with pybind's names, argument names/defaults and return conventions
(read off /repo/src/python/{content,index}.cpp), forwarding to the C++ classes through the bridge.

This is a *model of the binding*: it is part of the harness' trusted base, never evidence about src/python/*.cpp.
"""
import ctypes
import json
import numbers

import numpy as np

from akshim import core
from akshim.core import call, result_str, c_i64, lib

INDEX_DTYPES = [np.dtype(np.int8), np.dtype(np.uint8), np.dtype(np.int32), np.dtype(np.uint32), np.dtype(np.int64)]
# awkward::util::dtype enum order (include/awkward/util.h)
DTYPE_ENUM = ["NOT_PRIMITIVE", "bool", "int8", "int16", "int32", "int64", "uint8", "uint16", "uint32", "uint64",
              "float16", "float32", "float64", "float128", "complex64", "complex128", "complex256", "datetime64", "timedelta64"]
NONE_SENTINEL = 9223372036854775807  # Slice::none()
HIGHLEVEL = None


def _format_of(dt):
    """the struct-module format pybind11's buffer_info reports for a numpy dtype"""
    k, sz = dt.kind, dt.itemsize
    if k == "b":
        return "?", "bool"
    if k == "i":
        return {1: "b", 2: "h", 4: "i", 8: "l"}[sz], "int%d" % (sz * 8)
    if k == "u":
        return {1: "B", 2: "H", 4: "I", 8: "L"}[sz], "uint%d" % (sz * 8)
    if k == "f":
        return {2: "e", 4: "f", 8: "d", 16: "g"}[sz], "float%d" % (sz * 8)
    if k == "c":
        return {8: "Zf", 16: "Zd", 32: "Zg"}[sz], "complex%d" % (sz * 8)
    if k == "M":
        return "M8" + dt.str[3:], "datetime64"
    if k == "m":
        return "m8" + dt.str[3:], "timedelta64"
    raise ValueError("unsupported dtype for NumpyArray: %r" % (dt,))


# --------------------------------------------------------------------------- Index
class _Index(object):
    _kind = None
    ptr_lib = "cpu"

    def __init__(self, array=None, _h=None):
        if _h is not None:
            self._h = _h
            return
        arr = np.asarray(array)
        arr = np.ascontiguousarray(arr, dtype=INDEX_DTYPES[self._kind]) if arr.dtype != INDEX_DTYPES[self._kind] or not arr.flags.c_contiguous else arr
        if arr.ndim != 1:
            raise ValueError("%s must be built from a one-dimensional array; try array.ravel()" % type(self).__name__)
        token = core.keep(arr)
        h = lib.akb_index_new(self._kind, arr.ctypes.data, len(arr), token)
        if h == -1:
            core.raise_status(4)
        self._h = h

    def __del__(self):
        h = getattr(self, "_h", None)     # absent when the constructor raised; core is None at interpreter shutdown
        if h is not None and core is not None:
            core.release(h)

    def _info(self):
        kind = ctypes.c_int()
        ptr = ctypes.c_void_p()
        n = c_i64()
        st = lib.akb_index_info(self._h, kind, ptr, n)
        if st != 0:
            core.raise_status(st)
        return kind.value, ptr.value, n.value

    def _view(self):
        kind, ptr, n = self._info()
        dt = INDEX_DTYPES[kind]
        if n == 0 or not ptr:
            return np.empty(0, dt)
        return np.asarray(core.Holder(ptr, (n,), dt, None, self))

    def __array__(self, dtype=None, copy=None):
        out = self._view()
        if dtype is not None and np.dtype(dtype) != out.dtype:
            return out.astype(dtype)
        # the binding exposes the buffer protocol, so numpy.array(x, copy=True) copies: honour numpy 2's copy keyword
        return out.copy() if copy else out

    def __buffer__(self, flags):
        # PEP 688: the binding's classes implement the buffer protocol (pyarrow.py_buffer(index) relies on it)
        return memoryview(self._view())

    def __len__(self):
        return self._info()[2]

    def __getitem__(self, where):
        if isinstance(where, (int, np.integer)):
            n = len(self)
            i = int(where)
            if i < 0:
                i += n
            if not 0 <= i < n:
                raise ValueError("Index[i] out of range")   # IndexOf<T>::getitem_at throws invalid_argument via regularize
            return self._view()[i].item()
        if isinstance(where, slice):
            if where.step not in (None, 1):
                raise ValueError("Index slices cannot contain step != 1")
            n = len(self)
            start, stop, _ = slice(where.start, where.stop).indices(n)
            if stop < start:
                stop = start
            res = call("index_getitem_range", [self._h], [start, stop])
            return _wrap_index(res.h)
        raise ValueError("Index can only be sliced by an integer or start:stop slice")

    def __repr__(self):
        return result_str(call("index_tostring", [self._h]))

    def copy_to(self, ptr_lib):
        if ptr_lib != "cpu":
            raise ValueError("specify 'cpu' or 'cuda'")
        return type(self)(np.array(self._view(), copy=True))


def _mkindex(name, kind):
    return type(name, (_Index,), {"_kind": kind, "__module__": "awkward._ext"})


Index8 = _mkindex("Index8", 0)
IndexU8 = _mkindex("IndexU8", 1)
Index32 = _mkindex("Index32", 2)
IndexU32 = _mkindex("IndexU32", 3)
Index64 = _mkindex("Index64", 4)
_INDEX_BY_KIND = [Index8, IndexU8, Index32, IndexU32, Index64]


def _wrap_index(h):
    kind = ctypes.c_int()
    ptr = ctypes.c_void_p()
    n = c_i64()
    st = lib.akb_index_info(h, kind, ptr, n)
    if st != 0:
        core.raise_status(st)
    return _INDEX_BY_KIND[kind.value](_h=h)


def _as_index(x, cls):
    if isinstance(x, cls):
        return x
    if isinstance(x, _Index):
        raise TypeError("incompatible Index type: expected %s, got %s" % (cls.__name__, type(x).__name__))
    raise TypeError("expected %s" % cls.__name__)


# --------------------------------------------------------------------------- Slice
def _slice_append(sh, kind, a=0, b=0, c=0, flags=0, other=0, extra=None, strs=None):
    ex = (c_i64 * max(1, len(extra or ())))(*(extra or ()))
    enc = [s.encode("utf-8", "surrogateescape") for s in (strs or ())]
    sl = (c_i64 * max(1, len(enc)))(*[len(e) for e in enc])
    st = lib.akb_slice_append(sh, kind, a, b, c, flags, other, ex, b"".join(enc), sl)
    if st != 0:
        core.raise_status(st)


def _int64_or_overflow(x):
    x = int(x)
    if not -2 ** 63 <= x < 2 ** 63:
        raise TypeError("integer does not fit in int64")
    return x


def _handle_as_numpy(content):
    """re-statement of handle_as_numpy() in src/python/content.cpp"""
    if isinstance(content, (NumpyArray, EmptyArray)):
        return True
    if isinstance(content, RegularArray):
        return _handle_as_numpy(content.content)
    if isinstance(content, (IndexedArray32, IndexedArrayU32, IndexedArray64)):
        return _handle_as_numpy(content.content)
    if isinstance(content, (UnionArray8_32, UnionArray8_U32, UnionArray8_64)):
        contents = content.contents
        first = contents[0]
        for other in contents[1:]:
            if not first.mergeable(other, False):
                return False
        return _handle_as_numpy(first)
    return False


class _SliceBuilder(object):
    """re-statement of toslice()/toslice_part() in src/python/content.cpp"""

    def __init__(self):
        self.h = lib.akb_slice_new()
        self.keep = []

    def __del__(self):
        h = getattr(self, "h", None)
        if h is not None and core is not None:
            core.release(h)

    def append_array(self, array, frombool):
        intarray = np.ascontiguousarray(np.asarray(array, dtype=np.int64))
        if intarray.ndim == 0:
            raise ValueError("arrays used as an index must have at least one dimension")
        shape = list(intarray.shape)
        strides = [s // 8 for s in intarray.strides]
        flat = intarray.reshape(-1) if intarray.size else np.zeros(0, np.int64)
        # the binding builds Index64(ptr, 0, shape[0]) over the same memory; the kernels address it with shape/strides
        idx = Index64(flat)
        self.keep.append(idx)
        _slice_append(self.h, 4, a=len(shape), b=int(frombool), other=idx._h, extra=shape + strides)

    def part(self, obj):
        ak_highlevel = HIGHLEVEL   # the real /repo/src/awkward once akshim.install() ran (tier P); None at tier L
        if hasattr(obj, "__index__") and not isinstance(obj, (bool, np.bool_)) or isinstance(obj, (bool, np.bool_)) and False:
            try:
                idx = obj.__index__()
                _slice_append(self.h, 0, a=_int64_or_overflow(idx))
                return
            except (TypeError, AttributeError):
                pass
        if isinstance(obj, (bool, np.bool_)):
            # bool has __index__: SliceAt(0/1), as in the binding
            _slice_append(self.h, 0, a=int(obj))
            return
        if isinstance(obj, numbers.Integral):
            _slice_append(self.h, 0, a=_int64_or_overflow(obj))
        elif isinstance(obj, slice):
            start = NONE_SENTINEL if obj.start is None else _int64_or_overflow(obj.start)
            stop = NONE_SENTINEL if obj.stop is None else _int64_or_overflow(obj.stop)
            step = 1 if obj.step is None else _int64_or_overflow(obj.step)
            if step == 0:
                raise ValueError("slice step must not be 0")
            flags = (1 if obj.start is None else 0) | (2 if obj.stop is None else 0)
            _slice_append(self.h, 1, a=start, b=stop, c=step, flags=flags)
        elif obj is Ellipsis:
            _slice_append(self.h, 2)
        elif obj is None:
            _slice_append(self.h, 3)
        elif isinstance(obj, str):
            _slice_append(self.h, 6, strs=[obj])
        elif hasattr(obj, "__iter__"):
            strings = []
            all_strings = True
            for x in obj:
                if isinstance(x, str):
                    strings.append(x)
                else:
                    all_strings = False
                    break
            if all_strings and strings:
                _slice_append(self.h, 7, a=len(strings), strs=strings)
                return
            content = None
            if isinstance(obj, np.ma.MaskedArray):
                content = ak_highlevel.from_numpy(obj, False, False, False)
            elif isinstance(obj, np.ndarray):
                pass
            elif isinstance(obj, Content):
                content = obj
                if isinstance(content, VirtualArray):
                    content = content.array
            elif isinstance(obj, ArrayBuilder):
                content = obj.snapshot()
            elif ak_highlevel is None:
                # tier L: no high-level package; plain nested lists become an int/bool array or are refused
                obj = np.asarray(obj)
                if obj.dtype.kind not in "biu" and obj.size != 0:
                    raise core.BridgeMisuse("tier-L slices must be passed as numpy arrays or layouts")
            elif isinstance(obj, ak_highlevel.Array):
                tmp = obj.layout
                if isinstance(tmp, ak_highlevel.partition.PartitionedArray):
                    content = tmp.toContent()
                    obj = content
                else:
                    content = tmp
            elif isinstance(obj, ak_highlevel.ArrayBuilder):
                content = obj.snapshot().layout
            elif isinstance(obj, ak_highlevel.partition.PartitionedArray):
                content = obj.toContent()
                obj = content
            else:
                obj = ak_highlevel.from_iter(obj, False)
                bad = False
                asarray = None
                try:
                    asarray = ak_highlevel.to_numpy(obj, False)
                except Exception:
                    bad = True
                if not bad:
                    asarray = np.asarray(asarray)
                    if asarray.dtype.kind not in "biufcMm":
                        bad = True
                if bad:
                    content = obj
                else:
                    obj = asarray
            if content is not None and not _handle_as_numpy(content):
                arr = content.parameter("__array__")
                if arr == "string" or arr == "bytestring":
                    strings = [x if isinstance(x, str) else x.decode("utf-8", "surrogateescape") for x in ak_highlevel.to_list(content)]
                    _slice_append(self.h, 7, a=len(strings), strs=strings)
                else:
                    self.keep.append(content)
                    _slice_append(self.h, 5, other=content._h)
            else:
                array = np.asarray(content) if content is not None and obj is content else np.asarray(obj)
                if array.ndim == 0:
                    raise ValueError("arrays used as an index must have at least one dimension")
                if array.dtype == np.bool_:
                    for x in np.nonzero(array):
                        self.append_array(x, True)
                else:
                    if array.dtype.kind not in "iu" and array.size != 0:
                        raise ValueError("arrays used as an index must be a (native-endian) integer or boolean")
                    self.append_array(array, False)
        else:
            raise ValueError("only integers, slices (`:`), ellipsis (`...`), numpy.newaxis (`None`), "
                             "and integer or boolean arrays (possibly jagged) are valid indices")


def toslice(obj):
    sb = _SliceBuilder()
    if isinstance(obj, tuple):
        for x in obj:
            sb.part(x)
    else:
        sb.part(obj)
    return sb


def _slice_tostring(obj):
    sb = toslice(obj)
    s = ctypes.c_void_p()
    n = c_i64()
    st = lib.akb_slice_tostring(sb.h, s, n)
    if st != 0:
        core.raise_status(st)
    return ctypes.string_at(s.value, n.value).decode("utf-8", "surrogateescape")


# --------------------------------------------------------------------------- Content
def _params_to_ss(parameters):
    ss = []
    for k, v in (parameters or {}).items():
        ss.append(k)
        ss.append(json.dumps(v))
    return ss


_CLASSES = {}


def _register(cls):
    _CLASSES[cls.__name__] = cls
    cls.__module__ = "awkward._ext"
    return cls


def box(h):
    """box() of src/python/content.cpp: None -> None, scalar NumpyArray -> Python scalar, else the wrapper"""
    name = result_str(call("classname", [h]))
    if name == "None":
        core.release(h)
        return None
    if name == "NumpyArray" and call("isscalar", [h]).i:
        tmp = NumpyArray(_h=h)
        arr = np.asarray(tmp)
        # pybind's box(): bool/int*/uint*/float32/float64 -> py::cast of the C++ number (Python bool/int/float),
        # datetime64/timedelta64 -> numpy scalar with the format's unit, everything else -> ndarray.item()
        if arr.dtype.kind in "Mm":
            return arr[()]
        return arr[()].item()
    cls = _CLASSES.get(name)
    if cls is None:
        raise core.BridgeMisuse("no Python class for " + name)
    obj = cls.__new__(cls)
    obj._h = h
    return obj


def _box_scalarlike(x):
    """numpy scalar -> python scalar as pybind's py::cast of a C++ number does"""
    if isinstance(x, np.generic):
        if isinstance(x, (np.datetime64, np.timedelta64)):
            return x
        return x.item()
    return x


def _unbox(x):
    if isinstance(x, Content):
        return x
    raise TypeError("incompatible function arguments: content argument must be a Content subtype")


class Iterator(object):
    def __init__(self, content):
        self.content = content
        self.at = 0

    def __iter__(self):
        return self

    def __next__(self):
        if self.at >= len(self.content):
            raise StopIteration
        out = self.content.getitem_at_nowrap(self.at)
        self.at += 1
        return out

    next = __next__


class _PersistentSharedPtr(object):
    def __init__(self, layout):
        self._layout = layout
        self._ptr = call("persistent_ptr", [layout._h]).i

    def layout(self):
        return self._layout

    def ptr(self):
        return self._ptr


class Content(object):
    ptr_lib = "cpu"

    def __init__(self, *args, **kwargs):
        raise TypeError("Content is abstract")

    def __del__(self):
        h = getattr(self, "_h", None)     # absent when the constructor raised; core is None at interpreter shutdown
        if h is not None and core is not None:
            core.release(h)

    def _finish(self, res, identities, parameters):
        if identities is not None:
            raise NotImplementedError("identities are not supported by the /verif emulation")
        self._h = res.h
        if parameters:
            call("setparameters", [self._h], ss=_params_to_ss(parameters))

    # ---- basics
    def __len__(self):
        return call("length", [self._h]).i

    def __repr__(self):
        return result_str(call("tostring", [self._h]))

    def __iter__(self):
        return Iterator(self)

    def __getitem__(self, where):
        if isinstance(where, numbers.Integral) and not isinstance(where, (bool, np.bool_)) or type(where) is bool:
            return box(call("getitem_at", [self._h], [_int64_or_overflow(where)]).h)
        if isinstance(where, slice):
            if where.step is None or (isinstance(where.step, numbers.Integral) and where.step == 1):
                start = NONE_SENTINEL if where.start is None else _int64_or_overflow(where.start)
                stop = NONE_SENTINEL if where.stop is None else _int64_or_overflow(where.stop)
                return box(call("getitem_range", [self._h], [start, stop]).h)
        if isinstance(where, str):
            return box(call("getitem_field", [self._h], ss=[where]).h)
        if not isinstance(where, tuple) and hasattr(where, "__iter__") and not isinstance(where, (np.ndarray, Content)):
            strings = []
            all_strings = True
            for x in where:
                if isinstance(x, str):
                    strings.append(x)
                else:
                    all_strings = False
                    break
            if all_strings and strings:
                return box(call("getitem_fields", [self._h], ss=strings).h)
        sb = toslice(where)
        return box(call("getitem", [self._h, sb.h]).h)

    @property
    def identities(self):
        return None

    @property
    def identity(self):
        raise ValueError("no identities")

    def setidentities(self, *args):
        raise NotImplementedError("identities are not supported by the /verif emulation")

    @property
    def parameters(self):
        return json.loads(result_str(call("parameters", [self._h])))

    @parameters.setter
    def parameters(self, value):
        call("setparameters", [self._h], ss=_params_to_ss(value))

    def setparameter(self, key, value):
        call("setparameter", [self._h], ss=[key, json.dumps(value)])

    def withparameter(self, key, value):
        out = box(call("shallow_copy", [self._h]).h)
        out.setparameter(key, value)
        return out

    def parameter(self, key):
        return json.loads(result_str(call("parameter", [self._h], ss=[key])))

    def purelist_parameter(self, key):
        return json.loads(result_str(call("purelist_parameter", [self._h], ss=[key])))

    def type(self, typestrs=None):
        from akshim import typesforms
        ss = []
        for k, v in dict(typestrs or {}).items():
            ss += [k, v]
        return typesforms.wrap_type(call("c_type", [self._h], ss=ss).h)

    @property
    def form(self):
        from akshim import typesforms
        return typesforms.wrap_form(call("form", [self._h], [0]).h)

    @property
    def kernels(self):
        return {0: "cpu", 1: "cuda"}.get(call("kernels", [self._h]).i, "mixed")

    @property
    def caches(self):
        try:
            from akshim import virtual
        except ImportError:     # no VirtualArray support loaded: no node can be virtual
            return []
        return virtual.caches_of(self)

    def tojson(self, *args, **kwargs):
        names_s = ["pretty", "maxdecimals", "nan_string", "infinity_string", "minus_infinity_string", "complex_real_string", "complex_imag_string"]
        names_f = ["destination", "pretty", "maxdecimals", "buffersize", "nan_string", "infinity_string", "minus_infinity_string",
                   "complex_real_string", "complex_imag_string"]
        tofile = ("destination" in kwargs) or (len(args) > 0 and isinstance(args[0], str))
        names = names_f if tofile else names_s
        vals = {"pretty": False, "maxdecimals": None, "buffersize": 65536, "nan_string": None, "infinity_string": None,
                "minus_infinity_string": None, "complex_real_string": None, "complex_imag_string": None}
        for n, a in zip(names, args):
            vals[n] = a
        for k, v in kwargs.items():
            if k not in names:
                raise TypeError("tojson(): incompatible function arguments")
            vals[k] = v
        md = vals["maxdecimals"]
        if md is None:
            md = -1
        else:
            md = int(md)   # check_maxdecimals
            if md < 0:
                raise ValueError("maxdecimals must be None or a non-negative integer")
        strs = [vals[k] for k in ("nan_string", "infinity_string", "minus_infinity_string", "complex_real_string", "complex_imag_string")]
        ia = [int(bool(vals["pretty"])), md] + [int(s is not None) for s in strs]
        ss = [s if s is not None else "" for s in strs]
        if tofile:
            call("tojson_file", [self._h], ia + [int(vals["buffersize"])], ss=ss + [vals["destination"]])
            return None
        return result_str(call("tojson", [self._h], ia, ss=ss))

    @property
    def nbytes(self):
        return call("nbytes", [self._h]).i

    def deep_copy(self, copyarrays=True, copyindexes=True, copyidentities=True):
        return box(call("deep_copy", [self._h], [copyarrays, copyindexes, copyidentities]).h)

    @property
    def numfields(self):
        return call("numfields", [self._h]).i

    def fieldindex(self, key):
        return call("fieldindex", [self._h], ss=[key]).i

    def key(self, fieldindex):
        return result_str(call("key", [self._h], [fieldindex]))

    def haskey(self, key):
        return bool(call("haskey", [self._h], ss=[key]).i)

    def keys(self):
        return json.loads(result_str(call("keys", [self._h])))

    @property
    def purelist_isregular(self):
        return bool(call("purelist_isregular", [self._h]).i)

    @property
    def purelist_depth(self):
        return call("purelist_depth", [self._h]).i

    @property
    def branch_depth(self):
        r = call("branch_depth", [self._h])
        return (bool(r.i), r.h2)

    @property
    def minmax_depth(self):
        r = call("minmax_depth", [self._h])
        return (r.i, r.h2)

    def getitem_nothing(self):
        return box(call("getitem_nothing", [self._h]).h)

    def getitem_at_nowrap(self, at):
        return box(call("getitem_at_nowrap", [self._h], [at]).h)

    def getitem_range_nowrap(self, start, stop):
        return box(call("getitem_range_nowrap", [self._h], [start, stop]).h)

    @property
    def _persistent_shared_ptr(self):
        return _PersistentSharedPtr(self)

    # ---- operations
    def validityerror(self):
        out = result_str(call("validityerror", [self._h]))
        return None if out == "" else out

    def fillna(self, value):
        return box(call("fillna", [self._h, _unbox(value)._h]).h)

    def num(self, axis=1):
        return box(call("num", [self._h], [axis]).h)

    def flatten(self, axis=1):
        return box(call("flatten", [self._h], [axis]).h)

    def offsets_and_flatten(self, axis=1):
        r = call("offsets_and_flatten", [self._h], [axis])
        return (_wrap_index(r.h), box(r.h2))

    def rpad(self, length, axis):
        return box(call("rpad", [self._h], [length, axis]).h)

    def rpad_and_clip(self, length, axis):
        return box(call("rpad_and_clip", [self._h], [length, axis]).h)

    def mergeable(self, other, mergebool=False):
        return bool(call("mergeable", [self._h, _unbox(other)._h], [mergebool]).i)

    def merge(self, other):
        return box(call("merge", [self._h, _unbox(other)._h]).h)

    def merge_as_union(self, other):
        return box(call("merge_as_union", [self._h, _unbox(other)._h]).h)

    def mergemany(self, others):
        others = [_unbox(x) for x in others]
        return box(call("mergemany", [self._h] + [x._h for x in others]).h)

    def axis_wrap_if_negative(self, axis):
        return call("axis_wrap_if_negative", [self._h], [axis]).i

    def _reduce(self, name, axis, mask, keepdims, initial=None):
        if initial is None:
            ia = [axis, mask, keepdims, 0, 0]
            da = [0.0]
        else:
            f = float(initial)
            i64 = int(initial)
            ia = [axis, mask, keepdims, 1, i64]
            da = [f]
        return box(call("reduce", [self._h], ia, da, [name]).h)

    def count(self, axis=-1, mask=False, keepdims=False):
        return self._reduce("count", axis, mask, keepdims)

    def count_nonzero(self, axis=-1, mask=False, keepdims=False):
        return self._reduce("count_nonzero", axis, mask, keepdims)

    def sum(self, axis=-1, mask=False, keepdims=False):
        return self._reduce("sum", axis, mask, keepdims)

    def prod(self, axis=-1, mask=False, keepdims=False):
        return self._reduce("prod", axis, mask, keepdims)

    def any(self, axis=-1, mask=False, keepdims=False):
        return self._reduce("any", axis, mask, keepdims)

    def all(self, axis=-1, mask=False, keepdims=False):
        return self._reduce("all", axis, mask, keepdims)

    def min(self, axis=-1, mask=True, keepdims=False, initial=None):
        return self._reduce("min", axis, mask, keepdims, initial)

    def max(self, axis=-1, mask=True, keepdims=False, initial=None):
        return self._reduce("max", axis, mask, keepdims, initial)

    def argmin(self, axis=-1, mask=True, keepdims=False):
        return self._reduce("argmin", axis, mask, keepdims)

    def argmax(self, axis=-1, mask=True, keepdims=False):
        return self._reduce("argmax", axis, mask, keepdims)

    def localindex(self, axis=1):
        return box(call("localindex", [self._h], [axis]).h)

    def combinations(self, n, replacement=False, keys=None, parameters=None, axis=1):
        ss = []
        nkeys = 0
        if keys is not None:
            keys = list(keys)
            if n != len(keys):
                raise ValueError("if provided, the length of 'keys' must be 'n'")
            ss.extend(keys)
            nkeys = len(keys)
        ss.extend(_params_to_ss(parameters))
        return box(call("combinations", [self._h], [n, replacement, axis, int(keys is not None), nkeys], ss=ss).h)

    def sort(self, axis, ascending, stable):
        return box(call("sort", [self._h], [axis, ascending, stable]).h)

    def argsort(self, axis, ascending, stable):
        return box(call("argsort", [self._h], [axis, ascending, stable]).h)

    def numbers_to_type(self, name):
        return box(call("numbers_to_type", [self._h], ss=[name]).h)

    def is_unique(self):
        return bool(call("is_unique", [self._h]).i)

    def unique(self):
        return box(call("unique", [self._h]).h)

    def copy_to(self, ptr_lib):
        if ptr_lib == "cpu":
            return self
        raise ValueError("specify 'cpu' or 'cuda'")

    def carry(self, carry, allow_lazy):
        return box(call("carry", [self._h, _as_index(carry, Index64)._h], [allow_lazy]).h)

    def simplify(self):
        return box(call("simplify", [self._h], [1, 0]).h)


def _content_prop(self):
    return box(call("content", [self._h], [0]).h)


# --------------------------------------------------------------------------- NumpyArray
@_register
class NumpyArray(Content):
    def __init__(self, array=None, identities=None, parameters=None, _h=None, _copy=False):
        if _h is not None:
            self._h = _h
            return
        if isinstance(array, NumpyArray):
            array = np.asarray(array)
        arr = array if isinstance(array, np.ndarray) else np.asarray(array)
        if arr.ndim == 0:
            raise ValueError("NumpyArray must not be scalar; try array.reshape(1)")
        if arr.dtype.kind in "OSUV":
            raise ValueError("NumpyArray dtype must be primitive, not %r" % (arr.dtype,))
        if not arr.dtype.isnative:
            arr = arr.astype(arr.dtype.newbyteorder("="))
        fmt, dtname = _format_of(arr.dtype)
        shape = (c_i64 * arr.ndim)(*arr.shape)
        strides = (c_i64 * arr.ndim)(*arr.strides)
        # the binding shares the numpy buffer (pyobject_deleter); so do we, through a token
        token = -1 if _copy else core.keep(arr)
        h = lib.akb_numpy_new(arr.ctypes.data, arr.nbytes if arr.flags.c_contiguous else 0, arr.ndim, shape, strides, 0,
                              arr.dtype.itemsize, fmt.encode(), DTYPE_ENUM.index(dtname), token)
        if h == -1:
            core.raise_status(4)

        class R(object):
            pass
        r = R()
        r.h = h
        self._finish(r, identities, parameters)

    def _info(self):
        ptr = ctypes.c_void_p()
        ndim = ctypes.c_int()
        shape = (c_i64 * 16)()
        strides = (c_i64 * 16)()
        itemsize = c_i64()
        fmt = ctypes.create_string_buffer(32)
        dtype = ctypes.c_int()
        byteoffset = c_i64()
        st = lib.akb_numpy_info(self._h, ptr, ndim, shape, strides, itemsize, fmt, dtype, byteoffset)
        if st != 0:
            core.raise_status(st)
        return (ptr.value, ndim.value, list(shape)[:ndim.value], list(strides)[:ndim.value], itemsize.value,
                fmt.value.decode(), DTYPE_ENUM[dtype.value], byteoffset.value)

    def _npdtype(self, fmt, dtname, itemsize):
        if dtname in ("datetime64", "timedelta64"):
            return np.dtype(fmt)
        return np.dtype(dtname)

    def __array__(self, dtype=None, copy=None):
        ptr, ndim, shape, strides, itemsize, fmt, dtname, _ = self._info()
        dt = self._npdtype(fmt, dtname, itemsize)
        if not ptr or any(s == 0 for s in shape):
            out = np.empty(shape, dt)
        else:
            out = np.asarray(core.Holder(ptr, shape, dt, strides, self))
        if dtype is not None and np.dtype(dtype) != out.dtype:
            return out.astype(dtype)
        return out.copy() if copy else out

    def __buffer__(self, flags):
        # PEP 688: the binding's NumpyArray implements the buffer protocol (pyarrow.py_buffer(layout.content) relies on it)
        return memoryview(self.__array__())

    shape = property(lambda self: tuple(self._info()[2]))
    strides = property(lambda self: tuple(self._info()[3]))
    itemsize = property(lambda self: self._info()[4])
    format = property(lambda self: self._info()[5])
    ndim = property(lambda self: self._info()[1])
    dtype = property(lambda self: np.asarray(self).dtype)
    isscalar = property(lambda self: bool(call("isscalar", [self._h]).i))
    isempty = property(lambda self: bool(call("numpy_isempty", [self._h]).i))
    iscontiguous = property(lambda self: bool(call("numpy_iscontiguous", [self._h]).i))
    ptr = property(lambda self: self._info()[0])

    def contiguous(self):
        return box(call("numpy_contiguous", [self._h]).h)

    def toRegularArray(self):
        return box(call("toRegularArray", [self._h]).h)

    def simplify(self):
        return box(call("shallow_simplify", [self._h]).h)

    @property
    def view_int64(self):
        arr = np.asarray(self)
        return NumpyArray(arr.view(np.int64))


@_register
class EmptyArray(Content):
    def __init__(self, identities=None, parameters=None):
        self._finish(call("EmptyArray"), identities, parameters)

    def toNumpyArray(self, dtype="d"):
        dt = np.dtype(dtype)
        fmt, _ = _format_of(dt)
        return box(call("toNumpyArray_empty", [self._h], [dt.itemsize], ss=[fmt]).h)

    def simplify(self):
        return box(call("shallow_simplify", [self._h]).h)


# --------------------------------------------------------------------------- lists
class _ListLike(Content):
    content = property(_content_prop)

    def compact_offsets64(self, start_at_zero=True):
        return _wrap_index(call("compact_offsets64", [self._h], [start_at_zero]).h)

    def broadcast_tooffsets64(self, offsets):
        return box(call("broadcast_tooffsets64", [self._h, _as_index(offsets, Index64)._h]).h)

    def toListOffsetArray64(self, start_at_zero):
        return box(call("toListOffsetArray64", [self._h], [start_at_zero]).h)

    def toRegularArray(self):
        return box(call("toRegularArray", [self._h]).h)

    def simplify(self):
        return box(call("shallow_simplify", [self._h]).h)


def _mk_listoffset(name, idxcls):
    class C(_ListLike):
        def __init__(self, offsets, content, identities=None, parameters=None):
            self._finish(call("ListOffsetArray", [_as_index(offsets, idxcls)._h, _unbox(content)._h]), identities, parameters)

        offsets = property(lambda self: _wrap_index(call("index_member", [self._h], [0]).h))
        starts = property(lambda self: _wrap_index(call("index_member", [self._h], [1]).h))
        stops = property(lambda self: _wrap_index(call("index_member", [self._h], [2]).h))
    C.__name__ = C.__qualname__ = name
    return _register(C)


def _mk_listarray(name, idxcls):
    class C(_ListLike):
        def __init__(self, starts, stops, content, identities=None, parameters=None):
            self._finish(call("ListArray", [_as_index(starts, idxcls)._h, _as_index(stops, idxcls)._h, _unbox(content)._h]), identities, parameters)

        starts = property(lambda self: _wrap_index(call("index_member", [self._h], [1]).h))
        stops = property(lambda self: _wrap_index(call("index_member", [self._h], [2]).h))
    C.__name__ = C.__qualname__ = name
    return _register(C)


ListOffsetArray32 = _mk_listoffset("ListOffsetArray32", Index32)
ListOffsetArrayU32 = _mk_listoffset("ListOffsetArrayU32", IndexU32)
ListOffsetArray64 = _mk_listoffset("ListOffsetArray64", Index64)
ListArray32 = _mk_listarray("ListArray32", Index32)
ListArrayU32 = _mk_listarray("ListArrayU32", IndexU32)
ListArray64 = _mk_listarray("ListArray64", Index64)


@_register
class RegularArray(_ListLike):
    def __init__(self, content, size, zeros_length=0, identities=None, parameters=None):
        self._finish(call("RegularArray", [_unbox(content)._h], [size, zeros_length]), identities, parameters)

    size = property(lambda self: call("regular_size", [self._h]).i)


# --------------------------------------------------------------------------- indexed / option
class _OptionLike(Content):
    content = property(_content_prop)

    def project(self, mask=None):
        if mask is None:
            return box(call("project", [self._h], [0]).h)
        return box(call("project_mask", [self._h, _as_index(mask, Index8)._h]).h)

    def bytemask(self):
        return _wrap_index(call("bytemask", [self._h]).h)

    def simplify(self):
        return box(call("simplify", [self._h], [1, 0]).h)


def _mk_indexed(name, idxcls, isoption):
    class C(_OptionLike):
        def __init__(self, index, content, identities=None, parameters=None):
            self._finish(call("IndexedArray", [_as_index(index, idxcls)._h, _unbox(content)._h], [int(isoption)]), identities, parameters)

        index = property(lambda self: _wrap_index(call("index_member", [self._h], [0]).h))
        isoption = property(lambda self: bool(call("isoption", [self._h]).i))
    C.__name__ = C.__qualname__ = name
    return _register(C)


IndexedArray32 = _mk_indexed("IndexedArray32", Index32, False)
IndexedArrayU32 = _mk_indexed("IndexedArrayU32", IndexU32, False)
IndexedArray64 = _mk_indexed("IndexedArray64", Index64, False)
IndexedOptionArray32 = _mk_indexed("IndexedOptionArray32", Index32, True)
IndexedOptionArray64 = _mk_indexed("IndexedOptionArray64", Index64, True)


@_register
class ByteMaskedArray(_OptionLike):
    def __init__(self, mask, content, valid_when, identities=None, parameters=None):
        self._finish(call("ByteMaskedArray", [_as_index(mask, Index8)._h, _unbox(content)._h], [bool(valid_when)]), identities, parameters)

    mask = property(lambda self: _wrap_index(call("index_member", [self._h], [0]).h))
    valid_when = property(lambda self: bool(call("valid_when", [self._h]).i))

    def toIndexedOptionArray64(self):
        return box(call("toIndexedOptionArray64", [self._h]).h)


@_register
class BitMaskedArray(_OptionLike):
    def __init__(self, mask, content, valid_when, length, lsb_order, identities=None, parameters=None):
        self._finish(call("BitMaskedArray", [_as_index(mask, IndexU8)._h, _unbox(content)._h], [bool(valid_when), length, bool(lsb_order)]),
                     identities, parameters)

    mask = property(lambda self: _wrap_index(call("index_member", [self._h], [0]).h))
    valid_when = property(lambda self: bool(call("valid_when", [self._h]).i))
    lsb_order = property(lambda self: bool(call("lsb_order", [self._h]).i))

    def toByteMaskedArray(self):
        return box(call("toByteMaskedArray", [self._h]).h)

    def toIndexedOptionArray64(self):
        return box(call("toIndexedOptionArray64", [self._h]).h)


@_register
class UnmaskedArray(_OptionLike):
    def __init__(self, content, identities=None, parameters=None):
        self._finish(call("UnmaskedArray", [_unbox(content)._h]), identities, parameters)

    def toByteMaskedArray(self):
        return box(call("toByteMaskedArray", [self._h]).h)

    def toIndexedOptionArray64(self):
        return box(call("toIndexedOptionArray64", [self._h]).h)


# --------------------------------------------------------------------------- records
class _RecordLike(object):
    istuple = property(lambda self: bool(call("istuple", [self._h]).i))

    def field(self, where):
        if isinstance(where, str):
            return box(call("field", [self._h], [0, 1], ss=[where]).h)
        return box(call("field", [self._h], [int(where), 0]).h)

    def fields(self):
        return [box(h) for h in json.loads(result_str(call("fields", [self._h])))]

    def fielditems(self):
        keys = self.keys()
        return list(zip(keys, self.fields()))

    @property
    def astuple(self):
        return box(call("astuple", [self._h]).h)


@_register
class RecordArray(_RecordLike, Content):
    def __init__(self, contents, keys=None, length=None, identities=None, parameters=None):
        if isinstance(contents, dict):
            # first overload: (contents: dict, length, identities, parameters); 'keys' position holds length
            if keys is not None and length is None and not isinstance(keys, (list, tuple)):
                length, keys = keys, None
            k = list(contents.keys())
            cs = [_unbox(x) for x in contents.values()]
            haskeys = 1
        else:
            cs = [_unbox(x) for x in contents]
            if keys is not None:
                k = [str(x) for x in keys]
                if len(k) != len(cs):
                    raise ValueError("if provided, 'keys' must have the same length as 'types'")
                haskeys = 1
            else:
                k = []
                haskeys = 0
        ia = [haskeys, int(length is not None), 0 if length is None else int(length)]
        self._finish(call("RecordArray", [x._h for x in cs], ia, ss=k), identities, parameters)

    @property
    def recordlookup(self):
        s = result_str(call("recordlookup", [self._h]))
        return None if s is None else json.loads(s)

    @property
    def contents(self):
        return [box(h) for h in json.loads(result_str(call("contents", [self._h])))]

    def setitem_field(self, where, what):
        what = _unbox(what)
        if where is None:
            return box(call("setitem_field", [self._h, what._h], [0, 0]).h)
        if isinstance(where, str):
            return box(call("setitem_field", [self._h, what._h], [1, 0], ss=[where]).h)
        if isinstance(where, numbers.Integral):
            return box(call("setitem_field", [self._h, what._h], [2, int(where)]).h)
        raise ValueError("where must be None, int, or str")

    def simplify(self):
        return box(call("shallow_simplify", [self._h]).h)


@_register
class Record(_RecordLike, Content):
    def __init__(self, array, at):
        if not isinstance(array, RecordArray):
            raise TypeError("Record needs a RecordArray")
        self._h = call("Record", [array._h], [at]).h

    array = property(lambda self: box(call("record_array", [self._h]).h))
    at = property(lambda self: call("record_at", [self._h]).i)

    def __iter__(self):
        raise TypeError("Record is not iterable")

    def simplify(self):
        return box(call("shallow_simplify", [self._h]).h)


# --------------------------------------------------------------------------- unions
def _mk_union(name, idxcls):
    class C(Content):
        def __init__(self, tags, index, contents, identities=None, parameters=None):
            cs = [_unbox(x) for x in contents]
            self._finish(call("UnionArray", [_as_index(tags, Index8)._h, _as_index(index, idxcls)._h] + [x._h for x in cs]), identities, parameters)

        tags = property(lambda self: _wrap_index(call("index_member", [self._h], [0]).h))
        index = property(lambda self: _wrap_index(call("index_member", [self._h], [1]).h))
        numcontents = property(lambda self: call("numcontents", [self._h]).i)

        @property
        def contents(self):
            return [box(h) for h in json.loads(result_str(call("contents", [self._h])))]

        def content(self, i):
            return box(call("content", [self._h], [i]).h)

        def project(self, i):
            return box(call("project", [self._h], [i]).h)

        def simplify(self, merge=True, mergebool=False):
            return box(call("simplify", [self._h], [merge, mergebool]).h)

        @staticmethod
        def sparse_index(length):
            return _wrap_index(call("union_sparse_index", [], [idxcls._kind, length]).h)

        @staticmethod
        def regular_index(tags):
            return _wrap_index(call("union_regular_index", [_as_index(tags, Index8)._h], [idxcls._kind]).h)

        @staticmethod
        def nested_tags_index(offsets, counts):
            cs = [_as_index(c, Index64) for c in counts]
            res = call("c_union_nested_tags_index", [_as_index(offsets, Index64)._h] + [c._h for c in cs], [idxcls._kind])
            return (_wrap_index(res.h), _wrap_index(res.h2))
    C.__name__ = C.__qualname__ = name
    return _register(C)


UnionArray8_32 = _mk_union("UnionArray8_32", Index32)
UnionArray8_U32 = _mk_union("UnionArray8_U32", IndexU32)
UnionArray8_64 = _mk_union("UnionArray8_64", Index64)


# ArrayBuilder / LayoutBuilder live in akshim.builder (which imports this module lazily, so either import order works)
from akshim.builder import ArrayBuilder, LayoutBuilder  # noqa: E402,F401


# placeholder replaced by akshim.virtual when that module is imported


@_register
class VirtualArray(Content):
    pass


import akshim.virtual  # noqa: E402,F401  - replaces the placeholder above (and adds ArrayGenerator, ArrayCache, partitions)
