"""ak.layout.{ArrayGenerator, SliceGenerator, ArrayCache, VirtualArray, IrregularlyPartitionedArray} over the bridge.

Re-statement of /repo/src/python/virtual.cpp, partition.cpp and the VirtualArray section of content.cpp: the C++ classes
PyArrayGenerator / PyArrayCache call Python through pybind11; here bridge-defined subclasses of ak::ArrayGenerator /
ak::ArrayCache (bridge/akb_virtual.cpp) call back through ctypes function pointers.  As everything in akshim this is a
*model of the binding* (trusted base), never evidence about src/python/*.cpp.

Lifetime: the Python state a C++ object may call back into (callable/args/kwargs, the weak reference to the mapping) is
registered with core.keep(); the C++ object reports the token when its last owner goes away and core.drain() forgets it.
An exception raised inside a callback is parked in _PENDING, the C++ side throws, libawkward unwinds, and the status hook
re-raises the parked exception object in the caller, as pybind11 would.
"""
import ctypes
import json
import weakref

import numpy as np  # noqa: F401

from akshim import core
from akshim import layout as L
from akshim.core import call, result_str, c_i64, lib

MARK = result_str(call("v_mark"))
_PENDING = []
CALLBACK_LOG = []      # optional trace of callback activity: (kind, token[, key]) when TRACE[0] is true
TRACE = [False]


def pending_count():
    """exceptions raised by callbacks that have not (yet) been re-raised to a caller"""
    return len(_PENDING)


def clear_pending():
    del _PENDING[:]


def _status_hook(status, msg):
    if MARK in msg and _PENDING:
        exc = _PENDING[-1]
        del _PENDING[:]
        raise exc


if _status_hook not in core.STATUS_HOOKS:
    core.STATUS_HOOKS.append(_status_hook)


def _release(h):
    try:
        call("v_release", [h])
    except Exception:
        pass


# --------------------------------------------------------------------------- forms (only what virtual arrays need)
class Form(object):
    """handle on an ak::Form; stands in for ak.forms.Form where no fuller emulation is installed"""

    def __init__(self, spec=None, _h=None):
        if _h is not None:
            self._h = _h
            return
        if isinstance(spec, dict):
            spec = json.dumps(spec)
        self._h = call("form_fromjson", ss=[spec]).h

    def __del__(self):
        core.release(self._h)

    @staticmethod
    def fromjson(text):
        return Form(text)

    def tojson(self, pretty=False, verbose=False):
        return result_str(call("form_tojson", [self._h], [pretty, verbose]))

    def equal(self, other, check_identities=True, check_parameters=True, check_form_key=True, compatibility_check=False):
        return bool(call("form_equal", [self._h, other._h], [check_identities, check_parameters, check_form_key, compatibility_check]).i)

    def __eq__(self, other):
        return isinstance(other, Form) and self.equal(other)

    def __ne__(self, other):
        return not self == other

    __hash__ = None

    def __repr__(self):
        return result_str(call("form_tostring", [self._h]))

    def type(self, typestrs=None):
        return result_str(call("type_tostring", [call("form_type", [self._h]).h]))


def _mkform(h):
    """the full Form emulation (akshim.typesforms: VirtualForm.form, has_length, ...) when it is installed"""
    try:
        from akshim import typesforms as TF
    except ImportError:
        return Form(_h=h)
    return TF.wrap_form(h)


def form_of(layout, materialize=False):
    """Content::form(materialize) as a Form handle"""
    return _mkform(call("form", [layout._h], [int(bool(materialize))]).h)


def _form_handle(form, what):
    if form is None:
        return None
    if isinstance(form, (str, dict)):
        form = Form(form)
    if not hasattr(form, "_h"):
        raise ValueError("%s 'form' must be an ak.forms.Form or None" % what)
    return form


def _wrap_form(res):
    return None if res.kind == core.K_NONE else _mkform(res.h)


def _length_arg(length, what):
    if length is None:
        return -1
    if isinstance(length, bool) or not hasattr(length, "__index__"):
        raise ValueError("%s 'length' must be an int or None" % what)
    return int(length)


# --------------------------------------------------------------------------- ArrayCache
class MappingProxy(dict):
    """a dict that can be weakly referenced (ak._util.MappingProxy plays this role upstream)"""


class _CacheState(object):
    def __init__(self, mutablemapping):
        # PyArrayCache keeps py::none() or a weak reference to the mapping
        self.ref = None if mutablemapping is None else weakref.ref(mutablemapping)

    def is_broken(self):
        return self.ref is not None and self.ref() is None

    def mutablemapping(self):
        if self.ref is None:
            return None
        out = self.ref()
        if out is None:
            raise RuntimeError("PyArrayCache has lost its weak reference to mapping")
        return out


class ArrayCache(object):
    def __init__(self, mutablemapping, _h=None, _token=None):
        if _h is not None:
            self._h = _h
            self._token = _token
            return
        state = _CacheState(mutablemapping)
        self._token = core.keep(state)
        self._h = call("v_cache_new", [], [self._token]).i

    def __del__(self):
        if getattr(self, "_h", None) is not None:
            _release(self._h)

    @property
    def _state(self):
        return core._KEEP[self._token]

    @property
    def is_broken(self):
        return bool(call("v_cache_is_broken", [self._h]).i)

    @property
    def mutablemapping(self):
        return self._state.mutablemapping()

    def __repr__(self):
        if self._state.is_broken():
            return "<ArrayCache is_broken=\"true\"/>"
        r = repr(self._state.mutablemapping())
        if len(r) > 50:
            r = r[:47] + "..."
        return "<ArrayCache mapping=\"%s\"/>" % r

    def __getitem__(self, key):
        res = call("v_cache_get", [self._h], ss=[key])
        return None if res.kind == core.K_NONE else L.box(res.h)

    def __setitem__(self, key, value):
        call("v_cache_set", [self._h, L._unbox(value)._h], ss=[key])

    def __delitem__(self, key):
        del self._state.mutablemapping()[key]

    def __iter__(self):
        return iter(self._state.mutablemapping())

    def __len__(self):
        return len(self._state.mutablemapping())

    def __eq__(self, other):
        return isinstance(other, ArrayCache) and other._token == self._token

    __hash__ = None


def _wrap_cache(h, token):
    return ArrayCache(None, _h=h, _token=token)


def _wrap_caches(res):
    flat = json.loads(result_str(res))
    return [_wrap_cache(flat[i], flat[i + 1]) for i in range(0, len(flat), 2)]


def caches_of(content):
    return _wrap_caches(call("v_caches", [content._h]))


# --------------------------------------------------------------------------- generators
class _GeneratorState(object):
    def __init__(self, callable_, args, kwargs):
        self.callable = callable_
        self.args = args
        self.kwargs = kwargs


class _GeneratorBase(object):
    def __del__(self):
        if getattr(self, "_h", None) is not None:
            _release(self._h)

    @property
    def form(self):
        return _wrap_form(call("v_generator_form", [self._h]))

    @property
    def length(self):
        n = call("v_generator_length", [self._h]).i
        return None if n < 0 else n

    @property
    def caches(self):
        return _wrap_caches(call("v_generator_caches", [self._h]))

    def __call__(self):
        return L.box(call("v_generator_call", [self._h]).h)

    def __repr__(self):
        return result_str(call("v_generator_tostring", [self._h]))

    def with_form(self, form):
        return _wrap_generator(call("v_generator_with_form", [self._h, _form_handle(form, type(self).__name__)._h]))

    def with_length(self, length):
        return _wrap_generator(call("v_generator_with_length", [self._h], [int(length)]))


class ArrayGenerator(_GeneratorBase):
    def __init__(self, callable=None, args=(), kwargs=None, form=None, length=None, _h=None):   # noqa: A002 (pybind's argument name)
        if _h is not None:
            self._h = _h
            return
        if not isinstance(args, tuple):
            raise TypeError("ArrayGenerator 'args' must be a tuple")
        kwargs = {} if kwargs is None else kwargs
        if not isinstance(kwargs, dict):
            raise TypeError("ArrayGenerator 'kwargs' must be a dict")
        form = _form_handle(form, "ArrayGenerator")
        n = _length_arg(length, "ArrayGenerator")
        token = core.keep(_GeneratorState(callable, args, kwargs))
        hs = ([form._h] if form is not None else []) + [a._h for a in args if isinstance(a, ArrayCache)]
        self._h = call("v_generator_new", hs, [token, n, form is not None]).i

    @property
    def _state(self):
        return core._KEEP[call("v_generator_token", [self._h]).i]

    callable = property(lambda self: self._state.callable)
    args = property(lambda self: self._state.args)
    kwargs = property(lambda self: self._state.kwargs)

    def _with(self, callable_, args, kwargs):
        return ArrayGenerator(callable_, args, kwargs, self.form, self.length)

    def with_callable(self, callable):   # noqa: A002
        return self._with(callable, self.args, self.kwargs)

    def with_args(self, args):
        return self._with(self.callable, args, self.kwargs)

    def with_kwargs(self, kwargs):
        return self._with(self.callable, self.args, kwargs)


class SliceGenerator(_GeneratorBase):
    def __init__(self, content=None, slice=None, form=None, length=None, _h=None):   # noqa: A002
        if _h is not None:
            self._h = _h
            return
        form = _form_handle(form, "SliceGenerator")
        n = _length_arg(length, "SliceGenerator")
        sb = L.toslice(slice)
        hs = [L._unbox(content)._h, sb.h] + ([form._h] if form is not None else [])
        self._h = call("v_slicegenerator_new", hs, [n, form is not None]).i

    @property
    def content(self):
        return L.box(call("v_slicegenerator_content", [self._h]).h)


def _wrap_generator(res):
    if res.h2 == 0:
        return ArrayGenerator(_h=res.i)
    if res.h2 == 1:
        return SliceGenerator(_h=res.i)
    _release(res.i)
    raise ValueError("VirtualArray's generator is not a Python function")


# --------------------------------------------------------------------------- callbacks
_CB_GENERATE = ctypes.CFUNCTYPE(c_i64, c_i64)
_CB_GET = ctypes.CFUNCTYPE(c_i64, c_i64, ctypes.c_void_p, c_i64)
_CB_SET = ctypes.CFUNCTYPE(c_i64, c_i64, ctypes.c_void_p, c_i64, c_i64)
_CB_BROKEN = ctypes.CFUNCTYPE(c_i64, c_i64)


def _hand_over(obj):
    """a fresh handle on the node behind `obj`; C++ takes it and drops it"""
    return call("v_dup", [obj._h]).h


def _to_layout(out):
    """PyArrayGenerator::generate passes the callable's result through ak.to_layout(out, False, False)"""
    if isinstance(out, L.Content):
        return out
    if L.HIGHLEVEL is not None:
        return L.HIGHLEVEL.to_layout(out, False, False)
    raise TypeError("the callable of an ArrayGenerator must return a layout (tier L has no ak.to_layout)")


def _key(ptr, n):
    return ctypes.string_at(ptr, n).decode("utf-8", "surrogateescape") if n else ""


def _on_generate(token):
    try:
        if TRACE[0]:
            CALLBACK_LOG.append(("generate", token))
        st = core._KEEP[token]
        return _hand_over(_to_layout(st.callable(*st.args, **st.kwargs)))
    except BaseException as e:   # noqa: B902  - parked and re-raised in the caller
        _PENDING.append(e)
        return -1


def _on_cache_get(token, keyptr, keylen):
    try:
        key = _key(keyptr, keylen)
        if TRACE[0]:
            CALLBACK_LOG.append(("get", token, key))
        mapping = core._KEEP[token].mutablemapping()     # RuntimeError when the weak reference is dead
        try:
            out = mapping[key]                           # any Python error (KeyError, None has no __getitem__) is a miss
        except Exception:   # noqa: B902
            return 0
        if not isinstance(out, L.Content):
            raise TypeError("incompatible function arguments: content argument must be a Content subtype")
        return _hand_over(out)
    except BaseException as e:   # noqa: B902
        _PENDING.append(e)
        return -1


def _on_cache_set(token, keyptr, keylen, h):
    try:
        value = L.box(h)                                 # owns the handle from here on
        key = _key(keyptr, keylen)
        if TRACE[0]:
            CALLBACK_LOG.append(("set", token, key))
        mapping = core._KEEP[token].mutablemapping()
        if mapping is not None:
            mapping[key] = value
        return 0
    except BaseException as e:   # noqa: B902
        _PENDING.append(e)
        return -1


def _on_cache_broken(token):
    try:
        return int(core._KEEP[token].is_broken())
    except BaseException:   # noqa: B902
        return 1


_callbacks = (_CB_GENERATE(_on_generate), _CB_GET(_on_cache_get), _CB_SET(_on_cache_set), _CB_BROKEN(_on_cache_broken))
lib.akb_virtual_set_callbacks.restype = None
lib.akb_virtual_set_callbacks.argtypes = [_CB_GENERATE, _CB_GET, _CB_SET, _CB_BROKEN]
lib.akb_virtual_set_callbacks(*_callbacks)


# --------------------------------------------------------------------------- VirtualArray
@L._register
class VirtualArray(L.Content):
    def __init__(self, generator, cache=None, cache_key=None, identities=None, parameters=None):
        if not isinstance(generator, (ArrayGenerator, SliceGenerator)):
            raise ValueError("VirtualArray 'generator' must be an ArrayGenerator or a SliceGenerator")
        if cache is not None and not isinstance(cache, ArrayCache):
            raise ValueError("VirtualArray 'cache' must be an ArrayCache or None")
        if cache_key is not None and not isinstance(cache_key, str):
            raise ValueError("VirtualArray 'cache_key' must be a string or None")
        hs = [generator._h] + ([cache._h] if cache is not None else [])
        ss = ([cache_key] if cache_key is not None else []) + L._params_to_ss(parameters)
        self._finish(call("v_virtualarray_new", hs, [cache is not None, cache_key is not None], ss=ss), identities, None)

    @property
    def generator(self):
        return _wrap_generator(call("v_generator", [self._h]))

    @property
    def cache(self):
        res = call("v_cache", [self._h])
        return None if res.kind == core.K_NONE else _wrap_cache(res.i, res.h2)

    @property
    def cache_key(self):
        return result_str(call("v_cache_key", [self._h]))

    @property
    def peek_array(self):
        res = call("v_peek_array", [self._h])
        return None if res.kind == core.K_NONE else L.box(res.h)

    @property
    def array(self):
        return L.box(call("v_array", [self._h]).h)

    @property
    def ptr_lib(self):
        return {0: "cpu", 1: "cuda"}[call("v_ptr_lib", [self._h]).i]

    @property
    def form(self):
        return _mkform(call("form", [self._h], [0]).h)

    def form_materialized(self):
        """form(true): not exposed by the binding, used by the checks"""
        return _mkform(call("form", [self._h], [1]).h)


# --------------------------------------------------------------------------- partitions
class PartitionedArray(object):
    pass


class IrregularlyPartitionedArray(PartitionedArray):
    def __init__(self, partitions=None, stops=None, _h=None):
        if _h is not None:
            self._h = _h
            return
        parts = [L._unbox(p) for p in partitions]
        if stops is None:
            self._h = call("p_new", [p._h for p in parts], [0]).i
        else:
            self._h = call("p_new", [p._h for p in parts], [1] + [int(s) for s in stops]).i

    def __del__(self):
        if getattr(self, "_h", None) is not None:
            _release(self._h)

    def __repr__(self):
        return result_str(call("p_tostring", [self._h]))

    def __len__(self):
        return call("p_length", [self._h]).i

    @property
    def partitions(self):
        return [L.box(h) for h in json.loads(result_str(call("p_partitions", [self._h])))]

    @property
    def numpartitions(self):
        return call("p_numpartitions", [self._h]).i

    @property
    def stops(self):
        return json.loads(result_str(call("p_stops", [self._h])))

    def partition(self, partitionid):
        return L.box(call("p_partition", [self._h], [partitionid]).h)

    def start(self, partitionid):
        return call("p_start", [self._h], [partitionid]).i

    def stop(self, partitionid):
        return call("p_stop", [self._h], [partitionid]).i

    def partitionid_index_at(self, at):
        r = call("p_partitionid_index_at", [self._h], [at])
        return (r.i, r.h2)

    def repartition(self, stops):
        return IrregularlyPartitionedArray(_h=call("p_repartition", [self._h], [int(s) for s in stops]).i)

    def tojson(self, *args, **kwargs):
        tofile = ("destination" in kwargs) or (len(args) > 0 and isinstance(args[0], str))
        names = ["destination", "pretty", "maxdecimals", "buffersize"] if tofile else ["pretty", "maxdecimals"]
        vals = {"pretty": False, "maxdecimals": None, "buffersize": 65536}
        for n, a in zip(names, args):
            vals[n] = a
        for k, v in kwargs.items():
            if k not in names:
                raise TypeError("tojson(): incompatible function arguments")
            vals[k] = v
        md = vals["maxdecimals"]
        if md is None:
            md = -1
        else:
            md = int(md)
            if md < 0:
                raise ValueError("maxdecimals must be None or a non-negative integer")
        if tofile:
            call("p_tojson_file", [self._h], [bool(vals["pretty"]), md, int(vals["buffersize"])], ss=[vals["destination"]])
            return None
        return result_str(call("p_tojson", [self._h], [bool(vals["pretty"]), md]))

    def getitem_at(self, at):
        return L.box(call("p_getitem_at", [self._h], [L._int64_or_overflow(at)]).h)

    def getitem_range(self, start, stop, step):
        ia = [L.NONE_SENTINEL if x is None else L._int64_or_overflow(x) for x in (start, stop, step)]
        return IrregularlyPartitionedArray(_h=call("p_getitem_range", [self._h], ia).i)

    def copy_to(self, ptr_lib):
        if ptr_lib == "cpu":
            return IrregularlyPartitionedArray(_h=call("p_copy_to_cpu", [self._h]).i)
        raise ValueError("specify 'cpu' or 'cuda'")


for _cls in (ArrayGenerator, SliceGenerator, ArrayCache, PartitionedArray, IrregularlyPartitionedArray):
    _cls.__module__ = "awkward._ext"

# replace the placeholder of akshim.layout
L.VirtualArray = VirtualArray
L.ArrayGenerator = ArrayGenerator
L.SliceGenerator = SliceGenerator
L.ArrayCache = ArrayCache
L.PartitionedArray = PartitionedArray
L.IrregularlyPartitionedArray = IrregularlyPartitionedArray
