"""Python classes with the names and signatures of the pybind11 Type and Form classes (src/python/types.cpp, forms.cpp),
forwarding to the bridge (ops t_* and f_* of bridge/akb_ext.cpp)."""
import json
import numbers

import numpy as np

from akshim import core
from akshim.core import call, result_str

_TYPES = {}
_FORMS = {}


def _pss(parameters):
    """[N, k1, json1, ...] block for constructors"""
    parameters = parameters or {}
    if not isinstance(parameters, dict):
        raise TypeError("parameters must be a dict or None")
    out = [str(len(parameters))]
    for k, v in parameters.items():
        out.append(k)
        out.append(json.dumps(v))
    return out


def _loads(s):
    return json.loads(s)


# ---------------------------------------------------------------------------------------------------- types
def wrap_type(h, typestrs=None):
    name = result_str(call("t_class", [h]))
    cls = _TYPES[name]
    obj = cls.__new__(cls)
    obj._h = h
    return obj


def _unbox_type(x):
    if not isinstance(x, Type):
        raise TypeError("argument must be a Type subtype")
    return x


def _regtype(cls):
    _TYPES[cls.__name__] = cls
    cls.__module__ = "awkward._ext"
    return cls


class Type(object):
    def __init__(self, *args, **kwargs):
        raise TypeError("Type is abstract")

    def __del__(self):
        core.release(self._h)

    def _new(self, cls, typestr, parameters, hs=(), ia=(), extra=()):
        ss = [cls, "" if typestr is None else typestr] + _pss(parameters) + list(extra)
        self._h = call("t_new", hs, ia, ss=ss).h

    def __eq__(self, other):
        if not isinstance(other, Type):
            return NotImplemented
        return bool(call("type_equal", [self._h, other._h], [1]).i)

    def __ne__(self, other):
        r = self.__eq__(other)
        return r if r is NotImplemented else not r

    __hash__ = None

    def __repr__(self):
        return result_str(call("type_tostring", [self._h]))

    @property
    def parameters(self):
        return _loads(result_str(call("t_params", [self._h])))

    @parameters.setter
    def parameters(self, value):
        call("t_setparameters", [self._h], ss=_pss(value))

    def setparameter(self, key, value):
        call("t_setparameter", [self._h], ss=[key, json.dumps(value)])

    @property
    def typestr(self):
        s = result_str(call("t_typestr", [self._h]))
        return s if s else None

    @property
    def numfields(self):
        return call("t_numfields", [self._h]).i

    def fieldindex(self, key):
        return call("t_fieldindex", [self._h], ss=[key]).i

    def key(self, fieldindex):
        return result_str(call("t_key", [self._h], [fieldindex]))

    def haskey(self, key):
        return bool(call("t_haskey", [self._h], ss=[key]).i)

    def keys(self):
        return _loads(result_str(call("t_keys", [self._h])))

    def empty(self):
        from akshim import layout
        return layout.box(call("t_empty", [self._h]).h)

    def _child(self, i=0):
        return wrap_type(call("t_child", [self._h], [i, 0]).h)

    def __reduce__(self):
        return (_rebuild_type, (type(self).__name__, self.__getstate__()))


def _rebuild_type(name, state):
    cls = _TYPES[name]
    obj = cls.__new__(cls)
    obj.__setstate__(state)
    return obj


@_regtype
class ArrayType(Type):
    def __init__(self, type, length, parameters=None, typestr=None):
        self._new("ArrayType", typestr, parameters, [_unbox_type(type)._h], [int(length)])

    type = property(lambda self: self._child())
    length = property(lambda self: call("t_info", [self._h], [1]).i)

    def __getstate__(self):
        return (self.parameters, self.typestr, self.type, self.length)

    def __setstate__(self, st):
        self._new("ArrayType", st[1], st[0], [st[2]._h], [st[3]])


@_regtype
class ListType(Type):
    def __init__(self, type, parameters=None, typestr=None):
        self._new("ListType", typestr, parameters, [_unbox_type(type)._h])

    type = property(lambda self: self._child())

    def __getstate__(self):
        return (self.parameters, self.typestr, self.type)

    def __setstate__(self, st):
        self._new("ListType", st[1], st[0], [st[2]._h])


@_regtype
class OptionType(Type):
    def __init__(self, type, parameters=None, typestr=None):
        self._new("OptionType", typestr, parameters, [_unbox_type(type)._h])

    type = property(lambda self: self._child())

    def __getstate__(self):
        return (self.parameters, self.typestr, self.type)

    def __setstate__(self, st):
        self._new("OptionType", st[1], st[0], [st[2]._h])


@_regtype
class PrimitiveType(Type):
    def __init__(self, dtype, parameters=None, typestr=None):
        if not isinstance(dtype, str):
            raise TypeError("dtype must be a string")
        self._new("PrimitiveType", typestr, parameters, extra=[dtype])

    dtype = property(lambda self: result_str(call("t_info", [self._h], [4])))

    def __getstate__(self):
        return (self.parameters, self.typestr, self.dtype)

    def __setstate__(self, st):
        self._new("PrimitiveType", st[1], st[0], extra=[st[2]])


@_regtype
class RecordType(Type):
    def __init__(self, types, keys=None, parameters=None, typestr=None):
        if isinstance(types, dict):
            # first overload: (dict types, parameters, typestr)
            if keys is not None and parameters is None and isinstance(keys, dict):
                parameters, keys = keys, None
            ks = list(types.keys())
            ts = [_unbox_type(types[k]) for k in ks]
            self._new("RecordType", typestr, parameters, [t._h for t in ts], [1], ks)
            return
        ts = [_unbox_type(t) for t in types]
        if keys is None:
            self._new("RecordType", typestr, parameters, [t._h for t in ts], [0])
        else:
            ks = [str(k) if not isinstance(k, str) else k for k in keys]
            for k in keys:
                if not isinstance(k, str):
                    raise TypeError("keys must be strings")
            self._new("RecordType", typestr, parameters, [t._h for t in ts], [1], ks)

    def __getitem__(self, where):
        return self.field(where)

    istuple = property(lambda self: bool(call("t_info", [self._h], [3]).i))

    @property
    def types(self):
        return tuple(self.field(i) for i in range(self.numfields))

    def field(self, where):
        if isinstance(where, str):
            return wrap_type(call("t_child", [self._h], [0, 1], ss=[where]).h)
        return wrap_type(call("t_child", [self._h], [int(where), 0]).h)

    def fields(self):
        return list(self.types)

    def fielditems(self):
        return [(self.key(i), self.field(i)) for i in range(self.numfields)]

    def __getstate__(self):
        return (self.types, None if self.istuple else tuple(self.keys()), self.parameters, self.typestr)

    def __setstate__(self, st):
        RecordType.__init__(self, st[0], st[1], st[2], st[3])


@_regtype
class RegularType(Type):
    def __init__(self, type, size, parameters=None, typestr=None):
        self._new("RegularType", typestr, parameters, [_unbox_type(type)._h], [int(size)])

    type = property(lambda self: self._child())
    size = property(lambda self: call("t_info", [self._h], [0]).i)

    def __getstate__(self):
        return (self.parameters, self.typestr, self.type, self.size)

    def __setstate__(self, st):
        self._new("RegularType", st[1], st[0], [st[2]._h], [st[3]])


@_regtype
class UnionType(Type):
    def __init__(self, types, parameters=None, typestr=None):
        ts = [_unbox_type(t) for t in types]
        self._new("UnionType", typestr, parameters, [t._h for t in ts])

    numtypes = property(lambda self: call("t_info", [self._h], [2]).i)

    @property
    def types(self):
        return tuple(self.type(i) for i in range(self.numtypes))

    def type(self, i):
        return self._child(int(i))

    def __getstate__(self):
        return (self.parameters, self.typestr, self.types)

    def __setstate__(self, st):
        self._new("UnionType", st[1], st[0], [t._h for t in st[2]])


@_regtype
class UnknownType(Type):
    def __init__(self, parameters=None, typestr=None):
        self._new("UnknownType", typestr, parameters)

    def __getstate__(self):
        return (self.parameters, self.typestr)

    def __setstate__(self, st):
        self._new("UnknownType", st[1], st[0])


# ---------------------------------------------------------------------------------------------------- forms
def wrap_form(h):
    name = result_str(call("f_class", [h]))
    cls = _FORMS[name]
    obj = cls.__new__(cls)
    obj._h = h
    return obj


def _regform(cls):
    _FORMS[cls.__name__] = cls
    cls.__module__ = "awkward._ext"
    return cls


def _unbox_form(x):
    if not isinstance(x, Form):
        raise TypeError("argument must be a Form subtype")
    return x


class Form(object):
    def __init__(self, *args, **kwargs):
        raise TypeError("Form is abstract")

    def __del__(self):
        core.release(self._h)

    def _new(self, cls, has_identities, parameters, form_key, hs=(), ia=(), extra=()):
        if form_key is not None and not isinstance(form_key, str):
            raise TypeError("form_key must be a string or None")
        ss = [cls, "" if form_key is None else form_key] + _pss(parameters) + list(extra)
        self._h = call("f_new", hs, [1 if has_identities else 0, 0 if form_key is None else 1] + list(ia), ss=ss).h

    def __eq__(self, other):
        if not isinstance(other, Form):
            return NotImplemented
        return bool(call("form_equal", [self._h, other._h], [1, 1, 1, 0]).i)

    def __ne__(self, other):
        r = self.__eq__(other)
        return r if r is NotImplemented else not r

    __hash__ = None

    @staticmethod
    def fromjson(data):
        return wrap_form(call("form_fromjson", ss=[data]).h)

    @staticmethod
    def from_numpy(dtype):
        if not isinstance(dtype, np.dtype):
            raise ValueError("Form.from_numpy requires a numpy.dtype")
        inner_shape = [int(x) for x in dtype.shape]
        if not inner_shape:
            kind, itemsize = dtype.kind, dtype.itemsize
        else:
            sub = dtype.subdtype[0]
            kind, itemsize = sub.kind, sub.itemsize
        return wrap_form(call("f_fromnumpy", ia=[ord(kind), itemsize] + inner_shape).h)

    def __repr__(self):
        return result_str(call("form_tostring", [self._h]))

    has_identities = property(lambda self: bool(call("f_has_identities", [self._h]).i))

    @property
    def parameters(self):
        return _loads(result_str(call("f_params", [self._h])))

    def parameter(self, key):
        return _loads(result_str(call("f_parameter", [self._h], ss=[key])))

    @property
    def form_key(self):
        return result_str(call("f_form_key", [self._h]))

    def type(self, typestrs):
        ss = []
        for k, v in dict(typestrs).items():
            ss += [k, v]
        return wrap_type(call("f_type", [self._h], ss=ss).h)

    def tojson(self, pretty=False, verbose=True):
        return result_str(call("form_tojson", [self._h], [1 if pretty else 0, 1 if verbose else 0]))

    purelist_depth = property(lambda self: call("form_int", [self._h], [0]).i)

    def with_form_key(self, form_key):
        if form_key is None:
            return wrap_form(call("f_with_form_key", [self._h], [0], ss=[""]).h)
        return wrap_form(call("f_with_form_key", [self._h], [1], ss=[form_key]).h)

    def _content(self, i=0):
        return wrap_form(call("f_child", [self._h], [i, 0]).h)

    def _str(self, sel=0):
        return result_str(call("f_str", [self._h], [sel]))

    def _int(self, sel=0):
        return call("f_int", [self._h], [sel]).i

    def __reduce__(self):
        return (_rebuild_form, (type(self).__name__, self.__getstate__()))


def _rebuild_form(name, state):
    cls = _FORMS[name]
    obj = cls.__new__(cls)
    obj.__setstate__(state)
    return obj


@_regform
class BitMaskedForm(Form):
    def __init__(self, mask, content, valid_when, lsb_order, has_identities=False, parameters=None, form_key=None):
        self._new("BitMaskedForm", has_identities, parameters, form_key, [_unbox_form(content)._h], [1 if valid_when else 0, 1 if lsb_order else 0], [mask])

    mask = property(lambda self: self._str(0))
    content = property(lambda self: self._content())
    valid_when = property(lambda self: bool(self._int(0)))
    lsb_order = property(lambda self: bool(self._int(1)))

    def __getstate__(self):
        return (self.has_identities, self.parameters, self.form_key, self.mask, self.content, self.valid_when, self.lsb_order)

    def __setstate__(self, st):
        BitMaskedForm.__init__(self, st[3], st[4], st[5], st[6], st[0], st[1], st[2])


@_regform
class ByteMaskedForm(Form):
    def __init__(self, mask, content, valid_when, has_identities=False, parameters=None, form_key=None):
        self._new("ByteMaskedForm", has_identities, parameters, form_key, [_unbox_form(content)._h], [1 if valid_when else 0], [mask])

    mask = property(lambda self: self._str(0))
    content = property(lambda self: self._content())
    valid_when = property(lambda self: bool(self._int(0)))

    def __getstate__(self):
        return (self.has_identities, self.parameters, self.form_key, self.mask, self.content, self.valid_when)

    def __setstate__(self, st):
        ByteMaskedForm.__init__(self, st[3], st[4], st[5], st[0], st[1], st[2])


@_regform
class EmptyForm(Form):
    def __init__(self, has_identities=False, parameters=None, form_key=None):
        self._new("EmptyForm", has_identities, parameters, form_key)

    def __getstate__(self):
        return (self.has_identities, self.parameters, self.form_key)

    def __setstate__(self, st):
        EmptyForm.__init__(self, st[0], st[1], st[2])


def _mk_indexed_form(name):
    def __init__(self, index, content, has_identities=False, parameters=None, form_key=None):
        self._new(name, has_identities, parameters, form_key, [_unbox_form(content)._h], [], [index])

    def __getstate__(self):
        return (self.has_identities, self.parameters, self.form_key, self.index, self.content)

    def __setstate__(self, st):
        __init__(self, st[3], st[4], st[0], st[1], st[2])

    return _regform(type(name, (Form,), {"__init__": __init__, "index": property(lambda self: self._str(0)),
                                         "content": property(lambda self: self._content()),
                                         "__getstate__": __getstate__, "__setstate__": __setstate__}))


IndexedForm = _mk_indexed_form("IndexedForm")
IndexedOptionForm = _mk_indexed_form("IndexedOptionForm")


@_regform
class ListForm(Form):
    def __init__(self, starts, stops, content, has_identities=False, parameters=None, form_key=None):
        self._new("ListForm", has_identities, parameters, form_key, [_unbox_form(content)._h], [], [starts, stops])

    starts = property(lambda self: self._str(0))
    stops = property(lambda self: self._str(1))
    content = property(lambda self: self._content())

    def __getstate__(self):
        return (self.has_identities, self.parameters, self.form_key, self.starts, self.stops, self.content)

    def __setstate__(self, st):
        ListForm.__init__(self, st[3], st[4], st[5], st[0], st[1], st[2])


@_regform
class ListOffsetForm(Form):
    def __init__(self, offsets, content, has_identities=False, parameters=None, form_key=None):
        self._new("ListOffsetForm", has_identities, parameters, form_key, [_unbox_form(content)._h], [], [offsets])

    offsets = property(lambda self: self._str(0))
    content = property(lambda self: self._content())

    def __getstate__(self):
        return (self.has_identities, self.parameters, self.form_key, self.offsets, self.content)

    def __setstate__(self, st):
        ListOffsetForm.__init__(self, st[3], st[4], st[0], st[1], st[2])


_DTYPE_TO_NP = {1: "bool", 2: "i1", 3: "i2", 4: "i4", 5: "i8", 6: "u1", 7: "u2", 8: "u4", 9: "u8", 10: "f2", 11: "f4", 12: "f8",
                13: "f16", 14: "c8", 15: "c16", 16: "c32"}


@_regform
class NumpyForm(Form):
    def __init__(self, inner_shape, itemsize, format, has_identities=False, parameters=None, form_key=None):
        self._new("NumpyForm", has_identities, parameters, form_key, [], [int(itemsize)] + [int(x) for x in inner_shape], [format])

    inner_shape = property(lambda self: _loads(self._str(2)))
    itemsize = property(lambda self: self._int(0))
    format = property(lambda self: self._str(0))
    primitive = property(lambda self: self._str(1))

    def to_numpy(self):
        code = self._int(1)
        if code in (17, 18):
            # datetime64 / timedelta64: the binding builds the dtype from the format's unit
            fmt = self.format
            dt = np.dtype(fmt)
        else:
            dt = np.dtype(_DTYPE_TO_NP.get(code, "O"))
        shape = tuple(self.inner_shape)
        if shape:
            return np.dtype((dt, shape))
        return dt

    def __getstate__(self):
        return (self.has_identities, self.parameters, self.form_key, self.inner_shape, self.itemsize, self.format)

    def __setstate__(self, st):
        NumpyForm.__init__(self, st[3], st[4], st[5], st[0], st[1], st[2])


@_regform
class RecordForm(Form):
    def __init__(self, contents, keys=None, has_identities=False, parameters=None, form_key=None):
        if isinstance(contents, dict):
            # second overload: (dict contents, has_identities, parameters, form_key); std::map iterates in sorted key order
            if keys is not None and not isinstance(keys, (list, tuple)):
                has_identities = keys
            ks = sorted(contents.keys())
            cs = [_unbox_form(contents[k]) for k in ks]
            self._new("RecordForm", has_identities, parameters, form_key, [c._h for c in cs], [1], ks)
            return
        cs = [_unbox_form(c) for c in contents]
        if keys is None:
            self._new("RecordForm", has_identities, parameters, form_key, [c._h for c in cs], [0])
        else:
            self._new("RecordForm", has_identities, parameters, form_key, [c._h for c in cs], [1], list(keys))

    @property
    def contents(self):
        return dict((self.key(i), self.content(i)) for i in range(self.numfields))

    istuple = property(lambda self: bool(self._int(0)))
    numfields = property(lambda self: call("form_int", [self._h], [6]).i)

    def fieldindex(self, key):
        return call("form_fieldindex", [self._h], ss=[key]).i

    def key(self, fieldindex):
        return result_str(call("form_key", [self._h], [fieldindex]))

    def haskey(self, key):
        return bool(call("form_haskey", [self._h], ss=[key]).i)

    def keys(self):
        return _loads(result_str(call("form_keys", [self._h])))

    def content(self, fieldindex):
        if isinstance(fieldindex, str):
            return wrap_form(call("f_child", [self._h], [0, 1], ss=[fieldindex]).h)
        return wrap_form(call("f_child", [self._h], [int(fieldindex), 0]).h)

    def items(self):
        return [(self.key(i), self.content(i)) for i in range(self.numfields)]

    def values(self):
        return [self.content(i) for i in range(self.numfields)]

    def __getstate__(self):
        return (self.has_identities, self.parameters, self.form_key, None if self.istuple else tuple(self.keys()), tuple(self.values()))

    def __setstate__(self, st):
        RecordForm.__init__(self, list(st[4]), st[3], st[0], st[1], st[2])


@_regform
class RegularForm(Form):
    def __init__(self, content, size, has_identities=False, parameters=None, form_key=None):
        self._new("RegularForm", has_identities, parameters, form_key, [_unbox_form(content)._h], [int(size)])

    content = property(lambda self: self._content())
    size = property(lambda self: self._int(0))

    def __getstate__(self):
        return (self.has_identities, self.parameters, self.form_key, self.content, self.size)

    def __setstate__(self, st):
        RegularForm.__init__(self, st[3], st[4], st[0], st[1], st[2])


@_regform
class UnionForm(Form):
    def __init__(self, tags, index, contents, has_identities=False, parameters=None, form_key=None):
        cs = [_unbox_form(c) for c in contents]
        self._new("UnionForm", has_identities, parameters, form_key, [c._h for c in cs], [], [tags, index])

    tags = property(lambda self: self._str(0))
    index = property(lambda self: self._str(1))
    numcontents = property(lambda self: self._int(0))

    @property
    def contents(self):
        return [self.content(i) for i in range(self.numcontents)]

    def content(self, i):
        return self._content(int(i))

    def __getstate__(self):
        return (self.has_identities, self.parameters, self.form_key, self.tags, self.index, tuple(self.contents))

    def __setstate__(self, st):
        UnionForm.__init__(self, st[3], st[4], list(st[5]), st[0], st[1], st[2])


@_regform
class UnmaskedForm(Form):
    def __init__(self, content, has_identities=False, parameters=None, form_key=None):
        self._new("UnmaskedForm", has_identities, parameters, form_key, [_unbox_form(content)._h])

    content = property(lambda self: self._content())

    def __getstate__(self):
        return (self.has_identities, self.parameters, self.form_key, self.content)

    def __setstate__(self, st):
        UnmaskedForm.__init__(self, st[3], st[0], st[1], st[2])


@_regform
class VirtualForm(Form):
    def __init__(self, form, has_length, has_identities=False, parameters=None, form_key=None):
        hs = [] if form is None else [_unbox_form(form)._h]
        self._new("VirtualForm", has_identities, parameters, form_key, hs, [1 if has_length else 0])

    @property
    def form(self):
        if not self._int(1):
            return None
        return self._content()

    has_length = property(lambda self: bool(self._int(0)))

    def __getstate__(self):
        return (self.has_identities, self.parameters, self.form_key, self.form, self.has_length)

    def __setstate__(self, st):
        VirtualForm.__init__(self, st[3], st[4], st[0], st[1], st[2])
