"""description (akmodel.core) <-> layout object (akshim.layout)"""
import numpy as np

from akshim import layout as L

_IDX = {"8": L.Index8, "U8": L.IndexU8, "32": L.Index32, "U32": L.IndexU32, "64": L.Index64}
_NPIDX = {"8": np.int8, "U8": np.uint8, "32": np.int32, "U32": np.uint32, "64": np.int64}


def width_of(cls):
    for w in ("U32", "32", "64"):
        if cls.endswith(w):
            return w
    raise ValueError(cls)


def _index(width, data, buffers):
    arr = np.array(data, dtype=_NPIDX[width]) if len(data) else np.zeros(0, _NPIDX[width])
    if buffers is not None:
        buffers.append(arr)
    return _IDX[width](arr)


def numpy_physical(d):
    """the numpy array object handed to NumpyArray: same logical content as akmodel.core.numpy_data, drawn physical layout"""
    from akmodel.core import numpy_data
    logical = numpy_data(d)
    phys = d.get("phys")
    if not phys or logical.ndim != 1:
        if phys and phys.get("view") and logical.ndim > 1:
            # a strided window of a larger n-d array (as a[1:, 1:4] or a[:, ::2] would be): base[pre : pre + step * n : step] per dimension
            v = phys["view"]
            shape = [v["pre"][i] + v["step"][i] * logical.shape[i] + v["post"][i] for i in range(logical.ndim)]
            base = np.full(shape, phys.get("fill", 99), dtype=logical.dtype, order="F" if phys.get("order") == "F" else "C")
            view = base[tuple(slice(v["pre"][i], v["pre"][i] + v["step"][i] * logical.shape[i], v["step"][i]) for i in range(logical.ndim))]
            view[...] = logical
            return view
        if phys and phys.get("order") == "F" and logical.ndim > 1:
            return np.asfortranarray(logical)
        return np.ascontiguousarray(logical)
    step = phys.get("step", 1)
    offset = phys.get("offset", 0)
    pad = phys.get("pad", 0)
    n = len(logical)
    total = offset + abs(step) * n + pad + 1
    fill = phys.get("fill", 0)
    base = np.full(total, fill, dtype=logical.dtype) if logical.dtype.kind != "c" else np.full(total, complex(fill), dtype=logical.dtype)
    if step > 0:
        view = base[offset: offset + step * n: step]
    else:
        first = offset + (-step) * (n - 1) if n > 0 else offset
        view = base[first: (first + step * n) if (first + step * n) >= 0 else None: step][:n]
    view[...] = logical
    return view


def default_virtual_builder(d, buffers):
    """{"class": "VirtualArray", "generates": <description>, "declare_form": bool, "declare_length": bool,
        "cache": None|"keep"|"none_mapping", "cache_key": str?}  ->  a VirtualArray with a pure generator"""
    from akshim import virtual as V
    from akmodel.core import length_of
    sub = d["generates"]
    form = V.form_of(build(strip_virtual(sub))) if d.get("declare_form") else None
    length = length_of(strip_virtual(sub)) if d.get("declare_length") else None
    gen = V.ArrayGenerator(lambda: build(sub), form=form, length=length)
    kind = d.get("cache")
    cache = None
    if kind == "keep":
        mapping = V.MappingProxy()
        cache = V.ArrayCache(mapping)
        cache._state.strong = mapping      # ArrayCache only holds a weak reference; tie the mapping's life to the C++ cache object
    elif kind == "none_mapping":
        cache = V.ArrayCache(None)
    return V.VirtualArray(gen, cache, d.get("cache_key"), parameters=d.get("parameters") or None)


VIRTUAL_BUILDER = [default_virtual_builder]    # checks push their own builder (generator/cache behaviours) and pop it afterwards


def strip_virtual(d):
    """the description with every VirtualArray wrapper replaced by what it generates"""
    if d["class"] == "VirtualArray":
        return strip_virtual(d["generates"])
    out = dict(d)
    if "content" in d:
        out["content"] = strip_virtual(d["content"])
    if "contents" in d:
        out["contents"] = [strip_virtual(c) for c in d["contents"]]
    return out


def build(d, buffers=None):
    """description -> layout.  `buffers` (a list) collects every numpy array handed to the library, for purity checks."""
    cls = d["class"]
    params = d.get("parameters") or None
    if cls == "VirtualArray":
        return VIRTUAL_BUILDER[-1](d, buffers)
    if cls == "NumpyArray":
        arr = numpy_physical(d)
        if buffers is not None:
            buffers.append(arr.base if arr.base is not None else arr)
        phys = d.get("phys") or {}
        if phys.get("via") == "getitem" and phys.get("view") and arr.base is not None and params is None:
            # the same window taken by the library's own range slicing of the larger array (a[1:, 1:4]): unlike a NumPy view handed in
            # directly, such a NumpyArray has a non-zero byte offset into its buffer
            v = phys["view"]
            window = tuple(slice(v["pre"][i], v["pre"][i] + v["step"][i] * arr.shape[i], v["step"][i]) for i in range(arr.ndim))
            return L.NumpyArray(arr.base)[window]
        return L.NumpyArray(arr, parameters=params)
    if cls == "EmptyArray":
        return L.EmptyArray(parameters=params)
    if cls.startswith("ListOffsetArray"):
        w = width_of(cls)
        return getattr(L, cls)(_index(w, d["offsets"], buffers), build(d["content"], buffers), parameters=params)
    if cls.startswith("ListArray"):
        w = width_of(cls)
        return getattr(L, cls)(_index(w, d["starts"], buffers), _index(w, d["stops"], buffers), build(d["content"], buffers), parameters=params)
    if cls == "RegularArray":
        return L.RegularArray(build(d["content"], buffers), d["size"], d.get("zeros_length", 0), parameters=params)
    if cls.startswith("Indexed"):
        w = width_of(cls)
        return getattr(L, cls)(_index(w, d["index"], buffers), build(d["content"], buffers), parameters=params)
    if cls == "ByteMaskedArray":
        return L.ByteMaskedArray(_index("8", d["mask"], buffers), build(d["content"], buffers), d["valid_when"], parameters=params)
    if cls == "BitMaskedArray":
        return L.BitMaskedArray(_index("U8", d["mask"], buffers), build(d["content"], buffers), d["valid_when"], d["length"], d["lsb_order"],
                                parameters=params)
    if cls == "UnmaskedArray":
        return L.UnmaskedArray(build(d["content"], buffers), parameters=params)
    if cls == "RecordArray":
        contents = [build(c, buffers) for c in d["contents"]]
        return L.RecordArray(contents, d.get("keys"), d.get("length"), parameters=params)
    if cls.startswith("UnionArray"):
        w = width_of(cls)
        return getattr(L, cls)(_index("8", d["tags"], buffers), _index(w, d["index"], buffers), [build(c, buffers) for c in d["contents"]],
                               parameters=params)
    raise ValueError("cannot build " + cls)


def describe(layout):
    """layout -> description, read back through the accessors of each class"""
    cls = type(layout).__name__
    if cls == "VirtualArray":
        # read by materialising; the node's own parameters do not enter its type (VirtualForm::type ignores them)
        return describe(layout.array)
    out = {"class": cls}
    params = layout.parameters
    if params:
        out["parameters"] = params
    if cls == "NumpyArray":
        arr = np.asarray(layout)
        out["dtype"] = arr.dtype.name if arr.dtype.kind not in "Mm" else arr.dtype.str
        out["shape"] = list(arr.shape)
        flat = np.ascontiguousarray(arr).reshape(-1)
        if arr.dtype.kind == "c":
            out["data"] = [[x.real, x.imag] for x in flat.tolist()]
        elif arr.dtype.kind in "Mm":
            out["data"] = flat.view(np.int64).tolist()   # ticks since the epoch in the dtype's unit (JSON-able, NaT = int64 min)
        else:
            out["data"] = flat.tolist()
        return out
    if cls == "EmptyArray":
        return out
    if cls.startswith("ListOffsetArray"):
        out["offsets"] = np.asarray(layout.offsets).tolist()
        out["content"] = describe(layout.content)
        return out
    if cls.startswith("ListArray"):
        out["starts"] = np.asarray(layout.starts).tolist()
        out["stops"] = np.asarray(layout.stops).tolist()
        out["content"] = describe(layout.content)
        return out
    if cls == "RegularArray":
        out["size"] = layout.size
        out["zeros_length"] = len(layout)
        out["content"] = describe(layout.content)
        return out
    if cls.startswith("Indexed"):
        out["index"] = np.asarray(layout.index).tolist()
        out["content"] = describe(layout.content)
        return out
    if cls == "ByteMaskedArray":
        out["mask"] = np.asarray(layout.mask).tolist()
        out["valid_when"] = layout.valid_when
        out["content"] = describe(layout.content)
        return out
    if cls == "BitMaskedArray":
        out["mask"] = np.asarray(layout.mask).tolist()
        out["valid_when"] = layout.valid_when
        out["lsb_order"] = layout.lsb_order
        out["length"] = len(layout)
        out["content"] = describe(layout.content)
        return out
    if cls == "UnmaskedArray":
        out["content"] = describe(layout.content)
        return out
    if cls == "RecordArray":
        out["contents"] = [describe(c) for c in layout.contents]
        out["keys"] = layout.recordlookup
        out["length"] = len(layout)
        return out
    if cls.startswith("UnionArray"):
        out["tags"] = np.asarray(layout.tags).tolist()
        out["index"] = np.asarray(layout.index).tolist()
        out["contents"] = [describe(c) for c in layout.contents]
        return out
    from akmodel.core import Invalid
    raise Invalid("a %s node inside a layout" % cls)


def value_of(x):
    """(type, value) of whatever an operation returned: a layout, a Record, a scalar or None"""
    from akmodel.core import decode
    if x is None:
        return None, None
    if isinstance(x, L.Record):
        T, vals = decode(describe(x.array))
        return T, vals[x.at]
    if isinstance(x, L.Content):
        return decode(describe(x))
    if isinstance(x, np.generic):
        return None, x.item()
    return None, x
