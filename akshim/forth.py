"""ForthMachine32 / ForthMachine64 with the names, arguments and conventions of src/python/forth.cpp, forwarding to the bridge.

The binding is *re-stated* here from its source text (pybind11 cannot be compiled in this sandbox): `run` is begin + resume as in
the binding; the C++ `run(inputs)` is reachable as `run_cpp`. Errors are returned as the binding's strings (None for no error)
and raised as ValueError when the matching raise_* flag is set (default), with the text of ForthMachineOf::maybe_throw.
`snapshot()` is an addition: everything observable in one bridge call, outputs as (dtype, bytes).
"""
import json

import numpy as np

from akshim import core

ERROR_NAMES = [core.result_str(core.call("forth_error_name", (), (i,))) for i in range(core.call("forth_error_count").i)]
RAISE_FLAGS = ("user halt", "recursion depth exceeded", "stack underflow", "stack overflow", "read beyond", "seek beyond",
               "skip beyond", "rewind beyond", "division by zero", "varint too big")


def _pairs(inputs):
    ss = []
    for name, data in (inputs or {}).items():
        ss.append(name)
        ss.append(bytes(data) if not isinstance(data, np.ndarray) else data.tobytes())
    return ss


class _ForthMachine(object):
    BITS = None

    def __init__(self, source, stack_size=1024, recursion_depth=1024, output_initial_size=1024, output_resize_factor=1.5):
        self._h = None
        self._h = core.call("forth_new", (), (self.BITS, stack_size, recursion_depth, output_initial_size),
                            (float(output_resize_factor),), (source,)).i

    def __del__(self):
        h, self._h = self._h, None
        if h is not None:
            try:
                core.call("forth_release", (h,))
            except Exception:
                pass

    close = __del__

    # ---- helpers
    def _c(self, op, ia=(), ss=()):
        return core.call(op, (self._h,), ia, (), ss)

    def _j(self, op):
        return json.loads(core.result_str(self._c(op)))

    def _err(self, code, ignore):
        name = ERROR_NAMES[code]
        if name == "none":
            return None
        if name not in ignore:
            msg = core.result_str(self._c("forth_error_message", (code,)))
            if msg:
                raise ValueError(msg)
        return name

    @staticmethod
    def _ignore(kw):
        ig = set()
        for name in RAISE_FLAGS:
            key = "raise_" + name.replace(" ", "_")
            if not kw.pop(key, True):
                ig.add(name)
        if kw:
            raise TypeError("unexpected arguments %r" % sorted(kw))
        return ig

    # ---- the binding's API
    source = property(lambda self: core.result_str(self._c("forth_source")))
    decompiled = property(lambda self: core.result_str(self._c("forth_decompiled")))
    dictionary = property(lambda self: self._j("forth_dictionary"))
    stack_max_depth = property(lambda self: self._c("forth_stack_max_depth").i)
    recursion_max_depth = property(lambda self: self._c("forth_recursion_max_depth").i)
    output_initial_size = property(lambda self: self._c("forth_output_initial_size").i)
    output_resize_factor = property(lambda self: self._c("forth_output_resize_factor").d)
    stack = property(lambda self: self._j("forth_stack"))
    variables = property(lambda self: self._j("forth_variables"))
    current_bytecode_position = property(lambda self: self._c("forth_current_bytecode_position").i)
    current_recursion_depth = property(lambda self: self._c("forth_current_recursion_depth").i)
    current_instruction = property(lambda self: core.result_str(self._c("forth_current_instruction")))
    count_instructions = property(lambda self: self._c("forth_count_instructions").i)
    count_reads = property(lambda self: self._c("forth_count_reads").i)
    count_writes = property(lambda self: self._c("forth_count_writes").i)
    count_nanoseconds = property(lambda self: self._c("forth_count_nanoseconds").i)
    is_ready = property(lambda self: bool(self._c("forth_is_ready").i))
    is_done = property(lambda self: bool(self._c("forth_is_done").i))
    is_segment_done = property(lambda self: bool(self._c("forth_is_segment_done").i))

    @property
    def bytecodes(self):
        b = self._j("forth_bytecodes")
        offs, content = b["offsets"], b["content"]
        return [content[offs[i]:offs[i + 1]] for i in range(len(offs) - 1)]

    @property
    def outputs(self):
        return {k: _decode_output(v) for k, v in self._j("forth_outputs").items()}

    def output_NumpyArray(self, name):
        outs = self._j("forth_outputs")
        if name not in outs:
            raise ValueError("output not found: " + name)
        return _decode_output(outs[name])

    def __getitem__(self, key):
        if self.is_variable(key):
            return self._c("forth_variable_at", (), (key,)).i
        if self.is_output(key):
            return self.output_NumpyArray(key)
        if self.is_defined(key):
            return self.bytecodes[self.dictionary.index(key) + 1]
        raise ValueError("unrecognized AwkwardForth variable/output/dictionary word: " + key)

    def stack_push(self, value):
        self._c("forth_stack_push", (value,))

    def stack_pop(self):
        return self._c("forth_stack_pop").i

    def stack_clear(self):
        self._c("forth_stack_clear")

    def string_at(self, at):
        return core.result_str(self._c("forth_string_at", (at,)))

    def inputs_modified(self):
        """how many of the input buffers given to the latest begin/run no longer hold the bytes that were passed in"""
        return self._c("forth_inputs_modified").i

    def input_position(self, name):
        return self._c("forth_input_position_at", (), (name,)).i

    def reset(self):
        self._c("forth_reset")

    def begin(self, inputs=None):
        self._c("forth_begin", (), _pairs(inputs))

    def begin_again(self):
        self._c("forth_begin_again")

    def step(self, **kw):
        ig = self._ignore(kw)
        return self._err(self._c("forth_step").i, ig)

    def resume(self, **kw):
        ig = self._ignore(kw)
        return self._err(self._c("forth_resume").i, ig)

    def run(self, inputs=None, **kw):
        ig = self._ignore(kw)
        self._c("forth_begin", (), _pairs(inputs))
        return self._err(self._c("forth_resume").i, ig)

    def run_cpp(self, inputs=None, **kw):
        ig = self._ignore(kw)
        return self._err(self._c("forth_run", (), _pairs(inputs)).i, ig)

    def call(self, name, **kw):
        ig = self._ignore(kw)
        return self._err(self._c("forth_call", (), (name,)).i, ig)

    def count_reset(self):
        self._c("forth_count_reset")

    def is_variable(self, word):
        return bool(self._c("forth_is_variable", (), (word,)).i)

    def is_input(self, word):
        return bool(self._c("forth_is_input", (), (word,)).i)

    def is_output(self, word):
        return bool(self._c("forth_is_output", (), (word,)).i)

    def is_defined(self, word):
        return bool(self._c("forth_is_defined", (), (word,)).i)

    def is_reserved(self, word):
        return bool(self._c("forth_is_reserved", (), (word,)).i)

    # ---- additions for the checks
    def snapshot(self):
        """{'stack', 'variables', 'outputs': {name: [dtype, hex] | ['negative-length', n]}, 'positions', 'ready', 'done', ...}"""
        s = self._j("forth_state")
        s["outputs"] = {k: ([v["dtype"], v["hex"]] if "hex" in v else ["negative-length", v["len"]]) for k, v in s["outputs"].items()}
        s["inputs_modified"] = self.inputs_modified()
        return s

    # error codes without the binding's raise/ignore logic
    def step_code(self):
        return ERROR_NAMES[self._c("forth_step").i]

    def step_n(self, n):
        """up to n single steps, stopping at the first error or when done -> (error name, steps taken)"""
        r = self._c("forth_step_n", (n,))
        return ERROR_NAMES[r.i], r.h2

    def resume_code(self):
        return ERROR_NAMES[self._c("forth_resume").i]

    def run_code(self, inputs=None):
        return ERROR_NAMES[self._c("forth_run", (), _pairs(inputs)).i]

    def run_code_py(self, inputs=None):
        """run as the Python binding does it: begin(inputs) then resume()"""
        self._c("forth_begin", (), _pairs(inputs))
        return ERROR_NAMES[self._c("forth_resume").i]

    def call_code(self, name):
        return ERROR_NAMES[self._c("forth_call", (), (name,)).i]


def _decode_output(v):
    if "hex" not in v:
        raise RuntimeError("output has negative length %d" % v["len"])
    return np.frombuffer(bytes.fromhex(v["hex"]), dtype=np.dtype(v["dtype"]))


class ForthMachine32(_ForthMachine):
    BITS = 32


class ForthMachine64(_ForthMachine):
    BITS = 64


def live_machines():
    return core.call("forth_live").i
