"""Runs the repository's pure-Python type-string parser (/repo/src/awkward/_typeparser) without `awkward._ext`.

parser.py does `import awkward as ak` and only uses `ak.types.<X>Type(...)`.  Those classes live in the pybind11 module, which
cannot be built here; `Types` below re-states their constructor signatures from src/python/types.cpp (argument names, defaults,
json.dumps of parameter values, the two RecordType overloads) and builds the *real* C++ Type objects through the bridge, so that
printing and equality of parsed types are the library's own.

load() installs a stub package named `awkward` in sys.modules of the calling process (a dedicated worker / replay process); it
refuses to run if a real `awkward` has already been imported.
"""
import importlib.util
import json
import os
import sys
import types as pytypes

from akshim import core
from akshim.core import call, result_str
from vlib.common import REPO


def _params_ss(parameters):
    """dict2parameters() of src/python/content.cpp"""
    if parameters is None:
        return []
    if not isinstance(parameters, dict):
        raise ValueError("type parameters must be a dict (or None)")
    ss = []
    for k, v in parameters.items():
        if not isinstance(k, str):
            raise TypeError("parameter keys must be strings")
        ss.append(k)
        ss.append(json.dumps(v))
    return ss


def _typestr(typestr):
    if typestr is None:
        return ""
    if not isinstance(typestr, str):
        raise TypeError("typestr must be a str or None")
    return typestr


def _int64(x, what):
    # pybind11's int64_t caster refuses floats and bools are ints
    if isinstance(x, float) or not hasattr(x, "__index__"):
        raise TypeError("%s must be an integer, not %r" % (what, x))
    return int(x.__index__())


class Type(object):
    __module__ = "awkward._ext"

    def __del__(self):
        try:
            core.release(self._h)
        except Exception:
            pass

    def __repr__(self):
        return result_str(call("type_tostring", [self._h]))

    __str__ = __repr__

    def __eq__(self, other):
        if not isinstance(other, Type):
            return NotImplemented
        return bool(call("type_equal", [self._h, other._h], [1]).i)

    def __ne__(self, other):
        r = self.__eq__(other)
        return r if r is NotImplemented else not r

    __hash__ = None

    @property
    def parameters(self):
        raw = json.loads(result_str(call("type_rawparameters", [self._h])))
        return {k: json.loads(v) for k, v in raw.items()}

    @property
    def typestr(self):
        s = result_str(call("type_typestr", [self._h]))
        return s if s else None


def _unbox(x):
    if not isinstance(x, Type):
        raise TypeError("expected an awkward Type, got %r" % (x,))
    return x


class UnknownType(Type):
    def __init__(self, parameters=None, typestr=None):
        self._h = call("t_unknown", ss=[_typestr(typestr)] + _params_ss(parameters)).h


class PrimitiveType(Type):
    def __init__(self, dtype, parameters=None, typestr=None):
        if not isinstance(dtype, str):
            raise TypeError("dtype must be a str")
        self._h = call("t_primitive", ss=[_typestr(typestr), str(dtype)] + _params_ss(parameters)).h
        self._dtype = str(dtype)

    dtype = property(lambda self: self._dtype)


class ListType(Type):
    def __init__(self, type, parameters=None, typestr=None):
        self._type = _unbox(type)
        self._h = call("t_list", [self._type._h], ss=[_typestr(typestr)] + _params_ss(parameters)).h

    type = property(lambda self: self._type)


class OptionType(Type):
    def __init__(self, type, parameters=None, typestr=None):
        self._type = _unbox(type)
        self._h = call("t_option", [self._type._h], ss=[_typestr(typestr)] + _params_ss(parameters)).h

    type = property(lambda self: self._type)


class RegularType(Type):
    def __init__(self, type, size, parameters=None, typestr=None):
        self._type = _unbox(type)
        self._size = _int64(size, "size")
        self._h = call("t_regular", [self._type._h], [self._size], ss=[_typestr(typestr)] + _params_ss(parameters)).h

    type = property(lambda self: self._type)
    size = property(lambda self: self._size)


class ArrayType(Type):
    def __init__(self, type, length, parameters=None, typestr=None):
        self._type = _unbox(type)
        self._length = _int64(length, "length")
        self._h = call("t_array", [self._type._h], [self._length], ss=[_typestr(typestr)] + _params_ss(parameters)).h

    type = property(lambda self: self._type)
    length = property(lambda self: self._length)


class UnionType(Type):
    def __init__(self, types, parameters=None, typestr=None):
        self._types = [_unbox(t) for t in types]
        self._h = call("t_union", [t._h for t in self._types], ss=[_typestr(typestr)] + _params_ss(parameters)).h

    types = property(lambda self: tuple(self._types))


class RecordType(Type):
    def __init__(self, types, *args, **kwargs):
        # overload 1: (types: dict, parameters=None, typestr=None); overload 2: (types: iterable, keys=None, parameters=None, typestr=None)
        if isinstance(types, dict):
            names = ["parameters", "typestr"]
            vals = dict(zip(names, args))
            if len(args) > 2 or any(k not in names or k in vals for k in kwargs):
                raise TypeError("RecordType(): incompatible constructor arguments")
            vals.update(kwargs)
            keys = [k for k in types.keys()]
            ts = [_unbox(t) for t in types.values()]
        else:
            names = ["keys", "parameters", "typestr"]
            vals = dict(zip(names, args))
            if len(args) > 3 or any(k not in names or k in vals for k in kwargs):
                raise TypeError("RecordType(): incompatible constructor arguments")
            vals.update(kwargs)
            ts = [_unbox(t) for t in types]
            keys = vals.get("keys")
            if keys is not None:
                keys = list(keys)
        self._types = ts
        ss = [_typestr(vals.get("typestr"))]
        if keys is not None:
            for k in keys:
                if not isinstance(k, str):
                    raise TypeError("record keys must be strings")
            ss += [str(k) for k in keys]
        ss += _params_ss(vals.get("parameters"))
        self._h = call("t_record", [t._h for t in ts], [int(keys is not None), 0 if keys is None else len(keys)], ss=ss).h
        self._keys = keys

    types = property(lambda self: tuple(self._types))
    istuple = property(lambda self: self._keys is None)

    def keys(self):
        return [str(i) for i in range(len(self._types))] if self._keys is None else list(self._keys)


_LOADED = {}


def load():
    """-> the repository's `from_datashape(typestr, high_level=False)`"""
    if "fn" in _LOADED:
        return _LOADED["fn"]
    existing = sys.modules.get("awkward")
    if existing is not None and not getattr(existing, "__verif_stub__", False):
        raise RuntimeError("a real `awkward` package is already imported in this process; the type parser must not run on it")
    pkgdir = os.path.join(REPO, "src", "awkward", "_typeparser")
    ak = pytypes.ModuleType("awkward")
    ak.__verif_stub__ = True
    ak.__path__ = []
    tmod = pytypes.ModuleType("awkward.types")
    for cls in (Type, UnknownType, PrimitiveType, ListType, OptionType, RegularType, ArrayType, UnionType, RecordType):
        setattr(tmod, cls.__name__, cls)
    ak.types = tmod
    tp = pytypes.ModuleType("awkward._typeparser")
    tp.__path__ = [pkgdir]
    ak._typeparser = tp
    sys.modules["awkward"] = ak
    sys.modules["awkward.types"] = tmod
    sys.modules["awkward._typeparser"] = tp
    for name in ("generated_parser", "parser"):
        full = "awkward._typeparser." + name
        spec = importlib.util.spec_from_file_location(full, os.path.join(pkgdir, name + ".py"))
        mod = importlib.util.module_from_spec(spec)
        sys.modules[full] = mod
        spec.loader.exec_module(mod)
        setattr(tp, name, mod)
    _LOADED["fn"] = sys.modules["awkward._typeparser.parser"].from_datashape
    return _LOADED["fn"]
