"""ArrayBuilder / LayoutBuilder of `awkward._ext`, re-stated from src/python/content.cpp
(`make_ArrayBuilder`, `make_LayoutBuilder`, `builder_fromiter`, `builder_datetime`, `builder_timedelta`) on top of the
/verif bridge ops `ab_*` / `lb_*` (bridge/akb_builder.cpp).

This is a *model of the binding*: method names, argument names/defaults and the Python-type dispatch of `fromiter` follow
the source text; evidence obtained through it is evidence about libawkward's builder classes, not about pybind11 glue.

Extras that pybind does not have (used by checks/c14.py): `via="capi"` routes every command the exported C interface
has (`awkward_ArrayBuilder_*`, the functions numba calls) through that interface instead of the C++ methods;
`beginrecord_fast` / `field_fast`.
"""
import ctypes
import numbers

import numpy as np

from akshim import core
from akshim.core import call, result_str


def _layout():
    from akshim import layout   # late: akshim.layout imports this module at its end
    return layout


_CAPI = {}


def _capi(name, *argtypes):
    fn = _CAPI.get(name)
    if fn is None:
        fn = getattr(core.libawkward, "awkward_ArrayBuilder_" + name)
        fn.restype = ctypes.c_uint8
        fn.argtypes = [ctypes.c_void_p] + list(argtypes)
        _CAPI[name] = fn
    return fn


def _int64(x):
    """py::cast<int64_t>: Python ints outside the range are refused by pybind11 with a TypeError"""
    if isinstance(x, (bool, np.bool_)):
        return int(x)
    if not isinstance(x, (numbers.Integral, np.integer)):
        raise TypeError("incompatible function arguments (int64 expected)")
    x = int(x)
    if not -2 ** 63 <= x < 2 ** 63:
        raise TypeError("incompatible function arguments (integer does not fit int64)")
    return x


class ArrayBuilder(object):
    def __init__(self, initial=1024, resize=1.5, via="cpp"):
        self._h = None
        self._via = via
        self._h = call("ab_new", [], [_int64(initial)], [float(resize)]).i
        self._cptr = call("ab_ptr", [self._h]).i if via == "capi" else None

    def __del__(self):
        if self._h is not None:
            try:
                call("ab_release", [self._h])
            except Exception:
                pass

    # ---- the C interface (src/libawkward/builder/ArrayBuilder.cpp, bottom): status 1 = "an exception was thrown"
    def _c(self, name, argtypes=(), args=()):
        if _capi(name, *argtypes)(self._cptr, *args) != 0:
            raise ValueError("awkward_ArrayBuilder_%s returned an error status" % name)

    @property
    def _ptr(self):
        return call("ab_ptr", [self._h]).i

    def __repr__(self):
        return result_str(call("ab_tostring", [self._h]))

    def __len__(self):
        if self._via == "capi":
            out = ctypes.c_int64(-1)
            self._c("length", [ctypes.POINTER(ctypes.c_int64)], [ctypes.byref(out)])
            return out.value
        return call("ab_length", [self._h]).i

    def clear(self):
        if self._via == "capi":
            return self._c("clear")
        call("ab_clear", [self._h])

    def type(self, typestrs=None):
        from akshim import typesforms
        return typesforms.wrap_type(call("ab_type", [self._h]).h, typestrs)

    def typestr(self):
        return result_str(call("ab_typestr", [self._h]))

    def snapshot(self):
        return _layout().box(call("ab_snapshot", [self._h]).h)

    def __getitem__(self, where):
        return self.snapshot()[where]

    def __iter__(self):
        return _layout().Iterator(self.snapshot())

    # ---- leaves
    def null(self):
        if self._via == "capi":
            return self._c("null")
        call("ab_null", [self._h])

    def boolean(self, x):
        if not isinstance(x, (bool, np.bool_)):
            raise TypeError("boolean(): incompatible function arguments")
        if self._via == "capi":
            return self._c("boolean", [ctypes.c_bool], [bool(x)])
        call("ab_boolean", [self._h], [1 if x else 0])

    def integer(self, x):
        x = _int64(x)
        if self._via == "capi":
            return self._c("integer", [ctypes.c_int64], [x])
        call("ab_integer", [self._h], [x])

    def real(self, x):
        x = float(x)
        if self._via == "capi":
            return self._c("real", [ctypes.c_double], [x])
        call("ab_real", [self._h], da=[x])

    def complex(self, x):
        x = complex(x)
        call("ab_complex", [self._h], da=[x.real, x.imag])      # no C-interface entry point

    def datetime(self, obj):
        # builder_datetime
        if isinstance(obj, str):
            dt = np.datetime64(obj)
            return self._datetime(int(dt.astype(np.int64)), str(np.dtype(dt)))
        if isinstance(obj, np.datetime64):
            return self._datetime(int(obj.astype(np.int64)), str(obj.dtype))
        raise ValueError("cannot convert %r (type %s) to an array element" % (obj, type(obj).__name__))

    def timedelta(self, obj):
        # builder_timedelta
        if isinstance(obj, str):
            dt = np.timedelta64(obj)
            return self._timedelta(int(dt.astype(np.int64)), str(np.dtype(dt)))
        if isinstance(obj, np.timedelta64):
            return self._timedelta(int(obj.astype(np.int64)), str(obj.dtype))
        raise ValueError("cannot convert %r (type %s) to an array element" % (obj, type(obj).__name__))

    def _datetime(self, x, unit):
        call("ab_datetime", [self._h], [x], ss=[unit])

    def _timedelta(self, x, unit):
        call("ab_timedelta", [self._h], [x], ss=[unit])

    def bytestring(self, x):
        if not isinstance(x, bytes):
            raise TypeError("bytestring(): incompatible function arguments")
        if self._via == "capi":
            return self._c("bytestring_length", [ctypes.c_char_p, ctypes.c_int64], [x, len(x)])
        call("ab_bytestring", [self._h], ss=[x])

    def string(self, x):
        if not isinstance(x, str):
            raise TypeError("string(): incompatible function arguments")
        raw = x.encode("utf-8", "surrogateescape")
        if self._via == "capi":
            return self._c("string_length", [ctypes.c_char_p, ctypes.c_int64], [raw, len(raw)])
        call("ab_string", [self._h], ss=[raw])

    # ---- structure
    def beginlist(self):
        if self._via == "capi":
            return self._c("beginlist")
        call("ab_beginlist", [self._h])

    def endlist(self):
        if self._via == "capi":
            return self._c("endlist")
        call("ab_endlist", [self._h])

    def begintuple(self, numfields):
        numfields = _int64(numfields)
        if self._via == "capi":
            return self._c("begintuple", [ctypes.c_int64], [numfields])
        call("ab_begintuple", [self._h], [numfields])

    def index(self, index):
        index = _int64(index)
        if self._via == "capi":
            return self._c("index", [ctypes.c_int64], [index])
        call("ab_index", [self._h], [index])

    def endtuple(self):
        if self._via == "capi":
            return self._c("endtuple")
        call("ab_endtuple", [self._h])

    def beginrecord(self, name=None):
        if name is None:
            if self._via == "capi":
                return self._c("beginrecord")
            return call("ab_beginrecord", [self._h])
        if not isinstance(name, str):
            raise TypeError("beginrecord(): name must be a str or None")
        if self._via == "capi":
            return self._c("beginrecord_check", [ctypes.c_char_p], [name.encode("utf-8")])
        call("ab_beginrecord_check", [self._h], ss=[name])

    def beginrecord_fast(self, name=None):
        """not in pybind: ArrayBuilder::beginrecord_fast (names compared by address; the bridge interns them)"""
        call("ab_beginrecord_fast", [self._h], [1 if name is None else 0], ss=[name or ""])

    def field(self, x):
        if not isinstance(x, str):
            raise TypeError("field(): incompatible function arguments")
        if self._via == "capi":
            return self._c("field_check", [ctypes.c_char_p], [x.encode("utf-8")])
        call("ab_field_check", [self._h], ss=[x])

    def field_fast(self, x):
        """not in pybind: ArrayBuilder::field_fast"""
        call("ab_field_fast", [self._h], ss=[x])

    def endrecord(self):
        if self._via == "capi":
            return self._c("endrecord")
        call("ab_endrecord", [self._h])

    def append(self, array, at):
        array = _layout()._unbox(array)
        call("ab_append", [self._h, array._h], [_int64(at)])

    def extend(self, array):
        array = _layout()._unbox(array)
        call("ab_extend", [self._h, array._h])

    # ---- builder_fromiter (src/python/content.cpp), branch for branch
    def fromiter(self, obj):
        if obj is None:
            self.null()
        elif isinstance(obj, bool):
            self.boolean(obj)
        elif isinstance(obj, int):
            self.integer(obj)
        elif isinstance(obj, float):
            self.real(obj)
        elif isinstance(obj, complex):
            self.complex(obj)
        elif isinstance(obj, bytes):
            self.bytestring(obj)
        elif isinstance(obj, str):
            self.string(obj)
        elif isinstance(obj, tuple):
            self.begintuple(len(obj))
            for i, x in enumerate(obj):
                self.index(i)
                self.fromiter(x)
            self.endtuple()
        elif isinstance(obj, dict):
            self.beginrecord()
            for k, v in obj.items():
                if not isinstance(k, str):
                    raise ValueError("keys of dicts in 'fromiter' must all be strings")
                self.field(k)
                self.fromiter(v)
            self.endrecord()
        elif hasattr(obj, "__iter__") and not isinstance(obj, np.generic):
            # py::isinstance<py::iterable>; numpy arrays are iterable and end up here as well
            self.beginlist()
            for x in obj:
                self.fromiter(x)
            self.endlist()
        elif isinstance(obj, np.ndarray):
            self.fromiter(obj.tolist())
        elif isinstance(obj, np.datetime64):
            self.datetime(obj)
        elif isinstance(obj, np.timedelta64):
            self.timedelta(obj)
        elif isinstance(obj, np.bool_):
            self.boolean(bool(obj))
        elif isinstance(obj, np.integer):
            self.integer(int(obj))
        elif isinstance(obj, np.floating):
            self.real(float(obj))
        else:
            raise ValueError("cannot convert %r (type %s) to an array element" % (obj, type(obj).__name__))


class LayoutBuilder(object):
    def __init__(self, form, initial=8, resize=1.5, vm_init=True):
        self._h = None
        if isinstance(form, str):
            self._h = call("lb_new", [], [_int64(initial), 1 if vm_init else 0], [float(resize)], ss=[form]).i
        elif hasattr(form, "_h"):
            self._h = call("lb_new", [form._h], [_int64(initial), 1 if vm_init else 0], [float(resize)]).i
        else:
            raise TypeError("LayoutBuilder(): form must be a Form (or, in this emulation, its JSON text)")

    def __del__(self):
        if self._h is not None:
            try:
                call("lb_release", [self._h])
            except Exception:
                pass

    @property
    def _ptr(self):
        return call("lb_ptr", [self._h]).i

    def __repr__(self):
        return result_str(call("lb_tostring", [self._h]))

    def __len__(self):
        return call("lb_length", [self._h]).i

    def type(self, typestrs=None):
        from akshim import typesforms
        return typesforms.wrap_type(call("lb_type", [self._h]).h, typestrs)

    def typestr(self):
        return result_str(call("lb_typestr", [self._h]))

    def snapshot(self):
        return _layout().box(call("lb_snapshot", [self._h]).h)

    def __getitem__(self, where):
        return self.snapshot()[where]

    def __iter__(self):
        return _layout().Iterator(self.snapshot())

    def null(self):
        call("lb_null", [self._h])

    def boolean(self, x):
        call("lb_boolean", [self._h], [1 if x else 0])

    def int64(self, x):
        call("lb_int64", [self._h], [_int64(x)])

    def float64(self, x):
        call("lb_float64", [self._h], da=[float(x)])

    def complex(self, x):
        x = complex(x)
        call("lb_complex", [self._h], da=[x.real, x.imag])

    def bytestring(self, x):
        if not isinstance(x, bytes):
            raise TypeError("bytestring(): incompatible function arguments")
        call("lb_bytestring", [self._h], ss=[x])

    def string(self, x):
        if not isinstance(x, str):
            raise TypeError("string(): incompatible function arguments")
        call("lb_string", [self._h], ss=[x.encode("utf-8", "surrogateescape")])

    def begin_list(self):
        call("lb_begin_list", [self._h])

    def end_list(self):
        call("lb_end_list", [self._h])

    def tag(self, tag):
        call("lb_tag", [self._h], [_int64(tag)])

    def index(self, x):
        """C++ only (LayoutBuilder::index); pybind does not expose it"""
        call("lb_index", [self._h], [_int64(x)])

    def vm_source(self):
        return result_str(call("lb_vm_source", [self._h]))

    def form(self):
        from akshim import typesforms
        return typesforms.wrap_form(call("lb_form", [self._h]).h)

    def form_json(self, verbose=False):
        return result_str(call("lb_form_json", [self._h], [1 if verbose else 0]))


ArrayBuilder.__module__ = "awkward._ext"
LayoutBuilder.__module__ = "awkward._ext"
