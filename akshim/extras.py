"""Members of awkward._ext that live in optional akshim modules (builders, virtual arrays, partitions, JSON input,
Forth).  populate(m) installs what is available and placeholders that raise for the rest."""
import importlib


class kernel_lib(object):
    """py::enum_ kernel::lib"""
    cpu = "cpu"
    cuda = "cuda"


def _placeholder(name):
    def __init__(self, *a, **k):
        raise NotImplementedError("awkward._ext.%s is not available in the /verif emulation" % name)
    return type(name, (object,), {"__init__": __init__, "__module__": "awkward._ext"})


WANTED = {
    "akshim.builder": ["ArrayBuilder", "LayoutBuilder"],
    "akshim.virtual": ["VirtualArray", "ArrayGenerator", "SliceGenerator", "ArrayCache", "PartitionedArray", "IrregularlyPartitionedArray"],
    "akshim.jsonio": ["fromjson", "fromjsonfile"],
    "akshim.forth": ["ForthMachine32", "ForthMachine64"],
}


def populate(m):
    m.kernel_lib = kernel_lib
    for name in ("Identities32", "Identities64"):
        setattr(m, name, _placeholder(name))
    for modname, names in WANTED.items():
        try:
            mod = importlib.import_module(modname)
        except ImportError:
            mod = None
        for n in names:
            obj = getattr(mod, n, None) if mod is not None else None
            if obj is None:
                if getattr(m, n, None) is None or n in ("ArrayBuilder", "VirtualArray"):
                    obj = _placeholder(n)
                else:
                    continue
            setattr(m, n, obj)
