"""Installs the /verif emulation as `awkward._ext` so that the unmodified Python layer /repo/src/awkward runs on the
libawkward built from /repo (tier P of DESIGN.md).

    from akshim import ext; ak = ext.install()

The emulation re-states the pybind11 binding (src/python/*.cpp) from its source text: it is a *model of the binding*,
part of the trusted base of every tier-P check, never evidence about the binding itself.
"""
import importlib.abc
import importlib.machinery
import os
import sys
import types

from vlib.common import REPO, build_dir

_installed = [None]


def _patch_numba():
    """numba 0.67 changed cgutils.pointer_add to require a real LLVM pointer; the 1.4.0 connector passes integer
    addresses (as the numba of its time allowed).  Restore numba's own historical definition (harness side)."""
    try:
        from numba.core import cgutils
        from llvmlite import ir
    except Exception:  # noqa: B902
        return

    def pointer_add(builder, ptr, offset, return_type=None):
        intptr = builder.ptrtoint(ptr, cgutils.intp_t) if isinstance(ptr.type, ir.PointerType) else ptr
        if isinstance(offset, int):
            offset = cgutils.intp_t(offset)
        intptr = builder.add(intptr, offset)
        return builder.inttoptr(intptr, return_type or ptr.type)

    cgutils.pointer_add = pointer_add


def install(flavour=None):
    if _installed[0] is not None:
        return _installed[0]
    flavour = flavour or os.environ.get("VERIF_FLAVOUR", "plain")
    libdir = build_dir(flavour)
    for k in list(sys.modules):
        if k == "awkward" or k.startswith("awkward."):
            raise RuntimeError("another awkward is already imported: " + repr(sys.modules[k]))
    pr = types.ModuleType("pkg_resources")
    pr.resource_filename = lambda pkg, name: os.path.join(libdir, name)
    sys.modules.setdefault("pkg_resources", pr)
    src = os.path.join(REPO, "src")
    if src not in sys.path:
        sys.path.insert(0, src)
    _patch_numba()

    from akshim import layout as L
    from akshim import typesforms as TF

    class _ContentMeta(type):
        # in the binding, Record is NOT a Python subclass of Content (py::class_<ak::Record> has no base)
        def __instancecheck__(cls, obj):
            return isinstance(obj, L.Content) and not isinstance(obj, L.Record)

        def __subclasscheck__(cls, sub):
            return isinstance(sub, type) and issubclass(sub, L.Content) and not issubclass(sub, L.Record)

    class Content(object, metaclass=_ContentMeta):
        __module__ = "awkward._ext"

        def __init__(self, *a, **k):
            raise TypeError("awkward._ext.Content: No constructor defined!")

    class Loader(importlib.abc.Loader):
        def create_module(self, spec):
            return None

        def exec_module(self, m):
            m.__version__ = "1.4.0"
            m.startup = lambda: None
            for name, cls in L._CLASSES.items():
                setattr(m, name, cls)
            for name in ("Index8", "IndexU8", "Index32", "IndexU32", "Index64", "Iterator", "_PersistentSharedPtr"):
                setattr(m, name, getattr(L, name))
            for name, cls in list(TF._TYPES.items()) + list(TF._FORMS.items()):
                setattr(m, name, cls)
            m.Content = Content
            m.Type = TF.Type
            m.Form = TF.Form
            m._slice_tostring = L._slice_tostring
            from akshim import extras
            extras.populate(m)

    class Finder(importlib.abc.MetaPathFinder):
        def find_spec(self, fullname, path, target=None):
            if fullname == "awkward._ext":
                return importlib.machinery.ModuleSpec(fullname, Loader())
            return None

    sys.meta_path.insert(0, Finder())
    import awkward
    if not awkward.__file__.startswith(src):
        raise RuntimeError("imported the wrong awkward: " + awkward.__file__)
    L.HIGHLEVEL = awkward
    _installed[0] = awkward
    return awkward
