// libFuzzer target for property C19 (thorough tier, san flavour).  The oracle is inside the target (model-free relations):
//
//   bytes -> machine options + AwkwardForth source (a phrase table decoded with a block stack, so that most programs are
//            well-formed; a "raw" mode writes the phrases as they come for the compile-error half) + bytes of the input "x"
//
//   * the source compiles on ForthMachine32 iff it compiles on ForthMachine64; a rejection is std::invalid_argument or
//     std::out_of_range (stoul on an over-long literal), nothing else;
//   * execution A: begin + step() until done/error within STEP_BUDGET steps (the machine's own step budget - no wall clock).
//     Programs that do not finish within the budget are not judged further (they may be endless);
//   * execution B: begin + resume() until done/error, on a machine with other output-buffer growth settings.  Since A finished,
//     B must finish too (an endless B is reported by libFuzzer's -timeout) and must agree with A on error, stack, variables,
//     outputs (dtype, length, bytes) and input positions: single-stepping == run/pause/resume, independence of buffer growth;
//   * B again on the same machine: determinism;
//   * decompiled() compiles, decompiles to the same text again and run B-style agrees with B.
//   Every fault must be an error code; crashes and sanitizer reports end the process.
// Oracle failures print "ORACLE: ..." and abort, so that libFuzzer stores the input as a crash artifact.
//
// The instrumented forth translation units of this executable are built without the signed-overflow / shift / bool checks of
// UBSan: wraparound arithmetic is the documented behaviour of the language (implemented with signed overflow, a recorded finding),
// and a fuzzer would otherwise stop at "2147483647 1+" for ever (see build/fuzz_forth.mk).
#include <cstdint>
#include <cstdio>
#include <cstdlib>
#include <cstring>
#include <map>
#include <memory>
#include <sstream>
#include <stdexcept>
#include <string>
#include <vector>

#include "awkward/array/NumpyArray.h"
#include "awkward/forth/ForthInputBuffer.h"
#include "awkward/forth/ForthMachine.h"
#include "awkward/forth/ForthOutputBuffer.h"

namespace ak = awkward;

static const int64_t STEP_BUDGET = 4000;
static const int64_t RESUME_BUDGET = 4000;

static const char* DTYPES[] = {"bool", "int8", "int16", "int32", "int64", "uint8", "uint16", "uint32", "uint64", "float32", "float64"};

// phrases: plain ones are copied; the ones starting with '@' are structure commands handled by the decoder
static const char* PHRASES[] = {
  // literals
  "0", "1", "-1", "2", "3", "5", "7", "10", "-3", "100", "255", "256", "-128", "32767", "65536", "2147483647", "-2147483648", "0x10", "46341",
  // stack / arithmetic / comparison / bitwise
  "dup", "drop", "swap", "over", "rot", "nip", "tuck", "+", "-", "*", "/", "mod", "/mod", "negate", "1+", "1-", "abs", "min", "max",
  "=", "<>", ">", ">=", "<", "<=", "0=", "invert", "and", "or", "xor", "lshift", "rshift", "true", "false",
  // variables
  "v !", "v +!", "v @", "w !", "w @",
  // input
  "x len", "x pos", "x end", "x seek", "x skip",
  "x ?-> stack", "x b-> stack", "x h-> stack", "x i-> stack", "x q-> stack", "x n-> stack", "x B-> stack", "x H-> stack", "x I-> stack",
  "x Q-> stack", "x N-> stack", "x f-> stack", "x d-> stack", "x !h-> stack", "x !i-> stack", "x !q-> stack", "x !H-> stack", "x !I-> stack",
  "x !Q-> stack", "x !f-> stack", "x !d-> stack", "x varint-> stack", "x zigzag-> stack", "x 3bit-> stack", "x !5bit-> stack", "x 12bit-> stack",
  "x #b-> stack", "x #!h-> stack", "x #i-> stack", "x #!q-> stack", "x #B-> stack", "x #d-> stack", "x #varint-> stack", "x #zigzag-> stack",
  "x #4bit-> stack", "x #!7bit-> stack",
  "x ?-> y", "x b-> y", "x h-> y", "x i-> y", "x q-> y", "x B-> y", "x H-> y", "x I-> y", "x Q-> y", "x f-> y", "x d-> y", "x n-> y", "x N-> y",
  "x !h-> y", "x !i-> y", "x !q-> y", "x !I-> y", "x !f-> y", "x !d-> y", "x varint-> y", "x zigzag-> y", "x 6bit-> y",
  "x #b-> y", "x #h-> y", "x #!h-> y", "x #i-> y", "x #!i-> y", "x #q-> y", "x #!q-> y", "x #H-> y", "x #!I-> y", "x #f-> y", "x #!f-> y", "x #d-> y",
  "x #!d-> y", "x #varint-> y", "x #zigzag-> y", "x #2bit-> y", "x i-> z", "x #!d-> z", "x #B-> z",
  // output
  "y <- stack", "y +<- stack", "y len", "y rewind", "15 and y dup",   // (count masked: an unbounded "dup" is an unbounded allocation)
  "z <- stack", "z +<- stack", "z len", "z rewind",
  // control (decoder commands)
  "@if", "@else", "@then", "@do", "@loop", "@+loop", "@begin", "@until", "@again", "@while", "@repeat", "@i", "@j", "@def", "@enddef", "@call0",
  "@call1", "@recurse", "@exit", "pause", "halt", "@if", "@then", "@do", "@loop", "@begin", "@until", "@i",
  // fringe
  "cr", ".s", "( comment )", "s\" text\"", ".\" \"",
};
static const size_t NPHRASES = sizeof(PHRASES) / sizeof(PHRASES[0]);

struct Decoded {
  int bits;
  int64_t stack_size, recursion;
  int64_t init_a; double factor_a;
  std::string source;
  std::string input;
};

static Decoded decode(const uint8_t* data, size_t size) {
  Decoded d;
  uint8_t b0 = size > 0 ? data[0] : 0, b1 = size > 1 ? data[1] : 0;
  static const int64_t STACKS[] = {1024, 16, 4, 2};
  static const int64_t RECS[] = {64, 8, 3, 1024};
  static const int64_t INITS[] = {1, 2, 3, 16};
  static const double FACTORS[] = {1.1, 1.5, 2.0, 1.01};
  d.bits = (b0 & 1) ? 64 : 32;
  d.stack_size = STACKS[(b0 >> 1) & 3];
  d.recursion = RECS[(b0 >> 3) & 3];
  bool raw = ((b0 >> 5) & 7) == 7;
  d.init_a = INITS[b1 & 3];
  d.factor_a = FACTORS[(b1 >> 2) & 3];
  std::string dtype = DTYPES[(b1 >> 4) % 11];

  std::ostringstream src;
  src << "variable v variable w input x output y " << dtype << " output z float64\n";
  std::vector<char> open;       // I if, E else, D do, B begin, W while, : definition
  int ndefs = 0;
  size_t p = 2;
  int emitted = 0;
  for (; p < size && emitted < 60; p++) {
    if (data[p] == 0xff) { p++; break; }
    std::string ph = PHRASES[data[p] % NPHRASES];
    if (ph[0] != '@') { src << ph << " "; emitted++; continue; }
    std::string cmd = ph.substr(1);
    if (raw) {
      if (cmd == "def") { src << ": d" << ndefs++ << " "; }
      else if (cmd == "enddef") { src << "; "; }
      else if (cmd == "call0") { src << "d0 "; }
      else if (cmd == "call1") { src << "d1 "; }
      else { src << cmd << " "; }
      emitted++;
      continue;
    }
    int dodepth = 0;
    bool indef = false;
    for (char c : open) { if (c == 'D') dodepth++; if (c == ':') { indef = true; } }
    // 'i' refers to the loops of the current definition only
    if (indef) { dodepth = 0; bool seen = false; for (char c : open) { if (c == ':') seen = true; else if (seen && c == 'D') dodepth++; } }
    char top = open.empty() ? 0 : open.back();
    if (cmd == "if") { src << "if "; open.push_back('I'); }
    else if (cmd == "else") { if (top == 'I') { src << "else "; open.back() = 'E'; } else continue; }
    else if (cmd == "then") { if (top == 'I' || top == 'E') { src << "then "; open.pop_back(); } else continue; }
    else if (cmd == "do") { src << "do "; open.push_back('D'); }
    else if (cmd == "loop" || cmd == "+loop") { if (top == 'D') { src << cmd << " "; open.pop_back(); } else continue; }
    else if (cmd == "begin") { src << "begin "; open.push_back('B'); }
    else if (cmd == "until" || cmd == "again") { if (top == 'B') { src << cmd << " "; open.pop_back(); } else continue; }
    else if (cmd == "while") { if (top == 'B') { src << "while "; open.back() = 'W'; } else continue; }
    else if (cmd == "repeat") { if (top == 'W') { src << "repeat "; open.pop_back(); } else continue; }
    else if (cmd == "i") { if (dodepth >= 1) src << "i "; else continue; }
    else if (cmd == "j") { if (dodepth >= 2) src << "j "; else continue; }
    else if (cmd == "def") { if (open.empty() && ndefs < 2) { src << ": d" << ndefs++ << " "; open.push_back(':'); } else continue; }
    else if (cmd == "enddef") { if (top == ':') { src << "; "; open.pop_back(); } else continue; }
    else if (cmd == "call0") { if (ndefs >= 1) src << "d0 "; else continue; }
    else if (cmd == "call1") { if (ndefs >= 2) src << "d1 "; else continue; }
    else if (cmd == "recurse") { if (indef) src << "recurse "; else continue; }
    else if (cmd == "exit") { src << "exit "; }
    emitted++;
  }
  while (!open.empty()) {
    switch (open.back()) {
      case 'I': case 'E': src << "then "; break;
      case 'D': src << "loop "; break;
      case 'B': src << "0= until "; break;
      case 'W': src << "repeat "; break;
      case ':': src << "; "; break;
    }
    open.pop_back();
  }
  d.source = src.str();
  if (p < size) d.input.assign(reinterpret_cast<const char*>(data + p), size - p);
  return d;
}

struct Snapshot {
  int64_t err;
  bool done;
  std::vector<int64_t> stack;
  std::vector<int64_t> vars;
  std::vector<std::string> outs;     // dtype name + ':' + raw bytes
  std::vector<int64_t> positions;
  std::string text() const {
    std::ostringstream o;
    o << "err=" << err << " done=" << done << " stack=[";
    for (auto v : stack) o << v << " ";
    o << "] vars=[";
    for (auto v : vars) o << v << " ";
    o << "] pos=[";
    for (auto v : positions) o << v << " ";
    o << "] outs=[";
    for (auto const& s : outs) {
      o << s.substr(0, s.find(':')) << ":";
      for (size_t i = s.find(':') + 1; i < s.size() && i < s.find(':') + 65; i++) { char b[4]; std::snprintf(b, sizeof b, "%02x", (unsigned char)s[i]); o << b; }
      o << "(" << (s.size() - s.find(':') - 1) << " bytes) ";
    }
    o << "]";
    return o.str();
  }
  bool operator==(const Snapshot& other) const {
    return err == other.err && done == other.done && stack == other.stack && vars == other.vars && outs == other.outs && positions == other.positions;
  }
};

static void fail(const char* what, const Decoded& d, const std::string& a, const std::string& b) {
  std::fprintf(stderr, "ORACLE: %s\n  bits=%d stack=%lld recursion=%lld\n  source: %s\n  input: %zu bytes\n  first : %s\n  second: %s\n",
               what, d.bits, (long long)d.stack_size, (long long)d.recursion, d.source.c_str(), d.input.size(), a.c_str(), b.c_str());
  std::abort();
}

struct ByteDeleter { void operator()(uint8_t* p) const { delete [] p; } };

template <typename M>
static Snapshot observe(M& m, ak::util::ForthError err) {
  Snapshot s;
  s.err = (int64_t)err;
  s.done = m.is_done();
  for (auto v : m.stack()) s.stack.push_back((int64_t)v);
  for (auto const& name : m.variable_index()) s.vars.push_back((int64_t)m.variable_at(name));
  if (m.is_ready() || err == ak::util::ForthError::user_halt) {
    auto outs = m.outputs();
    for (auto const& name : m.output_index()) {
      auto it = outs.find(name);
      if (it == outs.end()) continue;
      int64_t len = it->second->len();
      if (len < 0) { s.outs.push_back("negative-length:"); continue; }
      ak::ContentPtr arr = it->second->toNumpyArray();
      ak::NumpyArray* raw = dynamic_cast<ak::NumpyArray*>(arr.get());
      std::string bytes = ak::util::dtype_to_name(raw->dtype()) + ":";
      bytes.append(reinterpret_cast<const char*>(raw->data()), (size_t)len * (size_t)raw->itemsize());
      s.outs.push_back(bytes);
    }
  }
  if (m.is_ready()) {
    try { s.positions.push_back(m.input_position_at("x")); }
    catch (std::invalid_argument&) { }
  }
  return s;
}

template <typename M>
static void begin_with(M& m, const Decoded& d, std::map<std::string, std::shared_ptr<ak::ForthInputBuffer>>& keep) {
  std::shared_ptr<uint8_t> buf(new uint8_t[d.input.size()], ByteDeleter());
  if (!d.input.empty()) std::memcpy(buf.get(), d.input.data(), d.input.size());
  keep.clear();
  keep["x"] = std::make_shared<ak::ForthInputBuffer>(std::shared_ptr<void>(buf), 0, (int64_t)d.input.size());
  m.begin(keep);
}

// begin + resume until done or error; false if the pause budget is exhausted
template <typename M>
static bool run_resuming(M& m, const Decoded& d, std::map<std::string, std::shared_ptr<ak::ForthInputBuffer>>& keep, Snapshot* out) {
  begin_with(m, d, keep);
  ak::util::ForthError err = ak::util::ForthError::none;
  for (int64_t k = 0; k < RESUME_BUDGET; k++) {
    if (m.is_done()) { *out = observe(m, err); return true; }
    err = m.resume();
    if (err != ak::util::ForthError::none) { *out = observe(m, err); return true; }
  }
  if (m.is_done()) { *out = observe(m, err); return true; }
  return false;
}

template <typename M, typename OTHER>
static void test_one(const Decoded& d) {
  std::string error, error_other;
  std::shared_ptr<M> a, b;
  try { a = std::make_shared<M>(d.source, d.stack_size, d.recursion, d.init_a, d.factor_a); }
  catch (std::invalid_argument&) { error = "invalid_argument"; }
  catch (std::out_of_range&) { error = "out_of_range"; }
  {
    std::shared_ptr<OTHER> o;
    try { o = std::make_shared<OTHER>(d.source, d.stack_size, d.recursion, d.init_a, d.factor_a); }
    catch (std::invalid_argument&) { error_other = "invalid_argument"; }
    catch (std::out_of_range&) { error_other = "out_of_range"; }
    if ((a == nullptr) != (o == nullptr)) fail("ForthMachine32 and ForthMachine64 disagree on whether the source compiles", d, error, error_other);
  }
  if (a == nullptr) return;

  // A: single steps, the machine's own step budget
  std::map<std::string, std::shared_ptr<ak::ForthInputBuffer>> keep_a, keep_b, keep_c;
  begin_with(*a, d, keep_a);
  ak::util::ForthError err = ak::util::ForthError::none;
  bool finished = a->is_done();
  for (int64_t k = 0; k < STEP_BUDGET && !finished; k++) {
    err = a->step();
    if (err != ak::util::ForthError::none || a->is_done()) finished = true;
  }
  if (!finished) return;        // possibly endless: not judged
  Snapshot sa = observe(*a, err);

  // B: run / pause / resume, other growth settings
  b = std::make_shared<M>(d.source, d.stack_size, d.recursion, 1024, 1.5);
  Snapshot sb;
  if (!run_resuming(*b, d, keep_b, &sb)) fail("single-stepping finishes but run/resume is still pausing after the resume budget", d, sa.text(), "");
  if (!(sa == sb)) fail("single-stepping and run/resume (other output growth settings) end in different states", d, sa.text(), sb.text());

  // determinism: the same machine once more
  Snapshot sb2;
  if (!run_resuming(*b, d, keep_b, &sb2)) fail("second run on the same machine does not finish", d, sb.text(), "");
  if (!(sb == sb2)) fail("two runs of the same machine on the same input differ", d, sb.text(), sb2.text());

  // decompiled text compiles, is a fixed point, and behaves identically
  std::string text = b->decompiled();
  std::shared_ptr<M> c;
  try { c = std::make_shared<M>(text, d.stack_size, d.recursion, d.init_a, d.factor_a); }
  catch (std::invalid_argument& e) { fail("decompiled() text does not compile", d, text, e.what()); }
  catch (std::out_of_range& e) { fail("decompiled() text does not compile", d, text, e.what()); }
  std::string text2 = c->decompiled();
  if (text2 != text) fail("decompiling the recompiled decompiled text gives another text", d, text, text2);
  Snapshot sc;
  if (!run_resuming(*c, d, keep_c, &sc)) fail("the decompiled program does not finish", d, text, "");
  if (!(sb == sc)) fail("the decompiled program behaves differently", d, sb.text(), sc.text() + "\n  decompiled: " + text);
}

extern "C" int LLVMFuzzerTestOneInput(const uint8_t* data, size_t size) {
  if (size < 3) return 0;
  Decoded d = decode(data, size);
  if (std::getenv("FUZZ_FORTH_PRINT") != nullptr) {
    std::fprintf(stderr, "bits=%d stack=%lld recursion=%lld init=%lld factor=%g input=%zu bytes\nsource: %s\n",
                 d.bits, (long long)d.stack_size, (long long)d.recursion, (long long)d.init_a, d.factor_a, d.input.size(), d.source.c_str());
  }
  if (d.bits == 32) test_one<ak::ForthMachine32, ak::ForthMachine64>(d);
  else test_one<ak::ForthMachine64, ak::ForthMachine32>(d);
  return 0;
}
