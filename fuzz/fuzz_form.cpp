// libFuzzer target for property C17 (thorough tier, san flavour).  The oracle is inside the target:
//   bytes -> Form::fromjson
//     rejected with invalid_argument / runtime_error: fine.  Any other exception, crash or sanitizer report: failure.
//     accepted: v1 = tojson(verbose), n1 = tojson(terse), pretty printing must not fail, type() gives a type or a clean error;
//       if the form describes an array class of the library (no "Unrecognized..." class, no unnamed primitive - the reader is
//       lenient about index widths that no class has; the property does not speak about those):
//         g = fromjson(v1), h = fromjson(n1) must be accepted;  tojson(g, verbose) == tojson(h, verbose) == v1 (fixed point);
//         Form::equal(f, g) and Form::equal(f, h) with identities, parameters and form keys compared;
//         type(f), type(g), type(h) print identically.
// Oracle failures print "ORACLE: ..." and abort, so that libFuzzer stores the input as a crash artifact.
#include <cstdint>
#include <cstdio>
#include <cstdlib>
#include <cstring>
#include <unistd.h>
#include <map>
#include <set>
#include <stdexcept>
#include <string>

#include "awkward/Content.h"
#include "awkward/type/Type.h"
#include "awkward/util.h"
#include "awkward/array/NumpyArray.h"
#include "awkward/array/RegularArray.h"
#include "awkward/array/ListArray.h"
#include "awkward/array/ListOffsetArray.h"
#include "awkward/array/IndexedArray.h"
#include "awkward/array/ByteMaskedArray.h"
#include "awkward/array/BitMaskedArray.h"
#include "awkward/array/UnmaskedArray.h"
#include "awkward/array/RecordArray.h"
#include "awkward/array/UnionArray.h"
#include "awkward/array/VirtualArray.h"

namespace ak = awkward;

static void fail(const char* what, const std::string& a, const std::string& b) {
  std::fprintf(stderr, "ORACLE: %s\n  first : %s\n  second: %s\n", what, a.c_str(), b.c_str());
  std::abort();
}

// the type string of a form, or "<no type>" when Form::type refuses cleanly (a VirtualForm without an inner form, a NumpyForm
// without a primitive): a documented error, which must then be the same before and after the round trip
static std::string typestring(const ak::FormPtr& f) {
  ak::util::TypeStrs typestrs;
  typestrs["Point"] = "PointT";
  try {
    return f->type(typestrs)->tostring();
  }
  catch (std::invalid_argument&) { return "<no type>"; }
  catch (std::runtime_error&) { return "<no type>"; }
}

// Forms that are printed but not round-tripped here:
//  * known finding numpyform_format_lost (known_findings.jsonl): a NumpyForm whose format is not the canonical spelling of its
//    primitive on this platform is re-read with the canonical one;
//  * forms that describe no array of the library although the lenient reader builds them (an itemsize that is not the
//    primitive's, a ListArray with starts and stops of different widths, masks/tags of another width than every class has, a record with two fields of the same name; index widths without a class are recognised by the
//    "Unrecognized..." class name in the caller).
static bool outside_scope(const ak::FormPtr& f) {
  if (f.get() == nullptr) return false;
  if (ak::NumpyForm* r = dynamic_cast<ak::NumpyForm*>(f.get())) {
    return r->format() != ak::util::dtype_to_format(r->dtype())  ||       // the known finding
           r->itemsize() != ak::util::dtype_to_itemsize(r->dtype());      // no array has an itemsize other than its primitive's
  }
  if (ak::RegularForm* r = dynamic_cast<ak::RegularForm*>(f.get())) return outside_scope(r->content());
  if (ak::ListForm* r = dynamic_cast<ak::ListForm*>(f.get())) {
    return r->starts() != r->stops()  ||  outside_scope(r->content());    // no ListArray class has starts and stops of different widths
  }
  if (ak::ListOffsetForm* r = dynamic_cast<ak::ListOffsetForm*>(f.get())) return outside_scope(r->content());
  if (ak::IndexedForm* r = dynamic_cast<ak::IndexedForm*>(f.get())) return outside_scope(r->content());
  if (ak::IndexedOptionForm* r = dynamic_cast<ak::IndexedOptionForm*>(f.get())) return outside_scope(r->content());
  if (ak::ByteMaskedForm* r = dynamic_cast<ak::ByteMaskedForm*>(f.get())) return r->mask() != ak::Index::Form::i8  ||  outside_scope(r->content());
  if (ak::BitMaskedForm* r = dynamic_cast<ak::BitMaskedForm*>(f.get())) return r->mask() != ak::Index::Form::u8  ||  outside_scope(r->content());
  if (ak::UnmaskedForm* r = dynamic_cast<ak::UnmaskedForm*>(f.get())) return outside_scope(r->content());
  if (ak::VirtualForm* r = dynamic_cast<ak::VirtualForm*>(f.get())) return outside_scope(r->form());
  if (ak::RecordForm* r = dynamic_cast<ak::RecordForm*>(f.get())) {
    if (r->recordlookup().get() != nullptr) {                            // a record has one field per name
      std::set<std::string> names(r->recordlookup()->begin(), r->recordlookup()->end());
      if (names.size() != r->recordlookup()->size()) return true;
    }
    for (auto c : r->contents()) if (outside_scope(c)) return true;
    return false;
  }
  if (ak::UnionForm* r = dynamic_cast<ak::UnionForm*>(f.get())) {
    if (r->tags() != ak::Index::Form::i8) return true;                   // every UnionArray class has 8-bit tags
    for (auto c : r->contents()) if (outside_scope(c)) return true;
    return false;
  }
  return false;
}

// Content.cpp is linked twice (instrumented in this executable, plain in libawkward.so), so its global `awkward::none` would be
// destroyed twice by the exit handlers.  A normal exit (all runs done, nothing found) therefore leaves through _exit; this
// handler is registered after the globals' destructors and so runs before them.  Failures never come here (abort / _Exit).
static void leave() { std::fflush(nullptr); _exit(0); }
extern "C" int LLVMFuzzerInitialize(int*, char***) { std::atexit(leave); return 0; }

extern "C" int LLVMFuzzerTestOneInput(const uint8_t* data, size_t size) {
  std::string text(reinterpret_cast<const char*>(data), size);
  text = std::string(text.c_str());            // a JSON text ends at its first NUL (C-string interface)

  ak::FormPtr f;
  try {
    f = ak::Form::fromjson(text);
  }
  catch (std::invalid_argument&) { return 0; }
  catch (std::runtime_error&) { return 0; }

  std::string v1, n1, p1, t1;
  try {
    v1 = f->tojson(false, true);
    n1 = f->tojson(false, false);
    p1 = f->tojson(true, false);
    t1 = typestring(f);
  }
  catch (std::exception& e) {
    fail("printing an accepted form (or its type) raises", text, e.what());
  }

  if (v1.find("\"Unrecognized") != std::string::npos  ||  v1.find("\"primitive\":null") != std::string::npos  ||
      v1.find("\"primitive\":\"unknown\"") != std::string::npos) {
    return 0;                                   // no array class has this form
  }
  if (outside_scope(f)) return 0;

  ak::FormPtr g, h;
  try {
    g = ak::Form::fromjson(v1);
  }
  catch (std::exception& e) {
    fail("verbose tojson of an accepted form is rejected by fromjson", v1, e.what());
  }
  try {
    h = ak::Form::fromjson(n1);
  }
  catch (std::exception& e) {
    fail("terse tojson of an accepted form is rejected by fromjson", n1, e.what());
  }
  std::string v2 = g->tojson(false, true);
  std::string v3 = h->tojson(false, true);
  if (v1 != v2) fail("tojson(fromjson(tojson(f, verbose))) is not a fixed point", v1, v2);
  if (v1 != v3) fail("tojson(fromjson(tojson(f, terse))) differs from tojson(f)", v1, v3);
  if (!f->equal(g, true, true, true, false)  ||  !g->equal(f, true, true, true, false)) fail("fromjson(tojson(f, verbose)) is not Form::equal to f", v1, v2);
  if (!f->equal(h, true, true, true, false)  ||  !h->equal(f, true, true, true, false)) fail("fromjson(tojson(f, terse)) is not Form::equal to f", v1, v3);
  std::string t2 = typestring(g), t3 = typestring(h);
  if (t1 != t2  ||  t1 != t3) fail("the type of the form changes over Form -> JSON -> Form", t1, t1 != t2 ? t2 : t3);
  return 0;
}
