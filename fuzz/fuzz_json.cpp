// libFuzzer target for property C15 (thorough tier, san flavour).  The oracle is inside the target:
//   bytes -> FromJsonString (ArrayBuilder options derived from the input)
//     rejected with invalid_argument / runtime_error: fine.  Any other exception, crash or sanitizer report: failure.
//     accepted: t1 = tojson(a);  b = FromJsonString(t1) must be accepted;  t2 = tojson(b);  t1 == t2 (print/parse fixed point),
//               length(a) == length(b);  FromJsonFile over the same bytes (small read buffer) must agree with FromJsonString
//               in accept/reject and, if accepted, in tojson;
//               text + " [" and text + " ]" must be rejected; text + " 1 2 3" has one entry more than text + " 1 2".
// Oracle failures print "ORACLE: ..." and abort, so that libFuzzer stores the input as a crash artifact.
#include <cstdint>
#include <cstdio>
#include <cstdlib>
#include <cstring>
#include <stdexcept>
#include <string>

#include "awkward/Content.h"
#include "awkward/builder/ArrayBuilderOptions.h"
#include "awkward/io/json.h"

namespace ak = awkward;

static void fail(const char* what, const std::string& a, const std::string& b) {
  std::fprintf(stderr, "ORACLE: %s\n  first : %s\n  second: %s\n", what, a.c_str(), b.c_str());
  std::abort();
}

static std::string print(const ak::ContentPtr& c) {
  return c->tojson(false, -1, nullptr, nullptr, nullptr, nullptr, nullptr);
}

static bool accepts(const std::string& text, const ak::ArrayBuilderOptions& options) {
  try {
    ak::FromJsonString(text.c_str(), options, nullptr, nullptr, nullptr);
  }
  catch (std::invalid_argument&) { return false; }
  catch (std::runtime_error&) { return false; }
  return true;
}

extern "C" int LLVMFuzzerTestOneInput(const uint8_t* data, size_t size) {
  std::string text(reinterpret_cast<const char*>(data), size);
  text = std::string(text.c_str());            // a JSON text ends at its first NUL (C-string interface)
  ak::ArrayBuilderOptions options(1 + (int64_t)(size % 7), 1.5);

  ak::ContentPtr a;
  bool accepted = true;
  try {
    a = ak::FromJsonString(text.c_str(), options, nullptr, nullptr, nullptr);
  }
  catch (std::invalid_argument&) { accepted = false; }
  catch (std::runtime_error&) { accepted = false; }

  // the file reader over the same bytes
  if (!text.empty()) {
    FILE* f = fmemopen(const_cast<char*>(text.data()), text.size(), "rb");
    if (f != nullptr) {
      ak::ContentPtr fa;
      bool faccepted = true;
      try {
        fa = ak::FromJsonFile(f, options, 4 + (int64_t)(size % 5), nullptr, nullptr, nullptr);
      }
      catch (std::invalid_argument&) { faccepted = false; }
      catch (std::runtime_error&) { faccepted = false; }
      std::fclose(f);
      if (faccepted != accepted) fail("FromJsonFile and FromJsonString disagree on accepting the text", text, accepted ? "string accepts" : "file accepts");
      if (accepted) {
        std::string s1 = print(a), s2 = print(fa);
        if (s1 != s2) fail("FromJsonFile and FromJsonString build different arrays", s1, s2);
      }
    }
  }
  if (!accepted) return 0;

  std::string t1 = print(a);
  ak::ContentPtr b;
  try {
    b = ak::FromJsonString(t1.c_str(), options, nullptr, nullptr, nullptr);
  }
  catch (std::exception& e) {
    fail("tojson of an accepted text is rejected by FromJsonString", t1, e.what());
  }
  std::string t2 = print(b);
  if (t1 != t2) fail("tojson(FromJsonString(.)) is not a fixed point", t1, t2);
  if (a->length() != b->length()) fail("lengths differ after the round trip", t1, t2);

  // metamorphic checks of do_parse's multi-document loop: `text` is a sequence of complete documents, so
  //   text + " ["  ends inside a document           -> must be rejected
  //   text + " ]"  has a stray closing bracket       -> must be rejected
  //   text + " 1 2" and text + " 1 2 3" have k+2 and k+3 >= 2 documents -> arrays whose lengths differ by exactly one
  if (accepts(text + " [", options)) fail("accepted text followed by an unfinished array is accepted", text, "");
  if (accepts(text + " ]", options)) fail("accepted text followed by a stray ] is accepted", text, "");
  ak::ContentPtr p2, p3;
  try {
    p2 = ak::FromJsonString((text + " 1 2").c_str(), options, nullptr, nullptr, nullptr);
    p3 = ak::FromJsonString((text + " 1 2 3").c_str(), options, nullptr, nullptr, nullptr);
  }
  catch (std::exception& e) {
    fail("accepted text followed by further documents is rejected", text, e.what());
  }
  if (p3->length() != p2->length() + 1  ||  p2->length() < 2) {
    fail("concatenated documents do not yield one entry each", print(p2), print(p3));
  }
  return 0;
}
