"""Reference model for C10: record fields - keys, projection, zip/unzip, with_field - on (type, value) pairs.

Pure Python; imports nothing from the code under test.  Records are dicts in declaration order (tuples for unnamed
fields), exactly as akmodel.core.decode produces them.
"""
from akmodel import core as M


class NoRecord(Exception):
    """the type has no record reachable through lists/options (or, for unions, not in every member)"""


def names_of(R):
    """declared field names of a record type (tuples: '0', '1', ...)"""
    return [n for n, _ in R[1]]


def keys(T):
    """what Content::keys() documents: the record's field names seen through lists, options and indexed nodes;
    for a union the names common to all members, in the first member's order; [] where there is no record"""
    k = T[0]
    if k in ("list", "regular", "option"):
        return keys(T[1])
    if k == "record":
        return names_of(T)
    if k == "union":
        out = keys(T[1][0]) if T[1] else []
        for t in T[1][1:]:
            other = keys(t)
            out = [x for x in out if x in other]
        return out
    return []


def numfields(T):
    """-1 where there is no record (documented for non-record nodes), else the number of keys"""
    k = T[0]
    if k in ("list", "regular", "option"):
        return numfields(T[1])
    if k == "record":
        return len(T[1])
    if k == "union":
        return len(keys(T))
    return -1


def record_type(T):
    """the record type reached through lists and options only (None if a union or a leaf is met first)"""
    while T[0] in ("list", "regular", "option"):
        T = T[1]
    return T if T[0] == "record" else None


def project_type(T, name):
    k = T[0]
    if k in ("list", "regular"):
        return [k, project_type(T[1], name)] + T[2:]
    if k == "option":
        return M.option_of(project_type(T[1], name))
    if k == "record":
        for n, t in T[1]:
            if n == name:
                return t
        raise NoRecord("no field " + name)
    if k == "union":
        return M.union_of([project_type(t, name) for t in T[1]])
    raise NoRecord("not a record")


def project(v, name):
    """value of a[name]"""
    if v is None:
        return None
    if isinstance(v, dict):
        if name not in v:
            raise NoRecord("no field " + name)
        return v[name]
    if isinstance(v, tuple):
        if not name.isdigit() or not 0 <= int(name) < len(v) or str(int(name)) != name:
            raise NoRecord("no field " + name)
        return v[int(name)]
    if isinstance(v, list):
        return [project(x, name) for x in v]
    raise NoRecord("not a record")


def project_many(v, names):
    """value of a[[names]]: records restricted to those fields, in the order asked for"""
    if v is None:
        return None
    if isinstance(v, dict):
        for n in names:
            if n not in v:
                raise NoRecord("no field " + n)
        return {n: v[n] for n in names}
    if isinstance(v, tuple):
        for n in names:
            if not n.isdigit() or not 0 <= int(n) < len(v):
                raise NoRecord("no field " + n)
        return tuple(v[int(n)] for n in names)       # unnamed slots stay unnamed, in the order asked for
    if isinstance(v, list):
        return [project_many(x, names) for x in v]
    raise NoRecord("not a record")


def zip_fields(columns, names, length):
    """records built from equal-structure columns, trimmed to `length`: dicts in declaration order, tuples if names is None"""
    if names is None:
        return [tuple(c[i] for c in columns) for i in range(length)]
    return [{n: c[i] for n, c in zip(names, columns)} for i in range(length)]


def unzip(records, names, istuple):
    """the columns of a list of records"""
    if istuple:
        return [[r[i] for r in records] for i in range(len(names))]
    return [[r[n] for r in records] for n in names]


def with_field(records, names, istuple, where, column):
    """records after with_field(column, where): (new names or None for a tuple, new records).
    where None: a new unnamed slot (a tuple stays a tuple, a record gets the key str(number of fields));
    where str: replaces that field (the new field is declared last) or appends it; a tuple becomes a record whose
    old slots are named '0', '1', ..."""
    n = len(records)
    if len(column) < n:
        raise ValueError("column shorter than the record array")
    old = list(names)
    cols = unzip(records, names, istuple)
    if where is not None and where in old:
        i = old.index(where)
        del old[i]
        del cols[i]
    if istuple and where is None:
        newnames = None
    elif where is None:
        newnames = old + [str(len(old))]
    else:
        newnames = old + [where]
    cols = cols + [list(column[:n])]
    return newnames, zip_fields(cols, newnames, n)
