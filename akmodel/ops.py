"""Reference operations on (element type, list of values).  Pure Python, written from the documented
semantics (docstrings of ak.num/flatten/local_index/pad_none/fill_none/combinations/sort/argsort/reducers),
never from the C++.

Conventions: an *array* is (T, vals) with T the element type. Level 0 is the array itself; `axis=k` addresses the
lists found k levels down. Records are transparent for axes (the operation is applied to every field), options
pass None through, unions are handled member-wise.
"""
import itertools
import math

from akmodel import core as M

INT64_MAX = 2 ** 63 - 1
INT64_MIN = -2 ** 63


class ModelError(Exception):
    """the operation is an error for this input according to the documented semantics"""


class Unsupported(Exception):
    """the model does not define this case (counted as discarded by the checks, never compared)"""


# --------------------------------------------------------------------------- axis resolution
def resolve_axis(T, axis, lvl):
    """absolute level for `axis` seen from an array of element type T at absolute level lvl; None if it must be
    resolved deeper (branches of different depth with a negative axis)"""
    if axis >= 0:
        return axis
    mn, mx = M.minmax_depth(T)
    if mn == mx:
        out = lvl + mn + axis
        if out < lvl and lvl == 0:
            raise ModelError("axis out of range")
        return out
    if mn + axis == 0:
        raise ModelError("ambiguous axis for branches of different depth")
    return None


def apply_at(T, vals, axis, fn, lvl=0, through_records=False):
    """apply fn(T, vals, lvl) -> (T', vals') to every array found at absolute level `axis`.
    Returns (T', vals') for the whole structure."""
    abs_axis = resolve_axis(T, axis, lvl)
    if abs_axis is not None and abs_axis < lvl:
        raise ModelError("axis out of range")
    if abs_axis is not None and abs_axis == lvl:
        if not (through_records and M.strip_option(T)[0] == "record"):
            return fn(T, vals, lvl)
    ax = axis if abs_axis is None else abs_axis
    k = T[0]
    if k in ("list", "regular"):
        outs = []
        RT = None
        for v in vals:
            rt, rv = apply_at(T[1], v, ax, fn, lvl + 1, through_records)
            RT = rt
            outs.append(rv)
        if RT is None:
            RT, _ = apply_at(T[1], [], ax, fn, lvl + 1, through_records)
        return ([k, RT] + T[2:]) if k == "regular" else ["list", RT], outs
    if k == "option":
        present = [v for v in vals if v is not None]
        RT, rv = apply_at(T[1], present, ax, fn, lvl, through_records)
        it = iter(rv)
        return M.option_of(RT), [None if v is None else next(it) for v in vals]
    if k == "unknown":
        raise Unsupported("axis below an array of unknown type")
    if k == "record":
        fields, istuple = T[1], T[2]
        if not fields:
            raise Unsupported("axis below a record without fields")
        cols = []
        rts = []
        for i, (nm, ft) in enumerate(fields):
            col = [v[i] if istuple else v[nm] for v in vals]
            rt, rv = apply_at(ft, col, ax, fn, lvl, through_records)
            rts.append([nm, rt])
            cols.append(rv)
        n = len(vals)
        if istuple:
            out = [tuple(c[j] for c in cols) for j in range(n)]
        else:
            out = [{nm: c[j] for (nm, _), c in zip(fields, cols)} for j in range(n)]
        return ["record", rts, istuple, T[3]], out
    if k == "union":
        members = T[1]
        rts = []
        out = [None] * len(vals)
        which = [_member(T, v) for v in vals]
        for m, mt in enumerate(members):
            idx = [i for i, w in enumerate(which) if w == m]
            rt, rv = apply_at(mt, [vals[i] for i in idx], ax, fn, lvl, through_records)
            rts.append(rt)
            for i, r in zip(idx, rv):
                out[i] = r
        return M.union_of(rts), out
    raise ModelError("axis exceeds the depth of this array")


def _member(T, v):
    from akgen.gen import member_of
    return member_of(T, v)


def _need_list(T):
    inner = M.strip_option(T)
    if inner[0] == "union":
        members = [M.strip_option(t) for t in inner[1]]
        if all(t[0] in ("list", "regular") for t in members):
            return ["list", M.union_of([t[1] for t in members])]
        raise Unsupported("union of lists and non-lists at the axis")
    if inner[0] not in ("list", "regular"):
        raise ModelError("axis exceeds the depth of this array")
    return inner


# --------------------------------------------------------------------------- num / flatten / localindex
def num(T, vals, axis):
    if resolve_axis(T, axis, 0) == 0:
        return None, len(vals)

    def fn(T2, v2, lvl):
        _need_list(T2)
        out = [None if e is None else len(e) for e in v2]
        return (M.option_of(M.prim("int64")) if T2[0] == "option" else M.prim("int64")), out
    return _apply_parent(T, vals, axis, fn)


def _apply_parent(T, vals, axis, fn):
    """apply fn to the arrays whose *elements* are the lists addressed by axis, i.e. one level above `axis`
    (a branch of total depth d has absolute axis d + axis for negative axis; its parent is `axis - 1` either way)"""
    return apply_at(T, vals, axis - 1, fn, 0, True)


def flatten(T, vals, axis):
    if resolve_axis(T, axis, 0) == 0:
        raise ModelError("axis=0 not allowed for flatten")

    def fn(T2, v2, lvl):
        if M.strip_option(T2)[0] == "record":
            raise ModelError("arrays of records cannot be flattened")
        inner = _need_list(T2)
        out = [y for e in v2 if e is not None for y in e]
        return inner[1], out
    # flatten removes level `axis`: the arrays at level axis-1 have their elements (lists) concatenated;
    # fn returns a *new element type and values* for that array
    return apply_at(T, vals, axis - 1, fn)


def localindex(T, vals, axis):
    def fn(T2, v2, lvl):
        return M.prim("int64"), list(range(len(v2)))
    return apply_at(T, vals, axis, fn)


# --------------------------------------------------------------------------- pad / fill
def rpad(T, vals, target, axis, clip):
    def fn(T2, v2, lvl):
        out = list(v2) + [None] * max(0, target - len(v2))
        if clip:
            out = out[:target]
        return M.option_of(T2), out
    if resolve_axis(T, axis, 0) == 0:
        return fn(T, vals, 0)
    return apply_at(T, vals, axis, fn)


def fillna(T, vals, value, vtype):
    """Content::fillna: replace None by `value` at the first option level met on every path (it does not descend
    below an option it has filled; ak.fill_none applies it level by level)"""
    k = T[0]
    if k == "option":
        out = [value if v is None else v for v in vals]
        return M.union_of([T[1], vtype]) if T[1] != vtype else T[1], out
    if k in ("list", "regular"):
        outs = []
        RT = None
        for v in vals:
            rt, rv = fillna(T[1], v, value, vtype)
            RT = rt
            outs.append(rv)
        if RT is None:
            RT, _ = fillna(T[1], [], value, vtype)
        return [k, RT] + T[2:], outs
    if k == "record":
        fields, istuple = T[1], T[2]
        cols, rts = [], []
        for i, (nm, ft) in enumerate(fields):
            rt, rv = fillna(ft, [v[i] if istuple else v[nm] for v in vals], value, vtype)
            rts.append([nm, rt])
            cols.append(rv)
        n = len(vals)
        out = [tuple(c[j] for c in cols) for j in range(n)] if istuple else [{nm: c[j] for (nm, _), c in zip(fields, cols)} for j in range(n)]
        return ["record", rts, istuple, T[3]], out
    if k == "union":
        members = T[1]
        which = [_member(T, v) for v in vals]
        out = [None] * len(vals)
        rts = []
        for m, mt in enumerate(members):
            idx = [i for i, w in enumerate(which) if w == m]
            rt, rv = fillna(mt, [vals[i] for i in idx], value, vtype)
            rts.append(rt)
            for i, r in zip(idx, rv):
                out[i] = r
        return M.union_of(rts), out
    return T, list(vals)


# --------------------------------------------------------------------------- combinations
def combinations(T, vals, n, replacement, axis):
    if n < 1:
        raise ModelError("n must be at least 1")
    comb = itertools.combinations_with_replacement if replacement else itertools.combinations

    def fn(T2, v2, lvl):
        RT = ["record", [[str(i), T2] for i in range(n)], True, None]
        return RT, [tuple(t) for t in comb(v2, n)]
    if resolve_axis(T, axis, 0) == 0:
        return fn(T, vals, 0)
    return apply_at(T, vals, axis, fn)


# --------------------------------------------------------------------------- grouped operations (reduce, sort)
def _leaf_kind(T):
    k = T[0]
    if k == "prim":
        return T[1]
    if k == "option":
        return _leaf_kind(T[1])
    if k in ("list", "regular"):
        return _leaf_kind(T[1])
    return None


def identity(op, dt):
    if op in ("sum", "count", "count_nonzero"):
        return 0 if not dt.startswith("float") or op != "sum" else 0.0
    if op == "prod":
        return 1 if not dt.startswith("float") else 1.0
    if op == "any":
        return False
    if op == "all":
        return True
    if op in ("argmin", "argmax"):
        return -1
    if dt.startswith("float"):
        return math.inf if op == "min" else -math.inf
    import numpy as np
    if dt == "bool":
        return True if op == "min" else False
    info = np.iinfo(dt)
    return int(info.max) if op == "min" else int(info.min)


def reduce_result_dtype(op, dt):
    if op in ("count", "count_nonzero", "argmin", "argmax"):
        return "int64"
    if op in ("any", "all"):
        return "bool"
    if op in ("sum", "prod"):
        if dt == "bool":
            return "int64"
        if dt in ("int8", "int16", "int32", "int64"):
            return "int64"
        if dt in ("uint8", "uint16", "uint32", "uint64"):
            return "uint64"
        return dt
    return dt


def _wrap_int(v, dt):
    import numpy as np
    if dt.startswith(("int", "uint")):
        info = np.iinfo(dt)
        span = int(info.max) - int(info.min) + 1
        return (int(v) - int(info.min)) % span + int(info.min)
    return v


def _apply_reducer(op, pairs, mask, dt):
    """pairs: [(position along the reduced axis, leaf)] of the non-missing members of one group"""
    if not pairs:
        return None if mask else identity(op, dt)
    vs = [v for _, v in pairs]
    if op == "count":
        return len(vs)
    if op == "count_nonzero":
        return sum(1 for v in vs if v != 0)
    if op in ("sum", "prod") and dt == "float32":
        # the result buffer has the input's width: accumulate in that width, in position order, as the kernels do
        import numpy as np
        acc = np.float32(0.0 if op == "sum" else 1.0)
        with np.errstate(all="ignore"):
            for v in vs:
                acc = np.float32(acc + np.float32(v)) if op == "sum" else np.float32(acc * np.float32(v))
        return float(acc)
    if op == "sum":
        return _wrap_int(sum(int(v) if isinstance(v, bool) else v for v in vs), reduce_result_dtype(op, dt))
    if op == "prod":
        return _wrap_int(math.prod(int(v) if isinstance(v, bool) else v for v in vs), reduce_result_dtype(op, dt))
    if op == "any":
        return any(v != 0 for v in vs)
    if op == "all":
        return all(v != 0 for v in vs)
    if op == "min":
        return min(vs)
    if op == "max":
        return max(vs)
    if op == "argmin":
        best = min(vs)
        return [p for p, v in pairs if v == best][0]
    if op == "argmax":
        best = max(vs)
        return [p for p, v in pairs if v == best][0]
    raise ValueError(op)


def _merge_rows(ET, rows, op, mask, dt):
    """rows: [(position, element of type ET)] ; elements are left-aligned level by level down to the leaves"""
    k = ET[0]
    if k == "option":
        return _merge_rows(ET[1], [(p, e) for p, e in rows if e is not None], op, mask, dt)
    if k == "prim":
        return _apply_reducer(op, rows, mask, dt)
    if k in ("list", "regular"):
        n = max([len(e) for _, e in rows], default=0)
        outs = []
        for j in range(n):
            outs.append(_merge_rows(ET[1], [(p, e[j]) for p, e in rows if j < len(e)], op, mask, dt))
        return outs
    raise Unsupported("reduce across " + k)


def _merged_type(ET, op, mask):
    k = ET[0]
    if k == "option":
        return _merged_type(ET[1], op, mask)
    if k == "prim":
        t = M.prim(reduce_result_dtype(op, ET[1]))
        return M.option_of(t) if mask else t
    if k in ("list", "regular"):
        return ["list", _merged_type(ET[1], op, mask)]
    raise Unsupported("reduce across " + k)


def reduce(T, vals, op, axis, mask=False, keepdims=False):
    dt = _leaf_kind(T)
    if dt is None:
        raise Unsupported("reduce on non-numeric leaves")

    def fn(T2, v2, lvl):
        if T2[0] in ("record", "union"):
            raise Unsupported("reduce across record/union")
        out = _merge_rows(T2, list(enumerate(v2)), op, mask, dt)
        rt = _merged_type(T2, op, mask)
        if keepdims:
            return ["list", rt], [out]
        return rt, out
    # result of reducing an array at `axis` replaces that array by one merged element
    ax0 = resolve_axis(T, axis, 0)
    if ax0 == 0:
        return fn(T, vals, 0)
    return _apply_collapse(T, vals, axis, fn, keepdims)


def _apply_collapse(T, vals, axis, fn, keepdims, lvl=0):
    """like apply_at, but fn turns an array at level `axis` into ONE element (or a length-1 array with keepdims),
    so the parent list's element type changes from list(E) to fn's result type"""
    abs_axis = resolve_axis(T, axis, lvl)
    ax = axis if abs_axis is None else abs_axis
    k = T[0]
    if k in ("list", "regular"):
        if abs_axis is not None and abs_axis == lvl + 1:
            outs = []
            RT = None
            for v in vals:
                rt, rv = fn(T[1], v, lvl + 1)
                RT = rt
                outs.append(rv)
            if RT is None:
                RT, _ = fn(T[1], [], lvl + 1)
            return RT, outs
        outs = []
        RT = None
        for v in vals:
            rt, rv = _apply_collapse(T[1], v, ax, fn, keepdims, lvl + 1)
            RT = rt
            outs.append(rv)
        if RT is None:
            RT, _ = _apply_collapse(T[1], [], ax, fn, keepdims, lvl + 1)
        return ["list", RT], outs
    if k == "option":
        present = [v for v in vals if v is not None]
        RT, rv = _apply_collapse(T[1], present, ax, fn, keepdims, lvl)
        it = iter(rv)
        return M.option_of(RT), [None if v is None else next(it) for v in vals]
    if k == "record":
        fields, istuple = T[1], T[2]
        cols, rts = [], []
        for i, (nm, ft) in enumerate(fields):
            rt, rv = _apply_collapse(ft, [v[i] if istuple else v[nm] for v in vals], ax, fn, keepdims, lvl)
            rts.append([nm, rt])
            cols.append(rv)
        n = len(vals)
        out = [tuple(c[j] for c in cols) for j in range(n)] if istuple else [{nm: c[j] for (nm, _), c in zip(fields, cols)} for j in range(n)]
        return ["record", rts, istuple, T[3]], out
    raise ModelError("axis exceeds the depth of this array")


# --------------------------------------------------------------------------- sort / argsort
def _sortkey(v):
    if isinstance(v, float) and math.isnan(v):
        return (0, 0)
    if isinstance(v, (str, bytes)):
        return (1, v.encode("utf-8", "surrogateescape") if isinstance(v, str) else v)
    return (1, v)


def _sort_group(members, ascending, arg):
    """members: [(position along axis, leaf or None)] in position order -> sorted leaves (or positions), missing last"""
    present = [(p, v) for p, v in members if v is not None]
    missing = [(p, v) for p, v in members if v is None]
    nans = [(p, v) for p, v in present if isinstance(v, float) and math.isnan(v)]
    rest = [(p, v) for p, v in present if not (isinstance(v, float) and math.isnan(v))]
    rest.sort(key=lambda m: _sortkey(m[1]), reverse=not ascending)   # Python's sort is stable, also with reverse
    ordered = nans + rest + missing
    return [(p if arg else v) for p, v in ordered]


def _sort_rows(ET, rows, ascending, arg):
    """rows: list of elements (type ET) at consecutive positions along the sorted axis; returns the same shape with
    each aligned group sorted. Elements are lists (left-aligned recursion) or leaves."""
    k = ET[0]
    if k == "prim" or k in ("string", "bytes"):
        return _sort_group(list(enumerate(rows)), ascending, arg)
    if k == "option":
        inner = ET[1]
        if inner[0] == "prim" or inner[0] in ("string", "bytes"):
            return _sort_group(list(enumerate(rows)), ascending, arg)
        raise Unsupported("sort across missing lists")
    if k in ("list", "regular"):
        n = max([len(e) for e in rows], default=0)
        out = [list(e) for e in rows]
        for j in range(n):
            idx = [i for i, e in enumerate(rows) if j < len(e)]
            col = _sort_rows_positions(ET[1], [(i, rows[i][j]) for i in idx], ascending, arg)
            for i, r in zip(idx, col):
                out[i][j] = r
        return out
    raise Unsupported("sort across " + k)


def _sort_rows_positions(ET, prow, ascending, arg):
    """prow: [(position, element)] - like _sort_rows but positions along the axis are given explicitly"""
    k = ET[0]
    if k == "prim" or k in ("string", "bytes") or (k == "option" and (ET[1][0] == "prim" or ET[1][0] in ("string", "bytes"))):
        return _sort_group(prow, ascending, arg)
    if k in ("list", "regular"):
        n = max([len(e) for _, e in prow], default=0)
        out = [list(e) for _, e in prow]
        for j in range(n):
            idx = [i for i, (_, e) in enumerate(prow) if j < len(e)]
            col = _sort_rows_positions(ET[1], [(prow[i][0], prow[i][1][j]) for i in idx], ascending, arg)
            for i, r in zip(idx, col):
                out[i][j] = r
        return out
    raise Unsupported("sort across " + k)


def _arg_type(ET):
    k = ET[0]
    if k in ("list", "regular"):
        return [k, _arg_type(ET[1])] + ET[2:]
    return M.prim("int64")


def sort(T, vals, axis, ascending=True, arg=False):
    def fn(T2, v2, lvl):
        if T2[0] in ("record", "union"):
            raise Unsupported("sort across record/union")
        out = _sort_rows(T2, v2, ascending, arg)
        return (_arg_type(T2) if arg else T2), out
    return apply_at(T, vals, axis, fn)
