"""Logical model: types, values, physical descriptions, and the independent evaluator `decode`.

Pure Python; imports nothing from the code under test. The rules are those of the pure-Python
reference classes in /repo/docs-sphinx/ak.layout.*.rst.

Types (JSON-able lists):
  ["prim", dtype] | ["list", T] | ["regular", T, size] | ["option", T] | ["record", [[name, T]...] , istuple, recname|None]
  | ["union", [T...]] | ["string"] | ["bytes"] | ["unknown"]
Values: nested Python data: list, None, dict (records), tuple (tuple records), bool/int/float/complex, str/bytes.
"""
import math

import numpy as np

INT_DTYPES = ["int8", "int16", "int32", "int64", "uint8", "uint16", "uint32", "uint64"]
FLOAT_DTYPES = ["float32", "float64"]
COMPLEX_DTYPES = ["complex64", "complex128"]
INDEX_WIDTH = {"32": np.int32, "U32": np.uint32, "64": np.int64}


class Invalid(Exception):
    """the description violates a validity rule in a way that makes it impossible to evaluate"""


def prim(dt):
    return ["prim", dt]


def is_option(T):
    return T[0] == "option"


def is_listlike(T):
    return T[0] in ("list", "regular", "string", "bytes")


def option_of(T):
    """canonical option: no option directly inside option"""
    if T[0] == "option":
        return T
    return ["option", T]


def strip_option(T):
    return T[1] if T[0] == "option" else T


def union_of(types):
    """canonical union: flattened, duplicates removed, option pulled outside"""
    flat = []
    opt = False
    for t in types:
        if t[0] == "option":
            opt = True
            t = t[1]
        if t[0] == "union":
            for u in t[1]:
                if u not in flat:
                    flat.append(u)
        elif t not in flat:
            flat.append(t)
    out = flat[0] if len(flat) == 1 else ["union", flat]
    return option_of(out) if opt else out


# --------------------------------------------------------------------------- decode
def _leafvalue(x, dt):
    if dt == "bool":
        return bool(x)
    if dt.startswith(("int", "uint")):
        return int(x)
    if dt.startswith("float"):
        return float(x)
    if dt.startswith("complex"):
        return complex(x)
    return x


def numpy_data(d):
    """the numpy array a NumpyArray description stands for (honouring its physical layout)"""
    dt = np.dtype(d["dtype"])
    shape = list(d["shape"])
    data = d["data"]
    if dt.kind == "c":
        arr = np.array([complex(*x) if isinstance(x, (list, tuple)) else x for x in data], dtype=dt)
    else:
        arr = np.array(data, dtype=dt) if len(data) else np.zeros(0, dt)
    return arr.reshape(shape)


def decode(d):
    """description -> (type, list of values).  Raises Invalid where evaluation is impossible."""
    cls = d["class"]
    params = d.get("parameters") or {}
    if cls == "NumpyArray":
        arr = numpy_data(d)
        T = prim(d["dtype"])
        for n in reversed(d["shape"][1:]):
            T = ["regular", T, n]
        vals = arr.tolist()
        if arr.dtype.kind in "Mm" and arr.ndim == 1:
            vals = list(arr)   # numpy datetime64/timedelta64 scalars (what same_value compares), not datetime.datetime
        if params.get("__array__") in ("char", "byte") and arr.ndim == 1:
            T = prim(d["dtype"])
        return T, vals
    if cls == "EmptyArray":
        return ["unknown"], []
    if cls.startswith("ListOffsetArray"):
        ct, cv = decode(d["content"])
        off = d["offsets"]
        if len(off) < 1:
            raise Invalid("offsets empty")
        out = []
        for i in range(len(off) - 1):
            a, b = off[i], off[i + 1]
            if a < 0 or b < a or b > len(cv):
                raise Invalid("offsets out of range")
            out.append(cv[a:b])
        return _listtype(ct, out, d, params)
    if cls.startswith("ListArray"):
        ct, cv = decode(d["content"])
        starts, stops = d["starts"], d["stops"]
        if len(stops) < len(starts):
            raise Invalid("stops shorter than starts")
        out = []
        for a, b in zip(starts, stops):
            if a == b:
                out.append([])
                continue
            if a < 0 or b < a or b > len(cv):
                raise Invalid("start/stop out of range")
            out.append(cv[a:b])
        return _listtype(ct, out, d, params)
    if cls == "RegularArray":
        ct, cv = decode(d["content"])
        size = d["size"]
        if size < 0:
            raise Invalid("negative size")
        n = len(cv) // size if size > 0 else d.get("zeros_length", 0)
        out = [cv[i * size:(i + 1) * size] for i in range(n)]
        if params.get("__array__") in ("string", "bytestring"):
            out, T = _stringify(out, params["__array__"])
            return T, out
        return ["regular", ct, size], out
    if cls.startswith("IndexedOptionArray"):
        ct, cv = decode(d["content"])
        out = []
        for i in d["index"]:
            if i < 0:
                out.append(None)
            else:
                if i >= len(cv):
                    raise Invalid("index out of range")
                out.append(cv[i])
        return option_of(ct), out
    if cls.startswith("IndexedArray"):
        ct, cv = decode(d["content"])
        out = []
        for i in d["index"]:
            if i < 0 or i >= len(cv):
                raise Invalid("index out of range")
            out.append(cv[i])
        return ct, out
    if cls == "ByteMaskedArray":
        ct, cv = decode(d["content"])
        mask = d["mask"]
        if len(cv) < len(mask):
            raise Invalid("content shorter than mask")
        vw = bool(d["valid_when"])
        out = [cv[i] if (mask[i] != 0) == vw else None for i in range(len(mask))]
        return option_of(ct), out
    if cls == "BitMaskedArray":
        ct, cv = decode(d["content"])
        mask, n, lsb, vw = d["mask"], d["length"], bool(d["lsb_order"]), bool(d["valid_when"])
        if n < 0 or len(mask) * 8 < n or len(cv) < n:
            raise Invalid("mask or content too short")
        out = []
        for i in range(n):
            byte = mask[i // 8]
            bit = (byte >> (i % 8)) & 1 if lsb else (byte >> (7 - i % 8)) & 1
            out.append(cv[i] if bool(bit) == vw else None)
        return option_of(ct), out
    if cls == "UnmaskedArray":
        ct, cv = decode(d["content"])
        return option_of(ct), list(cv)
    if cls == "RecordArray":
        subs = [decode(c) for c in d["contents"]]
        keys = d.get("keys")
        if d.get("length") is not None:
            n = d["length"]
        else:
            n = min((len(v) for _, v in subs), default=0)
        for _, v in subs:
            if len(v) < n:
                raise Invalid("field shorter than record length")
        istuple = keys is None
        names = [str(i) for i in range(len(subs))] if istuple else list(keys)
        T = ["record", [[k, t] for k, (t, _) in zip(names, subs)], istuple, params.get("__record__")]
        if istuple:
            out = [tuple(v[i] for _, v in subs) for i in range(n)]
        else:
            out = [{k: v[i] for k, (_, v) in zip(names, subs)} for i in range(n)]
        return T, out
    if cls.startswith("UnionArray"):
        subs = [decode(c) for c in d["contents"]]
        tags, index = d["tags"], d["index"]
        if len(index) < len(tags):
            raise Invalid("index shorter than tags")
        out = []
        for t, i in zip(tags, index):
            if t < 0 or t >= len(subs) or i < 0 or i >= len(subs[t][1]):
                raise Invalid("tag/index out of range")
            out.append(subs[t][1][i])
        return ["union", [t for t, _ in subs]], out
    raise Invalid("unknown class " + cls)


def _stringify(lists, kind):
    out = []
    for x in lists:
        b = bytes(bytearray(int(c) & 0xFF for c in x))
        out.append(b.decode("utf-8", "surrogateescape") if kind == "string" else b)
    return out, (["string"] if kind == "string" else ["bytes"])


def _listtype(ct, out, d, params):
    if params.get("__array__") in ("string", "bytestring"):
        out, T = _stringify(out, params["__array__"])
        return T, out
    return ["list", ct], out


def length_of(d):
    """the length the library reports for this node (no validity required beyond what is needed to compute it)"""
    cls = d["class"]
    if cls == "NumpyArray":
        return d["shape"][0]
    if cls == "EmptyArray":
        return 0
    if cls.startswith("ListOffsetArray"):
        return len(d["offsets"]) - 1
    if cls.startswith("ListArray"):
        return len(d["starts"])
    if cls == "RegularArray":
        return length_of(d["content"]) // d["size"] if d["size"] > 0 else d.get("zeros_length", 0)
    if cls.startswith("Indexed"):
        return len(d["index"])
    if cls == "ByteMaskedArray":
        return len(d["mask"])
    if cls == "BitMaskedArray":
        return d["length"]
    if cls == "UnmaskedArray":
        return length_of(d["content"])
    if cls == "RecordArray":
        if d.get("length") is not None:
            return d["length"]
        return min((length_of(c) for c in d["contents"]), default=0)
    if cls.startswith("UnionArray"):
        return len(d["tags"])
    raise Invalid("unknown class " + cls)


# --------------------------------------------------------------------------- comparison
def same_value(a, b, strict_bool=True, key_order=False):
    """strict structural equality (DESIGN 2.4): bool only equals bool, int == float when numerically equal,
    NaN == NaN, -0.0 == 0.0, tuples only equal tuples, dict key order ignored unless key_order"""
    if a is None or b is None:
        return a is None and b is None
    if isinstance(a, (bool, np.bool_)) or isinstance(b, (bool, np.bool_)):
        if strict_bool:
            return isinstance(a, (bool, np.bool_)) and isinstance(b, (bool, np.bool_)) and bool(a) == bool(b)
        return bool(a) == bool(b)
    if isinstance(a, (int, float, np.integer, np.floating)) and isinstance(b, (int, float, np.integer, np.floating)):
        fa, fb = float(a), float(b)
        if math.isnan(fa) or math.isnan(fb):
            return math.isnan(fa) and math.isnan(fb)
        if isinstance(a, (int, np.integer)) and isinstance(b, (int, np.integer)):
            return int(a) == int(b)
        return fa == fb
    if isinstance(a, (complex, np.complexfloating)) or isinstance(b, (complex, np.complexfloating)):
        if not isinstance(a, (int, float, complex, np.number)) or not isinstance(b, (int, float, complex, np.number)):
            return False
        ca, cb = complex(a), complex(b)
        return same_value(ca.real, cb.real) and same_value(ca.imag, cb.imag)
    if isinstance(a, str) or isinstance(b, str):
        return isinstance(a, str) and isinstance(b, str) and a == b
    if isinstance(a, bytes) or isinstance(b, bytes):
        return isinstance(a, bytes) and isinstance(b, bytes) and a == b
    if isinstance(a, tuple) or isinstance(b, tuple):
        return (isinstance(a, tuple) and isinstance(b, tuple) and len(a) == len(b)
                and all(same_value(x, y, strict_bool, key_order) for x, y in zip(a, b)))
    if isinstance(a, dict) or isinstance(b, dict):
        if not (isinstance(a, dict) and isinstance(b, dict)) or set(a) != set(b):
            return False
        if key_order and list(a) != list(b):
            return False
        return all(same_value(a[k], b[k], strict_bool, key_order) for k in a)
    if isinstance(a, list) and isinstance(b, list):
        return len(a) == len(b) and all(same_value(x, y, strict_bool, key_order) for x, y in zip(a, b))
    if isinstance(a, (np.datetime64, np.timedelta64)) and isinstance(b, (np.datetime64, np.timedelta64)):
        return a == b or (np.isnat(a) and np.isnat(b))
    return False


def jsonable(v):
    """value -> something json.dumps accepts, for replay files and messages (lossy only in tuple/bytes tagging)"""
    if isinstance(v, (bool, int, str)) or v is None:
        return v
    if isinstance(v, float):
        if math.isnan(v):
            return "NaN"
        if math.isinf(v):
            return "Infinity" if v > 0 else "-Infinity"
        return v
    if isinstance(v, complex):
        return {"re": jsonable(v.real), "im": jsonable(v.imag)}
    if isinstance(v, bytes):
        return {"bytes": v.decode("latin-1")}
    if isinstance(v, tuple):
        return {"tuple": [jsonable(x) for x in v]}
    if isinstance(v, dict):
        return {k: jsonable(x) for k, x in v.items()}
    if isinstance(v, list):
        return [jsonable(x) for x in v]
    if isinstance(v, np.generic):
        return jsonable(v.item())
    return repr(v)


# --------------------------------------------------------------------------- type queries
def purelist_depth(T):
    k = T[0]
    if k in ("prim", "unknown"):
        return 1
    if k in ("list", "regular"):
        return 1 + purelist_depth(T[1])
    if k in ("string", "bytes"):
        return 1   # strings count as leaves for purelist_depth in the library (ListArray with __array__ string -> depth 1)
    if k == "option":
        return purelist_depth(T[1])
    if k == "record":
        return 1
    if k == "union":
        depths = [purelist_depth(t) for t in T[1]]
        return depths[0] if all(x == depths[0] for x in depths) else -1
    raise ValueError(T)


def minmax_depth(T):
    k = T[0]
    if k in ("prim", "unknown", "string", "bytes"):
        return (1, 1)
    if k in ("list", "regular"):
        a, b = minmax_depth(T[1])
        return (a + 1, b + 1)
    if k == "option":
        return minmax_depth(T[1])
    if k == "record":
        if not T[1]:
            return (1, 1)   # library: a record with no fields has depth (0,0)? adjusted in checks that use it
        ds = [minmax_depth(t) for _, t in T[1]]
        return (min(a for a, _ in ds), max(b for _, b in ds))
    if k == "union":
        ds = [minmax_depth(t) for t in T[1]]
        return (min(a for a, _ in ds), max(b for _, b in ds))
    raise ValueError(T)


def type_at_depth_is_list(T, depth):
    """does every branch of T have a list at this nesting depth (1-based: depth 1 is the outermost array itself)?"""
    mn, mx = minmax_depth(T)
    return depth < mn
