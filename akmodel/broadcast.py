"""Reference model of broadcasting (ak.broadcast_arrays docstring + property C04), on (type, value) pairs.

Operands are ("array", T, vals) - T the item type, vals the list of items - or ("scalar", dtype, x).
  * a missing value in any operand at a position gives None there;
  * lists at the same position must have equal lengths, except a *regular* dimension of size 1, which repeats;
  * an operand that has no list where another has one (fewer list levels, tree-left) repeats its element across that list;
  * records broadcast field by field (same key sets);  unions are resolved per element.
All-regular operand tuples (NumPy right-alignment) are not handled here: their oracle is NumPy itself.
"""
from akmodel import core as M


class BroadcastError(Exception):
    """documented: 'lists of different lengths at the same position raise an error'"""


class OutOfModel(Exception):
    """operand combination about which neither the documentation nor the property says anything"""


def _member(T, v):
    from akgen.gen import member_of
    return T[1][member_of(T, v)]


def bcast(items, leaf):
    """items: list of (T, v) at one position.  leaf(list of (T, v)) -> result for an all-leaf position."""
    cur = []
    for T, v in items:
        while T[0] in ("option", "union"):
            if T[0] == "option":
                if v is None:
                    return None
                T = T[1]
            else:
                T = _member(T, v)
        cur.append((T, v))
    kinds = [T[0] for T, _ in cur]
    if any(k in ("string", "bytes", "unknown") for k in kinds):
        raise OutOfModel("strings / unknown in broadcasting")
    if any(k in ("list", "regular") for k in kinds):
        lens = []
        for T, v in cur:
            if T[0] in ("list", "regular"):
                if not (T[0] == "regular" and T[2] == 1):
                    lens.append(len(v))
        if lens:
            n = lens[0]
            if any(x != n for x in lens):
                raise BroadcastError("lists of lengths %r at the same position" % (sorted(set(lens)),))
        else:
            n = 1
        out = []
        for j in range(n):
            nxt = []
            for T, v in cur:
                if T[0] in ("list", "regular"):
                    nxt.append((T[1], v[0] if (T[0] == "regular" and T[2] == 1) else v[j]))
                else:
                    nxt.append((T, v))
            out.append(bcast(nxt, leaf))
        return out
    if any(k == "record" for k in kinds):
        recs = [(T, v) for T, v in cur if T[0] == "record"]
        keys = [n for n, _ in recs[0][0][1]]
        for T, _ in recs[1:]:
            if set(n for n, _ in T[1]) != set(keys):
                raise BroadcastError("records with different keys")
        istuple = all(T[2] for T, _ in recs)
        fields = []
        for key in keys:
            nxt = []
            for T, v in cur:
                if T[0] == "record":
                    i = [n for n, _ in T[1]].index(key)
                    nxt.append((T[1][i][1], v[i] if T[2] else v[key]))
                else:
                    nxt.append((T, v))
            fields.append(bcast(nxt, leaf))
        return tuple(fields) if istuple else dict(zip(keys, fields))
    return leaf(cur)


def broadcast(operands, leaf):
    """whole-array entry point: operands as described in the module docstring; returns the list of result items"""
    items = []
    for op in operands:
        if op[0] == "array":
            items.append((["list", op[1]], op[2]))
        else:
            items.append((M.prim(op[1]), op[2]))
    if not any(op[0] == "array" for op in operands):
        raise OutOfModel("no array operand")
    return bcast(items, leaf)


def all_regular(T):
    """purelist_isregular of an item type (no variable-length list on any path)"""
    k = T[0]
    if k in ("prim", "unknown"):
        return True
    if k in ("string", "bytes", "list"):
        return False
    if k == "regular":
        return all_regular(T[1])
    if k == "option":
        return all_regular(T[1])
    if k == "record":
        return all(all_regular(t) for _, t in T[1])
    if k == "union":
        return all(all_regular(t) for t in T[1])
    raise ValueError(T)


def leaf_meets_regular(types, below_var=False):
    """type-level region test: does an operand end (number / record leaf reached) at a position where another operand
    continues with a regular dimension, below at least one variable-length dimension?  Returns None or a tag:
    'var_below' when a variable-length list follows (somewhere below) the regular dimension of the deeper operand,
    'regular_below' when only regular dimensions and leaves follow.
    types: item-level types at one position (options stripped here; every union member is tried)."""
    cur = []
    for T in types:
        while T[0] == "option":
            T = T[1]
        cur.append(T)
    for i, T in enumerate(cur):
        if T[0] == "union":
            found = None
            for m in T[1]:
                r = leaf_meets_regular(cur[:i] + [m] + cur[i + 1:], below_var)
                if r == "var_below":
                    return r
                found = found or r
            return found
    kinds = [T[0] for T in cur]
    if any(k in ("list", "regular") for k in kinds):
        here = None
        if below_var and any(k == "regular" for k in kinds) and any(k not in ("list", "regular") for k in kinds):
            deeper = [T for T in cur if T[0] == "regular"]
            here = "regular_below" if all(all_regular(T) for T in deeper) else "var_below"
            if here == "var_below":
                return here
        nxt = [T[1] if T[0] in ("list", "regular") else T for T in cur]
        r = leaf_meets_regular(nxt, below_var or any(k == "list" for k in kinds))
        return r if r == "var_below" else (here or r)
    if any(k == "record" for k in kinds):
        recs = [T for T in cur if T[0] == "record"]
        found = None
        for key in [n for n, _ in recs[0][1]]:
            nxt = []
            for T in cur:
                if T[0] == "record":
                    f = [t for n, t in T[1] if n == key]
                    if not f:
                        break
                    nxt.append(f[0])
                else:
                    nxt.append(T)
            else:
                r = leaf_meets_regular(nxt, below_var)
                if r == "var_below":
                    return r
                found = found or r
        return found
    return None
