"""Reference model of awkward/NumPy slicing on nested Python values (validated against NumPy on rectilinear data
by checks/c01 self-test).

Items (JSON): {"k": "at", "i"} | {"k": "range", "start", "stop", "step"} | {"k": "ellipsis"} | {"k": "newaxis"} |
{"k": "array", "data": nested ints} | {"k": "mask", "data": nested bools} | {"k": "missing", "data": [int|None]} |
{"k": "field", "name"} | {"k": "fields", "names"} | {"k": "jagged", "data": nested lists of int/bool/None}
"""
import itertools


class Refuse(Exception):
    """a combination the library documents as unsupported: it may raise, and if it answers the answer is not judged"""


def shape_of(nested):
    shape = []
    x = nested
    while isinstance(x, list):
        shape.append(len(x))
        if len(x) == 0:
            break
        x = x[0]
    return tuple(shape)


def flat_get(nested, multi):
    x = nested
    for i in multi:
        x = x[i]
    return x


def nonzero(nested, shape):
    out = [[] for _ in shape]
    for multi in itertools.product(*[range(n) for n in shape]):
        if flat_get(nested, multi):
            for d, i in enumerate(multi):
                out[d].append(i)
    return out


def broadcast_shapes(shapes):
    ndim = max(len(s) for s in shapes)
    for s in shapes:
        if len(s) != ndim:
            raise Refuse("arrays in a slice must have the same number of dimensions")
    out = []
    for d in range(ndim):
        dims = [s[d] for s in shapes]
        big = [n for n in dims if n != 1]
        if len(set(big)) > 1:
            raise IndexError("cannot broadcast arrays in slice")
        out.append(big[0] if big else 1)
    return tuple(out)


def bget(nested, shape, multi):
    return flat_get(nested, tuple(0 if n == 1 else i for n, i in zip(shape, multi)))


def build(shape, f, prefix=()):
    if len(shape) == 0:
        return f(prefix)
    return [build(shape[1:], f, prefix + (i,)) for i in range(shape[0])]


def wrap_index(i, n):
    if i < 0:
        i += n
    if not (0 <= i < n):
        raise IndexError("index out of range")
    return i


class _Arr(object):
    def __init__(self, nested, missing=False):
        self.nested = nested
        self.shape = shape_of(nested)
        self.missing = missing


def getitem(x, items, depth, sizes):
    """x: list (the array); items: list of JSON items; depth: number of list levels of x (>= 1);
    sizes: per level, the regular size (int) or None for a variable level; sizes[0] = len(x)"""
    its = []
    for it in items:
        k = it["k"]
        if k == "at":
            its.append(int(it["i"]))
        elif k == "range":
            its.append(slice(it["start"], it["stop"], it["step"]))
        elif k == "ellipsis":
            its.append(Ellipsis)
        elif k == "newaxis":
            its.append(None)
        elif k == "array":
            its.append(_Arr(it["data"]))
        elif k == "mask":
            sh = shape_of(it["data"])
            for idx in nonzero(it["data"], sh):
                its.append(_Arr(idx))
        elif k == "missing":
            its.append(_Arr(it["data"], missing=True))
        elif k == "field":
            its.append(("field", it["name"]))
        elif k == "fields":
            its.append(("fields", list(it["names"])))
        else:
            raise ValueError(k)
    if sum(1 for it in its if it is Ellipsis) > 1:
        raise IndexError("a slice can have no more than one ellipsis")
    if any(isinstance(it, _Arr) for it in its):
        # adjacency is judged on the items as written: an ellipsis separates even when it expands to nothing
        t0 = "".join("A" if isinstance(it, (_Arr, int)) else ("n" if isinstance(it, tuple) else "x") for it in its).replace("n", "")
        if "x" in t0[t0.find("A"):t0.rfind("A") + 1]:
            raise Refuse("advanced indexes separated by basic indexes")
    consuming = sum(1 for it in its if isinstance(it, (int, slice, _Arr)))
    if any(it is Ellipsis for it in its):
        k = max(0, depth - consuming)
        pos = [i for i, it in enumerate(its) if it is Ellipsis][0]
        its = its[:pos] + [slice(None)] * k + its[pos + 1:]

    arrays = [it for it in its if isinstance(it, _Arr)]
    bshape = None
    if arrays:
        if any(a.missing for a in arrays) and (len(arrays) > 1 or any(isinstance(it, int) for it in its)):
            raise Refuse("an index with missing values mixed with other advanced indexes (integers are advanced beside an array)")
        # NumPy: advanced indexes separated by a slice, ellipsis or newaxis are "separated"; field items are transparent
        types = "".join("A" if isinstance(it, (_Arr, int)) else ("n" if isinstance(it, tuple) else "x") for it in its)
        body = types.replace("n", "")
        first, last = body.find("A"), body.rfind("A")
        if "x" in body[first:last + 1]:
            raise Refuse("advanced indexes separated by basic indexes")
        bshape = broadcast_shapes([a.shape for a in arrays])

    # bounds decided by the type (regular dimensions), even where no element exists
    level = 0
    bsize = 1
    for n in (bshape or ()):
        bsize *= n
    for it in its:
        if it is None or isinstance(it, tuple):
            continue
        if level >= len(sizes):
            raise IndexError("too many indices for array")
        n = sizes[level]
        if n is not None:
            if isinstance(it, int):
                wrap_index(it, n)
            elif isinstance(it, _Arr) and bsize > 0:
                for multi in itertools.product(*[range(k) for k in it.shape]):
                    i = flat_get(it.nested, multi)
                    if i is not None:
                        wrap_index(i, n)
        level += 1

    def nxt(x, its, adv):
        if not its:
            return x
        head, tail = its[0], its[1:]
        if head is None:
            return [nxt(x, tail, adv)]
        if x is None:
            return None
        if isinstance(head, tuple):
            if head[0] == "field":
                return project(x, head[1], lambda y: nxt(y, tail, adv))
            return project_many(x, head[1], lambda y: nxt(y, tail, adv))
        if not isinstance(x, list):
            raise IndexError("too many indices for array")
        if isinstance(head, int):
            i = wrap_index(head, len(x))
            if bshape is None or adv is not None:
                return nxt(x[i], tail, adv)
            return build(bshape, lambda p: nxt(x[i], tail, p))
        if isinstance(head, slice):
            return [nxt(e, tail, adv) for e in x[head]]
        if isinstance(head, _Arr):
            def pick(p):
                i = bget(head.nested, head.shape, p)
                if i is None:
                    return None
                return nxt(x[wrap_index(i, len(x))], tail, p)
            if adv is None:
                return build(bshape, pick)
            return pick(adv)
        raise TypeError(head)

    return nxt(x, its, None)


def project(x, field, cont):
    if isinstance(x, dict):
        if field not in x:
            raise IndexError("no such field")
        return cont(x[field])
    if isinstance(x, tuple):
        try:
            i = int(field)
        except ValueError:
            raise IndexError("no such field")
        if not 0 <= i < len(x):
            raise IndexError("no such field")
        return cont(x[i])
    if x is None:
        return None
    if isinstance(x, list):
        return [project(e, field, cont) for e in x]
    raise IndexError("not a record")


def project_many(x, fields, cont):
    if isinstance(x, dict):
        for f in fields:
            if f not in x:
                raise IndexError("no such field")
        return cont({f: x[f] for f in fields})
    if isinstance(x, tuple):
        raise Refuse("fields of a tuple")
    if x is None:
        return None
    if isinstance(x, list):
        return [project_many(e, fields, cont) for e in x]
    raise IndexError("not a record")


def jagged(x, j):
    """apply a jagged index j (same outer length) to x, level by level"""
    if len(j) != len(x):
        raise IndexError("cannot fit jagged slice")
    out = []
    for xi, ji in zip(x, j):
        if ji is None or xi is None:
            out.append(None)
            continue
        if not isinstance(xi, list):
            raise IndexError("too many jagged levels")
        kinds = set("none" if k is None else ("list" if isinstance(k, list) else ("bool" if isinstance(k, bool) else "int")) for k in ji)
        if "list" in kinds:
            if kinds - {"list", "none"}:
                raise Refuse("mixed jagged levels")
            out.append(jagged(xi, ji))
        elif kinds <= {"bool"} and kinds:
            if len(ji) != len(xi):
                raise IndexError("jagged boolean mask has the wrong length")
            out.append([e for e, k in zip(xi, ji) if k])
        elif "bool" in kinds:
            raise Refuse("boolean jagged index with missing values")
        else:
            out.append([None if k is None else xi[wrap_index(k, len(xi))] for k in ji])
    return out
