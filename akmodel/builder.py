"""Oracle for property C14 (builders).  Pure Python; never imports the code under test.

Three parts:

* `BuilderModel` - executes a history of ArrayBuilder commands on nested Python data with an explicit nesting stack,
  predicts for every command whether it must succeed or must raise, and what a snapshot must contain;
* `unify(values)` - the documented unification (docstring of ak.ArrayBuilder in src/awkward/highlevel.py and the rules
  listed in DESIGN.md section 3/C14): integers become floats when mixed with floats, None makes the position optional,
  bool beside a number is a union, same-named / unnamed records at one position share one record type with absent
  fields None (field order = first arrival), tuples of one arity share one tuple type, everything else is a union;
* `diff(expected, observed, lenient)` - strict structural comparison (int is int, float is float, -0.0 is not 0.0,
  str is not bytes, tuple is not list);
* `layout_commands(description, values)` - the typed LayoutBuilder commands that fill a given Form with given data.

History commands (JSON lists):
  ["null"] ["boolean", b] ["integer", i] ["real", x] ["complex", re, im] ["datetime", ticks, "datetime64[s]"]
  ["timedelta", ticks, "timedelta64[s]"] ["string", text] ["bytestring", latin-1 text]
  ["beginlist"] ["endlist"] ["begintuple", n] ["index", i] ["endtuple"] ["beginrecord", name|None] ["field", key]
  ["endrecord"] ["append", k, at] ["extend", k] ["snapshot"] ["clear"]        (k: index into the case's arrays)
"""
import collections
import math

import numpy as np

from akmodel import core as M


class _Missing(object):
    def __repr__(self):
        return "MISSING"


MISSING = _Missing()     # a slot of a still-open tuple/record that has not been filled (yet)


class Rec(object):
    """a record value: optional name, fields in arrival order; `open` while its endrecord has not been seen"""
    __slots__ = ("name", "fields", "open")

    def __init__(self, name, fields, open_=False):
        self.name = name
        self.fields = fields
        self.open = open_

    def __repr__(self):
        return "Rec(%r, %r)" % (self.name, self.fields)


class Ext(object):
    """a value that entered by reference (append/extend of an existing array); k = which array"""
    __slots__ = ("k", "value")

    def __init__(self, k, value):
        self.k = k
        self.value = value

    def __repr__(self):
        return "Ext(%r, %r)" % (self.k, self.value)


def time_value(ticks, unit):
    """["datetime", ticks, "datetime64[s]"] -> numpy scalar"""
    kind, _, rest = unit.partition("[")
    code = rest.rstrip("]")
    if kind == "datetime64":
        return np.array([ticks], dtype=np.int64).view("M8[%s]" % code)[0]
    if kind == "timedelta64":
        return np.array([ticks], dtype=np.int64).view("m8[%s]" % code)[0]
    raise ValueError(unit)


# ------------------------------------------------------------------------------------------------ the history model
class _Frame(object):
    def __init__(self, kind, n=0, name=None):
        self.kind = kind            # root | list | tuple | record
        self.items = []             # root / list
        self.n = n                  # tuple arity
        self.name = name            # record name
        self.fills = collections.OrderedDict()   # tuple: slot -> [values] ; record: key -> [values]
        self.cur = None             # selected slot / key


class BuilderModel(object):
    """state: "ok"       expectations are exact
              "dirty"    an ill-nested command was refused at nesting depth 0; what the builder holds now is not
                         documented, so nothing is expected until clear() (which must make it usable again)
              "poisoned" an ill-nested command was refused inside an open list/tuple/record (or clear() was called
                         there); nothing is documented about the builder from here on: only 'no crash' is required"""

    def __init__(self, arrays=()):
        self.arrays = list(arrays)          # list of Python value lists (the arrays append/extend refer to)
        self.stack = [_Frame("root")]
        self.state = "ok"
        self.cleared = False
        self.ghost = []                     # top-level values removed by clear(): the builder keeps their *types*
        self.tainted = False                # commands ran while nothing was documented: type knowledge is unknown

    # ---- helpers
    def depth(self):
        return len(self.stack) - 1

    def top(self):
        return self.stack[-1]

    def _fail(self):
        self.state = "dirty" if self.depth() == 0 else "poisoned"
        return "raise"

    def _can_put(self):
        fr = self.top()
        return fr.kind in ("root", "list") or fr.cur is not None

    def _put(self, v):
        fr = self.top()
        if fr.kind in ("root", "list"):
            fr.items.append(v)
        else:
            fr.fills.setdefault(fr.cur, []).append(v)

    # ---- one command
    def step(self, cmd):
        """-> "ok" (must succeed), "raise" (must raise ValueError) or "free" (nothing is documented)"""
        op = cmd[0]
        if self.state == "poisoned":
            return "free"
        if op == "clear":
            if self.depth() != 0:
                self.state = "poisoned"     # clear() inside an open structure: not documented
                return "free"
            self.ghost.extend(self.stack[0].items)      # (in state "dirty": what was appended before the refusal)
            self.stack = [_Frame("root")]
            self.state = "ok"
            self.cleared = True
            return "ok"
        if self.state == "dirty":
            if op != "snapshot":
                self.tainted = True
            return "free"
        if op == "snapshot":
            return "ok"
        fr = self.top()
        if op in ("null", "boolean", "integer", "real", "complex", "datetime", "timedelta", "string", "bytestring"):
            if not self._can_put():
                return self._fail()
            self._put(leaf_value(cmd))
            return "ok"
        if op == "beginlist":
            if not self._can_put():
                return self._fail()
            self.stack.append(_Frame("list"))
            return "ok"
        if op == "begintuple":
            if not self._can_put():
                return self._fail()
            self.stack.append(_Frame("tuple", n=cmd[1]))
            return "ok"
        if op == "beginrecord":
            if not self._can_put():
                return self._fail()
            self.stack.append(_Frame("record", name=cmd[1]))
            return "ok"
        if op == "endlist":
            if fr.kind != "list":
                return self._fail()
            self.stack.pop()
            self._put(list(fr.items))
            return "ok"
        if op == "index":
            if fr.kind != "tuple" or not 0 <= cmd[1] < fr.n:
                return self._fail()
            fr.cur = cmd[1]
            return "ok"
        if op == "endtuple":
            if fr.kind != "tuple" or any(len(v) > 1 for v in fr.fills.values()):
                return self._fail()
            self.stack.pop()
            self._put(tuple(fr.fills[i][0] if i in fr.fills else None for i in range(fr.n)))
            return "ok"
        if op == "field":
            if fr.kind != "record":
                return self._fail()
            fr.cur = cmd[1]
            fr.fills.setdefault(cmd[1], [])
            return "ok"
        if op == "endrecord":
            if fr.kind != "record" or any(len(v) > 1 for v in fr.fills.values()):
                return self._fail()
            self.stack.pop()
            self._put(Rec(fr.name, collections.OrderedDict((k, v[0] if v else None) for k, v in fr.fills.items())))
            return "ok"
        if op == "append":
            vals = self.arrays[cmd[1]]
            at = cmd[2]
            if not -len(vals) <= at < len(vals) or not self._can_put():
                return self._fail()
            self._put(Ext(cmd[1], vals[at]))
            return "ok"
        if op == "extend":
            vals = self.arrays[cmd[1]]
            if len(vals) and not self._can_put():
                return self._fail()
            for v in vals:
                self._put(Ext(cmd[1], v))
            return "ok"
        raise ValueError("unknown command %r" % (cmd,))

    # ---- what a snapshot must show
    def _partial(self):
        """the value of the still-open top-level item (types of unfinished data already shape the snapshot), or MISSING"""
        child = MISSING
        for fr in reversed(self.stack[1:]):
            if fr.kind == "list":
                child = list(fr.items) + ([child] if child is not MISSING else [])
            elif fr.kind == "tuple":
                slots = [fr.fills[i][0] if fr.fills.get(i) else MISSING for i in range(fr.n)]
                if child is not MISSING and fr.cur is not None and slots[fr.cur] is MISSING:
                    slots[fr.cur] = child
                child = tuple(slots)
            else:
                fields = collections.OrderedDict((k, v[0] if v else MISSING) for k, v in fr.fills.items())
                if child is not MISSING and fr.cur is not None and fields.get(fr.cur, MISSING) is MISSING:
                    fields[fr.cur] = child
                child = Rec(fr.name, fields, open_=True)
        return child

    def expected(self):
        """-> (type, completed top-level values after unification, feature tags).
        clear() "removes all accumulated data without resetting the type knowledge" (ArrayBuilder.h): the cleared
        values keep taking part in the unification (as ghosts), only the values after the last clear() are expected."""
        done = list(self.stack[0].items)
        full = done + ([self._partial()] if self.depth() else [])
        tags = set()
        g = len(self.ghost)
        T, vals = unify(self.ghost + full, tags)
        return T, vals[g:g + len(done)], tags


def leaf_value(cmd):
    op = cmd[0]
    if op == "null":
        return None
    if op == "boolean":
        return bool(cmd[1])
    if op == "integer":
        return int(cmd[1])
    if op == "real":
        return float(cmd[1])
    if op == "complex":
        return complex(float(cmd[1]), float(cmd[2]))
    if op in ("datetime", "timedelta"):
        return time_value(cmd[1], cmd[2])
    if op == "string":
        return cmd[1]
    if op == "bytestring":
        return cmd[1].encode("latin-1")
    raise ValueError(cmd)


# ------------------------------------------------------------------------------------------------ unification
_NUM_RANK = {"int": 0, "real": 1, "complex": 2}


def _kind(v):
    if isinstance(v, Ext):
        return ("ext", v.k)
    if isinstance(v, bool):
        return ("bool",)
    if isinstance(v, int):
        return ("num", "int")
    if isinstance(v, float):
        return ("num", "real")
    if isinstance(v, complex):
        return ("num", "complex")
    if isinstance(v, np.datetime64):
        return ("datetime", str(v.dtype))
    if isinstance(v, np.timedelta64):
        return ("timedelta", str(v.dtype))
    if isinstance(v, str):
        return ("string",)
    if isinstance(v, bytes):
        return ("bytes",)
    if isinstance(v, list):
        return ("list",)
    if isinstance(v, tuple):
        return ("tuple", len(v))
    if isinstance(v, Rec):
        return ("record", v.name)
    raise ValueError("not a builder value: %r" % (v,))


def unify(values, tags=None):
    """values appended at one position -> (type, converted values).  out[i] corresponds to values[i]; records come out
    as dicts (absent fields None), Ext values stay wrapped, MISSING stays MISSING."""
    tags = set() if tags is None else tags
    out = list(values)
    has_none = False
    groups = collections.OrderedDict()
    for i, v in enumerate(values):
        if v is MISSING:
            continue
        if v is None:
            has_none = True
            continue
        k = _kind(v)
        gk = ("num",) if k[0] == "num" else k
        groups.setdefault(gk, []).append(i)
    members = []
    if ("string",) in groups and ("bytes",) in groups:
        tags.add("region:str+bytes")
    for gk, idx in groups.items():
        if gk == ("num",):
            ranks = [_NUM_RANK[_kind(values[i])[1]] for i in idx]
            rank, lowest = max(ranks), min(ranks)
            if rank == 2:
                first = ranks.index(2)
                if first > 0 and all(r == 0 for r in ranks[:first]):
                    tags.add("region:int_then_complex")
                if len(groups) > 1 and (lowest < 2 or any(k[0] == "ext" for k in groups)):
                    tags.add("region:complex_union")
            if rank != lowest:
                tags.add("promote:%s->%s" % (["int", "real", "complex"][lowest], ["int", "real", "complex"][rank]))
            conv = (int, float, complex)[rank]
            for i in idx:
                out[i] = conv(values[i])
            members.append(["prim", ("int64", "float64", "complex128")[rank]])
        elif gk[0] == "bool":
            members.append(["prim", "bool"])
        elif gk[0] in ("datetime", "timedelta"):
            members.append(["prim", gk[1]])
        elif gk[0] == "string":
            members.append(["string"])
        elif gk[0] == "bytes":
            members.append(["bytes"])
        elif gk[0] == "ext":
            members.append(["ext", gk[1]])
            if ("num",) in groups and any(_kind(values[i])[1] == "complex" for i in groups[("num",)]):
                tags.add("region:complex_union")
        elif gk[0] == "list":
            flat = [x for i in idx for x in values[i]]
            T, conv = unify(flat, tags)
            p = 0
            for i in idx:
                n = len(values[i])
                out[i] = conv[p:p + n]
                p += n
            members.append(["list", T])
        elif gk[0] == "tuple":
            cols = []
            types = []
            for j in range(gk[1]):
                T, conv = unify([values[i][j] for i in idx], tags)
                types.append([str(j), T])
                cols.append(conv)
            for r, i in enumerate(idx):
                out[i] = tuple(cols[j][r] for j in range(gk[1]))
            members.append(["record", types, True, None])
        else:  # record
            keys = []
            for i in idx:
                for k in values[i].fields:
                    if k not in keys:
                        keys.append(k)
            for i in idx:
                mine = list(values[i].fields)
                if mine != [k for k in keys if k in values[i].fields]:
                    tags.add("record_order")
                if not values[i].open and len(mine) != len(keys):
                    tags.add("record_backfill")
            types = []
            cols = {}
            for k in keys:
                col = [values[i].fields.get(k, MISSING if values[i].open else None) for i in idx]
                T, conv = unify(col, tags)
                types.append([k, T])
                cols[k] = conv
            for r, i in enumerate(idx):
                out[i] = collections.OrderedDict((k, cols[k][r]) for k in keys)
            members.append(["record", types, False, gk[1]])
    if not members:
        T = ["unknown"]
    elif len(members) == 1:
        T = members[0]
    else:
        T = ["union", members]
        tags.add("union")
    if has_none:
        T = ["option", T]
        if members:
            tags.add("option")
    return T, out


# ------------------------------------------------------------------------------------------------ strict comparison
def _same_float(a, b):
    if math.isnan(a) or math.isnan(b):
        return math.isnan(a) and math.isnan(b)
    return a == b and math.copysign(1.0, a) == math.copysign(1.0, b)


def _tn(v):
    if isinstance(v, Ext):
        v = v.value
    if v is None:
        return "None"
    if isinstance(v, (np.datetime64, np.timedelta64)):
        return "time"
    if isinstance(v, (dict, collections.OrderedDict)):
        return "record"
    return type(v).__name__


def diff(e, o, lenient=False, path="$"):
    """None if the observed value `o` (from akmodel.core.decode) equals the expected value `e`, else
    (key, message): key = "<expected kind>/<observed kind>" of the first difference, message says where.
    lenient: numbers are compared numerically only (type knowledge that survived a clear(), or values that entered
    by reference, may legitimately turn an int into a float)."""
    def bad(what=None):
        return ("%s/%s" % (_tn(e), _tn(o)), what or "%s: expected %r, observed %r" % (path, e, o))

    if isinstance(e, Ext):
        return None if M.same_value(e.value, o) else bad("%s: expected (by reference) %r, observed %r" % (path, e.value, o))
    if e is None or o is None:
        return None if (e is None and o is None) else bad()
    if isinstance(e, bool) or isinstance(o, bool):
        return None if (isinstance(e, bool) and isinstance(o, bool) and e == o) else bad()
    if isinstance(e, (int, float, complex)):
        if not isinstance(o, (int, float, complex)):
            return bad()
        if lenient:
            return None if M.same_value(e, o) else bad()
        if type(e) is not type(o):
            return bad("%s: expected %s %r, observed %s %r" % (path, type(e).__name__, e, type(o).__name__, o))
        if isinstance(e, int):
            ok = e == o
        elif isinstance(e, float):
            ok = _same_float(e, o)
        else:
            ok = _same_float(e.real, o.real) and _same_float(e.imag, o.imag)
        return None if ok else bad()
    if isinstance(e, (np.datetime64, np.timedelta64)):
        # members with different units may be merged into the finer unit: the instant/duration must be the same
        try:
            ok = type(e) is type(o) and (bool(e == o) or (np.isnat(e) and np.isnat(o)))
        except OverflowError:       # numpy cannot bring the two units together
            ok = False
        return None if ok else bad()
    if isinstance(e, (str, bytes)):
        return None if (type(e) is type(o) and e == o) else bad()
    if isinstance(e, list):
        if not isinstance(o, list) or len(e) != len(o):
            return bad("%s: expected a list of %d, observed %s" % (path, len(e), ("a list of %d" % len(o)) if isinstance(o, list) else repr(o)))
        for i, (x, y) in enumerate(zip(e, o)):
            d = diff(x, y, lenient, "%s[%d]" % (path, i))
            if d:
                return d
        return None
    if isinstance(e, tuple):
        if not isinstance(o, tuple) or len(e) != len(o):
            return bad()
        for i, (x, y) in enumerate(zip(e, o)):
            d = diff(x, y, lenient, "%s(%d)" % (path, i))
            if d:
                return d
        return None
    if isinstance(e, dict):
        if not isinstance(o, dict) or set(e) != set(o):
            return bad("%s: expected a record with fields %r, observed %r" % (path, list(e), list(o) if isinstance(o, dict) else o))
        for k in e:
            d = diff(e[k], o[k], lenient, "%s.%s" % (path, k))
            if d:
                return d
        return None
    raise ValueError("diff: unexpected expected value %r" % (e,))


def plain(v):
    """expected value -> JSON-able rendering for messages / replay files"""
    if isinstance(v, Ext):
        return plain(v.value)
    if isinstance(v, Rec):
        return {k: plain(x) for k, x in v.fields.items()}
    if v is MISSING:
        return "MISSING"
    if isinstance(v, (np.datetime64, np.timedelta64)):
        return str(v)
    if isinstance(v, (dict, collections.OrderedDict)):
        return {k: plain(x) for k, x in v.items()}
    if isinstance(v, list):
        return [plain(x) for x in v]
    if isinstance(v, tuple):
        return {"tuple": [plain(x) for x in v]}
    return M.jsonable(v)


# ------------------------------------------------------------------------------------------------ LayoutBuilder
LB_LEAF = {"bool": "boolean", "int64": "int64", "float64": "float64", "complex128": "complex"}


def layout_commands(d, values, out=None):
    """typed LayoutBuilder commands that append `values` to a builder made from the Form of description `d`.
    The protocol is the one of src/libawkward/layoutbuilder/*.cpp and tests/test_0924-layout-builder.py:
    leaves by typed command, lists between begin_list/end_list, strings by string()/bytestring(), records field by
    field in Form order (no command of their own), options: null() or the content's commands, unions: tag(i) first,
    regular/indexed/unmasked nodes are transparent."""
    out = [] if out is None else out
    for v in values:
        _lb_value(d, v, out)
    return out


def _lb_value(d, v, out):
    cls = d["class"]
    params = d.get("parameters") or {}
    if cls == "NumpyArray":
        dt = d["dtype"]
        if dt == "complex128":
            out.append(["complex", v.real, v.imag])
        else:
            out.append([LB_LEAF[dt], v])
        return
    if cls.startswith(("ListOffsetArray", "ListArray")):
        if params.get("__array__") == "string":
            out.append(["string", v])
            return
        if params.get("__array__") == "bytestring":
            out.append(["bytestring", v.decode("latin-1")])
            return
        out.append(["begin_list"])
        for x in v:
            _lb_value(d["content"], x, out)
        out.append(["end_list"])
        return
    if cls == "RegularArray":
        for x in v:
            _lb_value(d["content"], x, out)
        return
    if cls.startswith("IndexedOptionArray") or cls in ("ByteMaskedArray", "BitMaskedArray"):
        if v is None:
            out.append(["null"])
        else:
            _lb_value(d["content"], v, out)
        return
    if cls.startswith("IndexedArray") or cls == "UnmaskedArray":
        _lb_value(d["content"], v, out)
        return
    if cls == "RecordArray":
        keys = d.get("keys")
        for i, c in enumerate(d["contents"]):
            _lb_value(c, v[i] if keys is None else v[keys[i]], out)
        return
    if cls.startswith("UnionArray"):
        tag = v[0]
        out.append(["tag", tag])
        _lb_value(d["contents"][tag], v[1], out)
        return
    raise ValueError("layout_commands: " + cls)
