"""Independent printer of model types in the documented datashape syntax, and the type-level queries
(depth, regularity, fields) of the nested-list value.

Pure Python; never imports the code under test.  Sources of the syntax:
  * Datashape (https://datashape.readthedocs.io): `var * T`, `n * T`, `?T`, `option[T]`, `{"x": T}`, `(T, T)`;
  * ak.type docstring (/repo/src/awkward/operations/describe.py): `union[...]`, `string`, the `n *` length prefix;
  * ak.behavior / behaviors/string.py / behaviors/categorical.py: `__typestr__` overrides (string, bytes, char, byte and
    user-defined ones, looked up by `__record__` then by `__array__`), `categorical[type=T]`;
  * /repo/src/awkward/_typeparser/type-grammar.lark, the grammar file of the extended syntax:
    `T[parameters={...}]`, `[var * T, parameters={...}]`, `[n * T, parameters={...}]`, `option[T, parameters={...}]`,
    `union[A, B, parameters={...}]`, `tuple[[A, B], parameters={...}]`, `struct[["x"], [A], parameters={...}]`,
    `Name["x": A]`.

Extended model types: the akmodel type lists (akmodel.core) with an optional trailing dict
    {"parameters": {key: json-value}, "typestr": str}
e.g. ["list", ["prim", "int64", {"parameters": {"u": 1}}], {"parameters": {"k": [1, 2]}}].
The record name T[3] of a record type is the parameter "__record__"; ["string"] / ["bytes"] are lists of uint8 with
`__array__` = "string"/"bytestring" over `__array__` = "char"/"byte".
"""
import json

DEFAULT_TYPESTRS = {"byte": "byte", "char": "char", "bytestring": "bytes", "string": "string"}

# words that cannot be used as the name in `Name[...]` because Datashape gives them another meaning
DATASHAPE_KEYWORDS = {"var", "option", "bool", "int8", "int16", "int32", "int64", "int128", "uint8", "uint16", "uint32", "uint64",
                      "uint128", "float16", "float32", "float64", "float128", "decimal32", "decimal64", "decimal128", "bignum", "int",
                      "real", "complex", "intptr", "uintptr", "string", "char", "bytes", "date", "json", "void", "datetime",
                      "categorical", "pointer"}


def meta(T):
    return T[-1] if isinstance(T[-1], dict) else {}


def with_meta(T, parameters=None, typestr=None):
    base = list(T[:-1]) if isinstance(T[-1], dict) else list(T)
    m = {}
    if parameters:
        m["parameters"] = parameters
    if typestr:
        m["typestr"] = typestr
    return base + [m] if m else base


def parameters(T):
    """all parameters of the node, as {key: json value}"""
    p = dict(meta(T).get("parameters") or {})
    k = T[0]
    if k == "record" and T[3] is not None:
        p["__record__"] = T[3]
    if k == "string":
        p["__array__"] = "string"
    if k == "bytes":
        p["__array__"] = "bytestring"
    return p


def quote(s):
    """a JSON string literal as RapidJSON's Writer emits it (UTF-8 passes through; control characters as \\u00XX, upper case)"""
    out = ['"']
    for ch in s:
        o = ord(ch)
        if ch == '"':
            out.append('\\"')
        elif ch == "\\":
            out.append("\\\\")
        elif ch == "\b":
            out.append("\\b")
        elif ch == "\f":
            out.append("\\f")
        elif ch == "\n":
            out.append("\\n")
        elif ch == "\r":
            out.append("\\r")
        elif ch == "\t":
            out.append("\\t")
        elif o < 0x20:
            out.append("\\u%04X" % o)
        else:
            out.append(ch)
    out.append('"')
    return "".join(out)


def jsontext(v):
    """the text a parameter value is stored as when it is set through the Python API (json.dumps, as the binding does)"""
    return json.dumps(v)


def _paramstr(p, text):
    keys = sorted((k for k in p if k != "__categorical__"), key=lambda k: k.encode("utf-8", "surrogatepass"))   # std::map<std::string, ...> order
    return "parameters={" + ", ".join("%s: %s" % (quote(k), text(p[k])) for k in keys) + "}"


def _typestr_for(T, p, typestrs):
    m = meta(T)
    if m.get("typestr"):
        return m["typestr"]
    for key in ("__record__", "__array__"):
        v = p.get(key)
        if isinstance(v, str) and v in typestrs:
            return typestrs[v]
    return None


def is_name(v):
    if not isinstance(v, str) or v == "":
        return False
    if not (v[0].isascii() and (v[0].isalpha() or v[0] == "_")):
        return False
    return all(c.isascii() and (c.isalnum() or c == "_") for c in v)


def _is_listtype(T):
    return T[0] in ("list", "regular", "string", "bytes")


def show(T, typestrs=DEFAULT_TYPESTRS, text=jsontext):
    """the datashape string of a (composable) type"""
    k = T[0]
    p = parameters(T)
    categorical = p.get("__categorical__") is True
    plain = {key: v for key, v in p.items() if not (key == "__categorical__" and v is True)}
    ts = _typestr_for(T, p, typestrs)
    if ts is not None:
        body = ts
    elif k == "prim":
        body = T[1] if not plain else "%s[%s]" % (T[1], _paramstr(plain, text))
    elif k == "unknown":
        body = "unknown" if not plain else "unknown[%s]" % _paramstr(plain, text)
    elif k in ("list", "string", "bytes"):
        inner = show(_content(T), typestrs, text)
        body = "var * " + inner if not plain else "[var * %s, %s]" % (inner, _paramstr(plain, text))
    elif k == "regular":
        inner = show(T[1], typestrs, text)
        body = "%d * %s" % (T[2], inner) if not plain else "[%d * %s, %s]" % (T[2], inner, _paramstr(plain, text))
    elif k == "option":
        inner = show(T[1], typestrs, text)
        if plain:
            body = "option[%s, %s]" % (inner, _paramstr(plain, text))
        elif _is_listtype(T[1]):
            body = "option[%s]" % inner      # `?var * T` would read as a list of options in Datashape
        else:
            body = "?" + inner
    elif k == "union":
        inner = ", ".join(show(t, typestrs, text) for t in T[1])
        body = "union[%s]" % inner if not plain else "union[%s, %s]" % (inner, _paramstr(plain, text))
    elif k == "record":
        fields, istuple = T[1], T[2]
        shown = [show(t, typestrs, text) for _, t in fields]
        name = p.get("__record__")
        if len(p) == 1 and is_name(name) and name not in DATASHAPE_KEYWORDS:
            if istuple:
                body = "%s[%s]" % (name, ", ".join(shown))
            else:
                body = "%s[%s]" % (name, ", ".join("%s: %s" % (quote(n), s) for (n, _), s in zip(fields, shown)))
        elif not plain:
            if istuple:
                body = "(" + ", ".join(shown) + ")"
            else:
                body = "{" + ", ".join("%s: %s" % (quote(n), s) for (n, _), s in zip(fields, shown)) + "}"
        elif istuple:
            body = "tuple[[%s], %s]" % (", ".join(shown), _paramstr(plain, text))
        else:
            body = "struct[[%s], [%s], %s]" % (", ".join(quote(n) for n, _ in fields), ", ".join(shown), _paramstr(plain, text))
    else:
        raise ValueError(T)
    return "categorical[type=%s]" % body if categorical else body


def show_array(T, length, typestrs=DEFAULT_TYPESTRS, text=jsontext):
    """the datashape string of an array of `length` items of type T (ak.types.ArrayType)"""
    return "%d * %s" % (length, show(T, typestrs, text))


def _content(T):
    if T[0] == "string":
        return ["prim", "uint8", {"parameters": {"__array__": "char"}}]
    if T[0] == "bytes":
        return ["prim", "uint8", {"parameters": {"__array__": "byte"}}]
    return T[1]


def count_nodes(T):
    k = T[0]
    if k in ("prim", "unknown"):
        return 1
    if k in ("string", "bytes"):
        return 2
    if k in ("list", "regular", "option"):
        return 1 + count_nodes(T[1])
    if k == "record":
        return 1 + sum(count_nodes(t) for _, t in T[1])
    if k == "union":
        return 1 + sum(count_nodes(t) for t in T[1])
    raise ValueError(T)


def has_annotation(T):
    """does any node carry a parameter or a record name?"""
    if parameters(T) and T[0] not in ("string", "bytes"):
        return True
    if T[0] in ("string", "bytes") and (meta(T).get("parameters")):
        return True
    k = T[0]
    if k in ("list", "regular", "option"):
        return has_annotation(T[1])
    if k == "record":
        return any(has_annotation(t) for _, t in T[1])
    if k == "union":
        return any(has_annotation(t) for t in T[1])
    return False


def strip(T):
    """the plain akmodel.core type (no parameters) of an extended type"""
    k = T[0]
    if k in ("prim",):
        return ["prim", T[1]]
    if k in ("unknown", "string", "bytes"):
        return [k]
    if k in ("list", "option"):
        return [k, strip(T[1])]
    if k == "regular":
        return ["regular", strip(T[1]), T[2]]
    if k == "record":
        return ["record", [[n, strip(t)] for n, t in T[1]], T[2], T[3]]
    if k == "union":
        return ["union", [strip(t) for t in T[1]]]
    raise ValueError(T)


# --------------------------------------------------------------------------- queries answered from the nested-list value's type
def purelist_depth(T):
    """number of list dimensions down to the first record layer (docs-sphinx/ak.layout.Content.rst); a string is a leaf"""
    k = T[0]
    if k in ("prim", "unknown", "string", "bytes", "record"):
        return 1
    if k in ("list", "regular"):
        return 1 + purelist_depth(T[1])
    if k == "option":
        return purelist_depth(T[1])
    if k == "union":
        ds = [purelist_depth(t) for t in T[1]]
        return ds[0] if all(d == ds[0] for d in ds) else -1
    raise ValueError(T)


def purelist_isregular(T):
    """all dimensions down to the first record layer are regular"""
    k = T[0]
    if k in ("prim", "unknown", "record"):
        return True
    if k in ("list", "string", "bytes"):
        return False
    if k == "regular":
        return purelist_isregular(T[1])
    if k == "option":
        return purelist_isregular(T[1])
    if k == "union":
        return all(purelist_isregular(t) for t in T[1])
    raise ValueError(T)


def minmax_depth(T):
    """(min, max) list depth over all branches (record fields, union members); None where the value does not decide it
    (a record without fields has no branch to follow)"""
    k = T[0]
    if k in ("prim", "unknown", "string", "bytes"):
        return (1, 1)
    if k in ("list", "regular"):
        r = minmax_depth(T[1])
        return None if r is None else (r[0] + 1, r[1] + 1)
    if k == "option":
        return minmax_depth(T[1])
    if k in ("record", "union"):
        subs = [t for _, t in T[1]] if k == "record" else T[1]
        if not subs:
            return None
        ds = [minmax_depth(t) for t in subs]
        if any(d is None for d in ds):
            return None
        return (min(a for a, _ in ds), max(b for _, b in ds))
    raise ValueError(T)


def branch_depth(T):
    """(does the depth differ between branches?, minimum depth); None where undecided (see minmax_depth)"""
    k = T[0]
    if k in ("prim", "unknown", "string", "bytes"):
        return (False, 1)
    if k in ("list", "regular"):
        r = branch_depth(T[1])
        return None if r is None else (r[0], r[1] + 1)
    if k == "option":
        return branch_depth(T[1])
    if k in ("record", "union"):
        subs = [t for _, t in T[1]] if k == "record" else T[1]
        if not subs:
            return None
        ds = [branch_depth(t) for t in subs]
        if any(d is None for d in ds):
            return None
        depths = [d for _, d in ds]
        return (any(b for b, _ in ds) or len(set(depths)) > 1, min(depths))
    raise ValueError(T)


def outer_record(T):
    """the outermost record layer reached through lists and options; "union" if a union is met first; None if there is none"""
    k = T[0]
    if k == "record":
        return T
    if k in ("list", "regular", "option"):
        return outer_record(T[1])
    if k == "union":
        return "union"
    return None


def keys(T):
    """keys of the outermost record or tuple, else []; for a union the keys every member has (in the first member's order)"""
    k = T[0]
    if k == "record":
        return [n for n, _ in T[1]]
    if k in ("list", "regular", "option"):
        return keys(T[1])
    if k == "union":
        ks = [keys(t) for t in T[1]]
        return [x for x in ks[0] if all(x in other for other in ks[1:])]
    return []


def numfields(T):
    """number of fields of the outermost record or tuple, -1 if there is none; None for a union (not stated by the docs)"""
    r = outer_record(T)
    if r is None:
        return -1
    if r == "union":
        return None
    return len(r[1])


# --------------------------------------------------------------------------- extended type of a physical description
class Unmodelled(Exception):
    """the documents do not say what the type of this description is (parameters on a non-categorical IndexedArray)"""


def type_of(d):
    """description (akmodel.core) -> extended type: every node's parameters become its type node's parameters;
    IndexedArray is transparent, except that `__array__: "categorical"` marks its content's type as categorical
    (behaviors/categorical.py); n-dimensional NumpyArrays are regular lists of a primitive that carries the parameters
    (docs-sphinx/ak.forms.NumpyForm.rst: "PrimitiveType, possibly wrapped in one or more layers of RegularType")"""
    cls = d["class"]
    params = dict(d.get("parameters") or {})
    if cls == "NumpyArray":
        T = with_meta(["prim", d["dtype"]], params)
        for n in reversed(d["shape"][1:]):
            T = ["regular", T, n]
        return T
    if cls == "EmptyArray":
        return with_meta(["unknown"], params)
    if cls.startswith(("ListOffsetArray", "ListArray")) or cls == "RegularArray":
        if params.get("__array__") in ("string", "bytestring"):
            kind = "string" if params["__array__"] == "string" else "bytes"
            rest = {k: v for k, v in params.items() if k != "__array__"}
            return with_meta([kind], rest)
        ct = type_of(d["content"])
        if cls == "RegularArray":
            return with_meta(["regular", ct, d["size"]], params)
        return with_meta(["list", ct], params)
    if cls.startswith("IndexedOptionArray") or cls in ("ByteMaskedArray", "BitMaskedArray", "UnmaskedArray"):
        ct = type_of(d["content"])
        if cls.startswith("IndexedOptionArray") and params.get("__array__") == "categorical":
            params = {k: v for k, v in params.items() if k != "__array__"}
            params["__categorical__"] = True
        return with_meta(["option", ct], params)
    if cls.startswith("IndexedArray"):
        ct = type_of(d["content"])
        if not params:
            return ct
        if params == {"__array__": "categorical"}:
            p = dict(meta(ct).get("parameters") or {})
            p["__categorical__"] = True
            return with_meta(ct, p, meta(ct).get("typestr"))
        raise Unmodelled("parameters on an IndexedArray")
    if cls == "RecordArray":
        subs = [type_of(c) for c in d["contents"]]
        keys_ = d.get("keys")
        istuple = keys_ is None
        names = [str(i) for i in range(len(subs))] if istuple else list(keys_)
        recname = params.get("__record__")
        rest = {k: v for k, v in params.items() if k != "__record__"}
        if recname is not None and not isinstance(recname, str):
            rest["__record__"] = recname
            recname = None
        return with_meta(["record", [[k, t] for k, t in zip(names, subs)], istuple, recname], rest)
    if cls.startswith("UnionArray"):
        return with_meta(["union", [type_of(c) for c in d["contents"]]], params)
    raise ValueError("unknown class " + cls)
