"""Oracle side of the Form JSON round trip (C17 part B): the normal form of a Form JSON tree.

`normal(j)` is what `Form.tojson(verbose=True)` must print (as parsed JSON) for the form read from `j`, derived from the
documented reader/printer conventions only (docs-sphinx/ak.forms.*.rst: "Forms are rendered as JSON strings, the same JSON that can
be used to construct them"; tojson: "if verbose, all fields will be shown, even defaults"):
  * a bare primitive name "float64" is shorthand for a NumpyArray node of that primitive with every default;
  * defaults: inner_shape [], has_identities false (legacy spelling "has_identifier"), parameters {}, form_key null;
  * NumpyForm: "either the primitive or the format needs to be specified"; `primitive` is the platform-independent name,
    `format`/`itemsize` the platform-dependent spelling (canonical ones for this platform in CANONICAL_FORMAT);
  * classes with an index width may be written generically ("ListOffsetArray" + "offsets": "i64") or specifically
    ("ListOffsetArray64"); the printer always uses the specific class and the index fields.
Pure Python; never imports the code under test.
"""
import json

CANONICAL_FORMAT = {"bool": "?", "int8": "b", "int16": "h", "int32": "i", "int64": "l", "uint8": "B", "uint16": "H", "uint32": "I",
                    "uint64": "L", "float16": "e", "float32": "f", "float64": "d", "float128": "g", "complex64": "Zf",
                    "complex128": "Zd", "complex256": "Zg", "datetime64": "M", "timedelta64": "m"}
ITEMSIZE = {"bool": 1, "int8": 1, "int16": 2, "int32": 4, "int64": 8, "uint8": 1, "uint16": 2, "uint32": 4, "uint64": 8,
            "float16": 2, "float32": 4, "float64": 8, "float128": 16, "complex64": 8, "complex128": 16, "complex256": 32,
            "datetime64": 8, "timedelta64": 8}
_SIGNED = {1: "int8", 2: "int16", 4: "int32", 8: "int64"}
_UNSIGNED = {1: "uint8", 2: "uint16", 4: "uint32", 8: "uint64"}
_WIDTH = {"i32": "32", "u32": "U32", "i64": "64"}


def primitive_of_format(fmt, itemsize):
    """the platform-independent name of a struct-module format on a little-endian machine, or None"""
    f = fmt
    if len(f) > 1 and f[0] in "<=":
        f = f[1:]
    elif len(f) > 1 and f[0] == ">":
        return None
    if f == "?":
        return "bool"
    if f in ("b", "h", "i", "l", "q"):
        return _SIGNED.get(itemsize)
    if f in ("c", "B", "H", "I", "L", "Q"):
        return _UNSIGNED.get(itemsize)
    simple = {"e": "float16", "f": "float32", "d": "float64", "g": "float128", "Zf": "complex64", "Zd": "complex128", "Zg": "complex256",
              "M": "datetime64", "m": "timedelta64"}
    if f in simple:
        return simple[f]
    if f[:2] in ("M8", "m8"):
        return "datetime64" if f[0] == "M" else "timedelta64"
    return None


def _common(j):
    hi = False
    if "has_identifier" in j:
        hi = j["has_identifier"]
    elif "has_identities" in j:
        hi = j["has_identities"]
    return {"has_identities": hi, "parameters": dict(j.get("parameters") or {}), "form_key": j.get("form_key")}


def normal(j):
    if isinstance(j, str):
        return {"class": "NumpyArray", "inner_shape": [], "itemsize": ITEMSIZE[j], "format": CANONICAL_FORMAT[j], "primitive": j,
                "has_identities": False, "parameters": {}, "form_key": None}
    cls = j["class"]
    out = {"class": cls}
    if cls == "NumpyArray":
        out["inner_shape"] = list(j.get("inner_shape") or [])
        if "primitive" in j:
            # the primitive decides; a format given beside it is only this or another platform's spelling of the same thing -
            # except for date-times, whose unit is written nowhere else
            prim = j["primitive"]
            fmt = CANONICAL_FORMAT[prim]
            if prim in ("datetime64", "timedelta64") and "format" in j and primitive_of_format(j["format"], j.get("itemsize")) == prim:
                fmt = j["format"]
        else:
            fmt = j["format"]
            prim = primitive_of_format(fmt, j["itemsize"])
        out["itemsize"] = j.get("itemsize", ITEMSIZE.get(prim))
        out["format"] = fmt
        out["primitive"] = prim
    elif cls == "EmptyArray":
        pass
    elif cls == "RegularArray":
        out["content"] = normal(j["content"])
        out["size"] = j["size"]
    elif cls.startswith("ListOffsetArray"):
        w = j.get("offsets") or {"32": "i32", "U32": "u32", "64": "i64"}[cls[len("ListOffsetArray"):]]
        out["class"] = "ListOffsetArray" + _WIDTH[w]
        out["offsets"] = w
        out["content"] = normal(j["content"])
    elif cls.startswith("ListArray"):
        w = j.get("starts") or {"32": "i32", "U32": "u32", "64": "i64"}[cls[len("ListArray"):]]
        out["class"] = "ListArray" + _WIDTH[w]
        out["starts"] = w
        out["stops"] = w
        out["content"] = normal(j["content"])
    elif cls.startswith("IndexedOptionArray"):
        w = j.get("index") or {"32": "i32", "64": "i64"}[cls[len("IndexedOptionArray"):]]
        out["class"] = "IndexedOptionArray" + _WIDTH[w]
        out["index"] = w
        out["content"] = normal(j["content"])
    elif cls.startswith("IndexedArray"):
        w = j.get("index") or {"32": "i32", "U32": "u32", "64": "i64"}[cls[len("IndexedArray"):]]
        out["class"] = "IndexedArray" + _WIDTH[w]
        out["index"] = w
        out["content"] = normal(j["content"])
    elif cls == "ByteMaskedArray":
        out["mask"] = j["mask"]
        out["content"] = normal(j["content"])
        out["valid_when"] = j["valid_when"]
    elif cls == "BitMaskedArray":
        out["mask"] = j["mask"]
        out["content"] = normal(j["content"])
        out["valid_when"] = j["valid_when"]
        out["lsb_order"] = j["lsb_order"]
    elif cls == "UnmaskedArray":
        out["content"] = normal(j["content"])
    elif cls == "RecordArray":
        cs = j["contents"]
        if isinstance(cs, dict):
            out["contents"] = {k: normal(v) for k, v in cs.items()}
        else:
            out["contents"] = [normal(v) for v in cs]
    elif cls.startswith("UnionArray"):
        w = j.get("index") or {"32": "i32", "U32": "u32", "64": "i64"}[cls[len("UnionArray8_"):]]
        out["class"] = "UnionArray8_" + _WIDTH[w]
        out["tags"] = "i8"
        out["index"] = w
        out["contents"] = [normal(v) for v in j["contents"]]
    elif cls == "VirtualArray":
        out["form"] = None if j["form"] is None else normal(j["form"])
        out["has_length"] = j["has_length"]
    else:
        raise ValueError("unknown class " + cls)
    out.update(_common(j))
    return out


_NODE_CLASS = {"NumpyForm": "NumpyArray", "EmptyForm": "EmptyArray", "RegularForm": "RegularArray", "UnmaskedForm": "UnmaskedArray",
               "ByteMaskedForm": "ByteMaskedArray", "BitMaskedForm": "BitMaskedArray", "RecordForm": "RecordArray", "VirtualForm": "VirtualArray"}


def from_info(info):
    """the bridge's accessor-level description of a Form object (op form_info) in the shape of normal()"""
    node = info["node"]
    out = {}
    if node == "NumpyForm":
        out = {"class": "NumpyArray", "inner_shape": info["inner_shape"], "itemsize": info["itemsize"], "format": info["format"],
               "primitive": info["primitive"] if info["primitive"] != "unknown" else None}
    elif node in ("EmptyForm",):
        out = {"class": "EmptyArray"}
    elif node == "RegularForm":
        out = {"class": "RegularArray", "content": from_info(info["content"]), "size": info["size"]}
    elif node == "ListOffsetForm":
        out = {"class": "ListOffsetArray" + _WIDTH.get(info["offsets"], "?" + info["offsets"]), "offsets": info["offsets"], "content": from_info(info["content"])}
    elif node == "ListForm":
        out = {"class": "ListArray" + _WIDTH.get(info["starts"], "?" + info["starts"]), "starts": info["starts"], "stops": info["stops"],
               "content": from_info(info["content"])}
    elif node == "IndexedForm":
        out = {"class": "IndexedArray" + _WIDTH.get(info["index"], "?" + info["index"]), "index": info["index"], "content": from_info(info["content"])}
    elif node == "IndexedOptionForm":
        out = {"class": "IndexedOptionArray" + _WIDTH.get(info["index"], "?" + info["index"]), "index": info["index"], "content": from_info(info["content"])}
    elif node == "ByteMaskedForm":
        out = {"class": "ByteMaskedArray", "mask": info["mask"], "content": from_info(info["content"]), "valid_when": info["valid_when"]}
    elif node == "BitMaskedForm":
        out = {"class": "BitMaskedArray", "mask": info["mask"], "content": from_info(info["content"]), "valid_when": info["valid_when"],
               "lsb_order": info["lsb_order"]}
    elif node == "UnmaskedForm":
        out = {"class": "UnmaskedArray", "content": from_info(info["content"])}
    elif node == "RecordForm":
        cs = [from_info(c) for c in info["contents"]]
        out = {"class": "RecordArray", "contents": cs if info["keys"] is None else dict(zip(info["keys"], cs))}
        if info["keys"] is not None and len(set(info["keys"])) != len(info["keys"]):
            out["duplicate_keys"] = info["keys"]
    elif node == "UnionForm":
        out = {"class": "UnionArray8_" + _WIDTH.get(info["index"], "?" + info["index"]), "tags": info["tags"], "index": info["index"],
               "contents": [from_info(c) for c in info["contents"]]}
    elif node == "VirtualForm":
        out = {"class": "VirtualArray", "form": None if info["form"] is None else from_info(info["form"]), "has_length": info["has_length"]}
    else:
        raise ValueError(node)
    out["has_identities"] = info["has_identities"]
    out["parameters"] = {k: json.loads(v) for k, v in info["rawparameters"].items()}
    out["form_key"] = info["form_key"]
    return out


_GRAMMAR_INDEX = {"ListOffsetArray": ("i32", "u32", "i64"), "ListArray": ("i32", "u32", "i64"), "IndexedArray": ("i32", "u32", "i64"),
                  "IndexedOptionArray": ("i32", "i64"), "UnionArray8_": ("i32", "u32", "i64")}


def outside_grammar(n):
    """why a form (in the shape of normal()/from_info()) is not a node of the documented grammar - i.e. describes no array class
    of the library - or None.  Form.fromjson is lenient (a generic "ListOffsetArray" with "offsets": "i8" is read), but the
    property only speaks about forms constructible from the node grammar."""
    if n is None:
        return None
    cls = n["class"]
    if "?" in cls:
        return "index width without an array class: " + cls
    for family, widths in _GRAMMAR_INDEX.items():
        if cls.startswith(family) and (family != "IndexedArray" or not cls.startswith("IndexedOptionArray")):
            w = n.get("offsets") or n.get("starts") or n.get("index")
            if w not in widths:
                return "index width without an array class: %s %s" % (family, w)
    if cls == "NumpyArray":
        if n["primitive"] is None:
            return "format that is no primitive"
        if n["itemsize"] != ITEMSIZE.get(n["primitive"]):
            return "itemsize that is not the primitive's"
        if any((not isinstance(x, int)) or x < 0 for x in n["inner_shape"]):
            return "negative inner_shape"
        return None
    if cls == "RegularArray" and n["size"] < 0:
        return "negative size"
    if cls.startswith("ListArray") and n["starts"] != n["stops"]:
        return "starts and stops of different widths"
    if cls == "ByteMaskedArray" and n["mask"] != "i8":
        return "ByteMaskedArray mask that is not i8"
    if cls == "BitMaskedArray" and n["mask"] != "u8":
        return "BitMaskedArray mask that is not u8"
    if cls.startswith("UnionArray") and n["tags"] != "i8":
        return "UnionArray tags that are not i8"
    if "duplicate_keys" in n:
        return "duplicate record keys"
    for key in ("content", "form"):
        if n.get(key) is not None:
            r = outside_grammar(n[key])
            if r:
                return r
    cs = n.get("contents")
    for c in (cs.values() if isinstance(cs, dict) else cs or []):
        r = outside_grammar(c)
        if r:
            return r
    return None


def json_equal(a, b, key_order=False):
    """equality of JSON values: numbers by numeric value (1 == 1.0), bools only equal bools, objects ignore member order
    (unless key_order), arrays are ordered"""
    if isinstance(a, bool) or isinstance(b, bool):
        return isinstance(a, bool) and isinstance(b, bool) and a == b
    if isinstance(a, (int, float)) and isinstance(b, (int, float)):
        if isinstance(a, int) and isinstance(b, int):
            return a == b
        try:
            return float(a) == float(b) and (not (isinstance(a, int) or isinstance(b, int)) or int(a) == int(b))
        except OverflowError:
            return False
    if a is None or b is None:
        return a is None and b is None
    if isinstance(a, str) or isinstance(b, str):
        return isinstance(a, str) and isinstance(b, str) and a == b
    if isinstance(a, list) or isinstance(b, list):
        return isinstance(a, list) and isinstance(b, list) and len(a) == len(b) and all(json_equal(x, y, key_order) for x, y in zip(a, b))
    if isinstance(a, dict) and isinstance(b, dict):
        if set(a) != set(b) or (key_order and list(a) != list(b)):
            return False
        return all(json_equal(a[k], b[k], key_order) for k in a)
    return False


def form_equal(a, b, path="form"):
    """first difference between two normal forms, or None.  Field order of record contents matters; nothing else's order does."""
    if isinstance(a, dict) and isinstance(b, dict) and "class" in a and "class" in b:
        if set(a) != set(b):
            return "%s: members %s vs %s" % (path, sorted(a), sorted(b))
        for k in a:
            if k == "parameters":
                if not json_equal(a[k], b[k]):
                    return "%s.parameters: %s vs %s" % (path, json.dumps(a[k])[:200], json.dumps(b[k])[:200])
            elif k in ("content", "form"):
                r = form_equal(a[k], b[k], path + "." + k)
                if r:
                    return r
            elif k == "contents":
                x, y = a[k], b[k]
                if type(x) is not type(y) or len(x) != len(y):
                    return "%s.contents: %s vs %s" % (path, type(x).__name__, type(y).__name__)
                if isinstance(x, dict):
                    if list(x) != list(y):
                        return "%s.contents keys: %r vs %r" % (path, list(x), list(y))
                    pairs = [(x[n], y[n], n) for n in x]
                else:
                    pairs = [(p, q, str(i)) for i, (p, q) in enumerate(zip(x, y))]
                for p, q, n in pairs:
                    r = form_equal(p, q, path + ".contents[" + n + "]")
                    if r:
                        return r
            elif not json_equal(a[k], b[k]) or type(a[k]) is not type(b[k]):
                return "%s.%s: %r vs %r" % (path, k, a[k], b[k])
        return None
    if a is None and b is None:
        return None
    return "%s: %r vs %r" % (path, a, b)


def count_nodes(j):
    if isinstance(j, str):
        return 1
    if not isinstance(j, dict):
        return 0
    n = 1
    for key in ("content", "form"):
        if j.get(key) is not None:
            n += count_nodes(j[key])
    cs = j.get("contents")
    if isinstance(cs, dict):
        n += sum(count_nodes(c) for c in cs.values())
    elif isinstance(cs, list):
        n += sum(count_nodes(c) for c in cs)
    return n


def has_parameters(j):
    if not isinstance(j, dict):
        return False
    if j.get("parameters"):
        return True
    for key in ("content", "form"):
        if has_parameters(j.get(key)):
            return True
    cs = j.get("contents")
    if isinstance(cs, dict):
        return any(has_parameters(c) for c in cs.values())
    if isinstance(cs, list):
        return any(has_parameters(c) for c in cs)
    return False


def all_parameter_values(j, acc=None):
    acc = [] if acc is None else acc
    if isinstance(j, dict):
        if isinstance(j.get("parameters"), dict):
            acc.extend(j["parameters"].values())
        for key in ("content", "form"):
            all_parameter_values(j.get(key), acc)
        cs = j.get("contents")
        if isinstance(cs, dict):
            for c in cs.values():
                all_parameter_values(c, acc)
        elif isinstance(cs, list):
            for c in cs:
                all_parameter_values(c, acc)
    return acc
