"""Reference interpreter for AwkwardForth (property C19) - pure Python, never imports the code under test.

Written from the documented language (the AwkwardForth description: standard-Forth subset, stack/arithmetic/comparison/bitwise
words, floor division and modulo, if/else/then, do/loop/+loop with i j k, begin/again/until/while/repeat, exit, halt, pause,
variables, typed inputs/outputs) and from the usage shown in tests/test_0648*.py / test_0781*.py for run/step/resume/call.

Execution is a tree walk with Python generators: `pause` is a `yield`, so "pause and resume" needs no instruction pointer
arithmetic at all; `exit` is an exception caught at the enclosing word.  Numbers are Python integers wrapped to the machine
width after every operation.

Two side channels tell the check what NOT to assert:
  * `unspec`  - set of reasons: the program did something the documentation gives no answer for (shift count out of range,
                logical-vs-arithmetic right shift of a negative number, float->int conversion out of range, negative repeat
                count, state left behind by a failed instruction, ...).  The model keeps going with a plausible choice so that
                termination is still known, but its answer must not be compared.
  * `ub`      - set of reasons the C++ implementation would execute undefined behaviour for (signed overflow, ...): the
                sanitizer flavour aborts there; `crash` names operations that kill the process in every flavour
                (INT_MIN / -1).
"""
import math
import struct
import sys

sys.setrecursionlimit(max(sys.getrecursionlimit(), 20000))

ERRORS = ("none", "not ready", "is done", "user halt", "recursion depth exceeded", "stack underflow", "stack overflow",
          "read beyond", "seek beyond", "skip beyond", "rewind beyond", "division by zero", "varint too big")

# dtype name -> (struct code, size, kind)
DTYPES = {"bool": ("?", 1, "b"), "int8": ("b", 1, "i"), "int16": ("h", 2, "i"), "int32": ("i", 4, "i"), "int64": ("q", 8, "i"),
          "uint8": ("B", 1, "u"), "uint16": ("H", 2, "u"), "uint32": ("I", 4, "u"), "uint64": ("Q", 8, "u"),
          "float32": ("f", 4, "f"), "float64": ("d", 8, "f")}

# reader letter -> (size, kind, signed)       n/N are the platform's ssize_t/size_t (8 bytes here)
READERS = {"?": (1, "b"), "b": (1, "i"), "h": (2, "i"), "i": (4, "i"), "q": (8, "i"), "n": (8, "i"),
           "B": (1, "u"), "H": (2, "u"), "I": (4, "u"), "Q": (8, "u"), "N": (8, "u"), "f": (4, "f"), "d": (8, "f")}
NO_BIGENDIAN = ("?", "b", "B")      # "!b->" etc. are not in the documented vocabulary

STACK_WORDS = ("dup", "drop", "swap", "over", "rot", "nip", "tuck")
ARITH_WORDS = ("+", "-", "*", "/", "mod", "/mod", "negate", "1+", "1-", "abs", "min", "max")
CMP_WORDS = ("=", "<>", ">", ">=", "<", "<=", "0=")
BIT_WORDS = ("invert", "and", "or", "xor", "lshift", "rshift")
CONST_WORDS = ("false", "true")
PRINT_WORDS = (".", "cr", ".s")
LOOPVAR_WORDS = ("i", "j", "k")
BUILTINS = STACK_WORDS + ARITH_WORDS + CMP_WORDS + BIT_WORDS + CONST_WORDS + PRINT_WORDS + LOOPVAR_WORDS
STRUCTURE_WORDS = ("(", ")", "\\", ":", ";", "recurse", "variable", "input", "output", "halt", "pause", "if", "then", "else",
                   "do", "loop", "+loop", "begin", "again", "until", "while", "repeat", "exit", "!", "+!", "@",
                   "len", "pos", "end", "seek", "skip", "<-", "+<-", "stack", "rewind", ".\"", "s\"")


def parser_words():
    out = []
    for rep in ("", "#"):
        for letter in READERS:
            out.append(rep + letter + "->")
            if letter not in NO_BIGENDIAN:
                out.append(rep + "!" + letter + "->")
        out.append(rep + "varint->")
        out.append(rep + "zigzag->")
    return out


PARSER_WORDS = tuple(parser_words())


class CompileError(Exception):
    pass


class BudgetExceeded(Exception):
    pass


class Unspecified(Exception):
    """the documentation gives no answer for this source text (raised at compile time; the case is discarded)"""


class _Fault(Exception):
    def __init__(self, name):
        Exception.__init__(self, name)
        self.name = name


class _Exit(Exception):
    pass


def is_integer_literal(word):
    body = word[1:] if word[:1] == "-" else word
    if body[:2] == "0x" and word[:1] != "-":
        return len(body) > 2 and all(c in "0123456789abcdefABCDEF" for c in body[2:])
    return body.isdigit() and body.isascii()


def literal_value(word):
    return int(word, 16) if word[:2] == "0x" else int(word)


def nbit_of(word):
    """(repeated, flipped, nbits) for '5bit->', '#!12bit->' ...; None otherwise"""
    w = word
    rep = w[:1] == "#"
    if rep:
        w = w[1:]
    big = w[:1] == "!"
    if big:
        w = w[1:]
    if w.endswith("bit->") and w[:-5].isdigit() and w[:-5].isascii():
        n = int(w[:-5])
        if 0 < n <= 64:
            return rep, big, n
    return None


def is_reserved(word):
    return (word in STRUCTURE_WORDS or word in BUILTINS or word in PARSER_WORDS or word in DTYPES or nbit_of(word) is not None
            or word in ("\n", ""))


# ----------------------------------------------------------------------------------------------------------- tokenizer
def tokenize(source):
    """-> list of tokens; '\\n' is kept as a token (it ends backslash comments); the text after ." or s" up to the next
    double quote is one token"""
    toks = []
    n = len(source)
    pos = 0
    while pos < n:
        c = source[pos]
        if c == "\n":
            toks.append("\n")
            pos += 1
        elif c in " \r\t\v\f":
            pos += 1
        else:
            start = pos
            while pos < n and source[pos] not in " \r\t\v\f\n":
                pos += 1
            tok = source[start:pos]
            toks.append(tok)
            if tok in (".\"", "s\""):
                while pos < n and source[pos] in " \r\t\v\f\n":
                    pos += 1
                start = pos
                while pos < n and source[pos] != "\"":
                    pos += 1
                if pos >= n:
                    if "\\" in source[start:pos]:
                        raise Unspecified("backslash in a string (escape rules are not documented)")
                    raise CompileError("unclosed string")
                if "\\" in source[start:pos]:
                    raise Unspecified("backslash in a string (escape rules are not documented)")
                toks.append(source[start:pos])
                pos += 1
    return toks


# ------------------------------------------------------------------------------------------------------------ compiler
class Program(object):
    def __init__(self):
        self.variables = []
        self.inputs = []
        self.outputs = []          # [(name, dtype)]
        self.words = {}            # name -> body (list of nodes); insertion order = dictionary order
        self.strings = []
        self.main = []
        self.features = set()      # syntactic features, for the census


CLOSERS = ("then", "else", "loop", "+loop", "again", "until", "while", "repeat", ";")
STRUCTURE_IN_COMMENT = ("if", "then", "else", "do", "loop", "+loop", "begin", "until", "again", "while", "repeat", ":", ";")


def comments_of(source):
    """list of token lists, one per comment ('( ... )' nested, or '\\ ... end of line'); [] when the source cannot be tokenized"""
    try:
        toks = tokenize(source)
    except (CompileError, Unspecified):
        return []
    out = []
    p = 0
    while p < len(toks):
        w = toks[p]
        p += 1
        if w in (".\"", "s\""):
            p += 1
        elif w == "(":
            nest, body = 1, []
            while p < len(toks) and nest:
                nest += (toks[p] == "(") - (toks[p] == ")")
                if nest:
                    body.append(toks[p])
                p += 1
            out.append(body)
        elif w == "\\":
            body = []
            while p < len(toks) and toks[p] != "\n":
                body.append(toks[p])
                p += 1
            out.append(body)
    return out


class _Compiler(object):
    def __init__(self, toks):
        self.t = toks
        self.p = 0
        self.prog = Program()

    def peek(self):
        return self.t[self.p] if self.p < len(self.t) else None

    def declare_ok(self, name):
        pr = self.prog
        if (name is None or name in pr.variables or name in pr.inputs or any(name == o for o, _ in pr.outputs) or name in pr.words
                or is_reserved(name) or is_integer_literal(name)):
            raise CompileError("name %r is missing, not unique, reserved or an integer" % (name,))

    def block(self, closers, defn, dodepth):
        """parse until one of `closers` (consumed, returned); closers == () means until end of input"""
        pr = self.prog
        seq = []
        while True:
            w = self.peek()
            if w is None:
                if closers:
                    raise CompileError("missing closing %s" % "/".join(closers))
                return seq, None
            self.p += 1
            if w in closers:
                return seq, w
            if w in ("\n", ""):
                continue
            if w == "(":
                nest = 1
                while nest:
                    x = self.peek()
                    if x is None:
                        raise CompileError("'(' is missing its closing ')'")
                    self.p += 1
                    nest += (x == "(") - (x == ")")
                continue
            if w == "\\":
                while self.peek() is not None and self.peek() != "\n":
                    self.p += 1
                self.p += 1
                continue
            if w == ":":
                name = self.peek()
                if name == ";":
                    raise CompileError("missing name in word definition")
                self.declare_ok(name)
                self.p += 1
                pr.words[name] = body = []      # visible to itself: recursion by name
                got, _ = self.block((";",), name, 0)
                body.extend(got)
                pr.features.add("def")
                continue
            if w == "recurse":
                if not defn:
                    raise CompileError("recurse outside a definition")
                seq.append(("call", defn))
                pr.features.add("recurse")
                continue
            if w == "variable":
                name = self.peek()
                self.declare_ok(name)
                self.p += 1
                pr.variables.append(name)
                continue
            if w == "input":
                name = self.peek()
                self.declare_ok(name)
                self.p += 1
                pr.inputs.append(name)
                continue
            if w == "output":
                name = self.peek()
                if name is None or self.p + 1 >= len(self.t):
                    raise CompileError("missing name or dtype in output declaration")
                self.declare_ok(name)
                dt = self.t[self.p + 1]
                if dt not in DTYPES:
                    raise CompileError("output dtype not recognized")
                self.p += 2
                pr.outputs.append((name, dt))
                continue
            if w == "halt":
                seq.append(("halt",))
                pr.features.add("halt")
                continue
            if w == "pause":
                seq.append(("pause",))
                pr.features.add("pause")
                continue
            if w == "exit":
                seq.append(("exit",))
                pr.features.add("exit")
                continue
            if w == "if":
                cons, closer = self.block(("then", "else"), defn, dodepth)
                alt = None
                if closer == "else":
                    alt, _ = self.block(("then",), defn, dodepth)
                seq.append(("if", cons, alt))
                pr.features.add("if")
                continue
            if w == "do":
                body, closer = self.block(("loop", "+loop"), defn, dodepth + 1)
                seq.append(("do", body, closer == "+loop"))
                pr.features.add(closer)
                continue
            if w == "begin":
                body, closer = self.block(("again", "until", "while"), defn, dodepth)
                if closer == "while":
                    post, _ = self.block(("repeat",), defn, dodepth)
                    seq.append(("while", body, post))
                else:
                    seq.append((closer, body))
                pr.features.add(closer)
                continue
            if w in pr.variables:
                nxt = self.peek()
                if nxt not in ("!", "+!", "@"):
                    raise CompileError("missing '!', '+!', or '@' after variable name")
                self.p += 1
                seq.append(({"!": "put", "+!": "inc", "@": "get"}[nxt], pr.variables.index(w)))
                pr.features.add("var")
                continue
            if w in pr.inputs:
                nxt = self.peek()
                idx = pr.inputs.index(w)
                if nxt in ("len", "pos", "end", "seek", "skip"):
                    self.p += 1
                    seq.append(("i" + nxt, idx))
                    pr.features.add("in:" + nxt)
                    continue
                rd = self.reader(nxt)
                if rd is None:
                    raise CompileError("missing '*-> stack/output', 'seek', 'skip', 'end', 'pos', or 'len' after input name")
                self.p += 1
                tgt = self.peek()
                if tgt == "stack":
                    target = None
                elif any(tgt == o for o, _ in pr.outputs):
                    target = [o for o, _ in pr.outputs].index(tgt)
                else:
                    raise CompileError("missing 'stack' or 'output' after '*->'")
                self.p += 1
                seq.append(("read", idx, rd, target))
                pr.features.add("read")
                continue
            if any(w == o for o, _ in pr.outputs):
                idx = [o for o, _ in pr.outputs].index(w)
                nxt = self.peek()
                if nxt in ("<-", "+<-"):
                    if self.p + 1 >= len(self.t) or self.t[self.p + 1] != "stack":
                        raise CompileError("missing 'stack' after '<-'")
                    self.p += 2
                    seq.append(("write" if nxt == "<-" else "writeadd", idx))
                    pr.features.add("write")
                    continue
                if nxt in ("dup", "len", "rewind"):
                    self.p += 1
                    seq.append(("o" + nxt, idx))
                    pr.features.add("out:" + nxt)
                    continue
                raise CompileError("missing '<- stack', '+<- stack', 'dup', 'len', or 'rewind' after output name")
            if w in ("s\"", ".\""):
                text = self.peek()
                if text is None:
                    raise CompileError("unclosed string")
                self.p += 1
                seq.append(("str" if w == "s\"" else "pstr", len(pr.strings)))
                pr.strings.append(text)
                pr.features.add("string")
                continue
            if w in BUILTINS:
                if w in LOOPVAR_WORDS and dodepth < 1 + LOOPVAR_WORDS.index(w):
                    raise CompileError("%s only allowed in a (nested) 'do' loop" % w)
                seq.append(("w", w))
                continue
            if w in pr.words:
                seq.append(("call", w))
                pr.features.add("call")
                continue
            if is_integer_literal(w):
                if not -(1 << 63) <= literal_value(w) < (1 << 64):
                    raise Unspecified("integer literal beyond 64 bits")
                seq.append(("lit", literal_value(w)))
                continue
            raise CompileError("unrecognized word or wrong context for word: %r" % w)

    def reader(self, word):
        """(kind, letter, big, repeated, nbits) or None"""
        if word is None:
            return None
        if word in PARSER_WORDS:
            w = word
            rep = w[0] == "#"
            if rep:
                w = w[1:]
            big = w[0] == "!"
            if big:
                w = w[1:]
            if w in ("varint->", "zigzag->"):
                return (w[:-2], None, big, rep, 0)
            return ("typed", w[0], big, rep, 0)
        nb = nbit_of(word)
        if nb is not None:
            return ("nbit", None, nb[1], nb[0], nb[2])
        return None


def compile_source(source):
    c = _Compiler(tokenize(source))
    c.prog.main, _ = c.block((), "", 0)
    return c.prog


# ------------------------------------------------------------------------------------------------------------ numerics
def wrap(v, bits):
    m = 1 << bits
    v &= m - 1
    return v - m if v >> (bits - 1) else v


def float32_round(x):
    """nearest float32 of a Python float (inf on overflow, as a C cast does)"""
    try:
        return struct.unpack("<f", struct.pack("<f", x))[0]
    except OverflowError:
        return math.copysign(math.inf, x)


def int_to_float(v, size):
    """correctly rounded conversion of an integer to float32/float64 (one rounding, as a C cast does)"""
    if size == 8 or abs(v) < (1 << 53):
        f = float(v)
        return f if size == 8 else float32_round(f)
    # |v| >= 2**53 -> float32: round to 24 significant bits directly (round-half-even), avoiding double rounding
    sign = -1 if v < 0 else 1
    a = abs(v)
    shift = a.bit_length() - 24
    q, r = a >> shift, a & ((1 << shift) - 1)
    half = 1 << (shift - 1)
    if r > half or (r == half and (q & 1)):
        q += 1
    return float32_round(float(sign * (q << shift)))


class Machine(object):
    """one AwkwardForth machine of `bits` in (32, 64)"""

    def __init__(self, source, bits=64, stack_max_depth=1024, recursion_max_depth=1024, budget=20000):
        self.prog = compile_source(source)
        self.bits = bits
        self.smax = stack_max_depth
        self.rmax = recursion_max_depth
        self.budget = budget
        self.unspec = set()
        self.ub = set()
        self.crash = set()
        self.census = set()
        self.flags = set()          # facts about the run that known-finding predicates refer to
        self.steps = 0
        self.max_abs = 0            # largest magnitude that ever sat on the stack / in a variable / loop index
        self.ready = False
        self.reset()

    # ---- life cycle ------------------------------------------------------------------------------------------------
    def reset(self):
        self.stack = []
        self.vars = [0] * len(self.prog.variables)
        self.inputs = []
        self.pos = []
        self.outs = []
        self.tasks = []
        self.depth = 0
        self.dostack = []           # loop indices of the active do-loops (innermost last)
        self.ready = False
        self.error = "none"
        self.paused_at_do_body_end = False

    def begin(self, inputs=None):
        inputs = inputs or {}
        self.reset()
        for name in self.prog.inputs:
            if name not in inputs:
                raise ValueError("AwkwardForth source code defines an input that was not provided: " + name)
        self.inputs = [bytes(inputs[name]) for name in self.prog.inputs]
        self.pos = [0] * len(self.inputs)
        self.outs = [[] for _ in self.prog.outputs]
        self.tasks = [(self._task(self.prog.main), 0, 0)]
        self.ready = True

    @property
    def done(self):
        return not self.tasks

    def resume(self):
        if not self.ready:
            return "not ready"
        if self.done:
            return "is done"
        if self.error != "none":
            return self.error
        return self._advance()

    def run(self, inputs=None):
        self.begin(inputs)
        return self._advance()

    def call(self, name):
        if name not in self.prog.words:
            raise RuntimeError("AwkwardForth unrecognized word: " + name)
        if not self.ready:
            return "not ready"
        if self.error != "none":
            return self.error
        if self.paused_at_do_body_end and len(self.tasks) == 1:
            self.flags.add("call-at-do-body-end")
        self.tasks.append((self._task(self.prog.words[name]), self.depth, len(self.dostack)))
        return self._advance()

    def _task(self, seq):
        try:
            yield from self._segment(seq, True)
        except _Exit:
            pass

    def _advance(self):
        gen, base_depth, base_do = self.tasks[-1]
        try:
            next(gen)
            return "none"                      # paused
        except StopIteration:
            self.tasks.pop()
            self.depth = base_depth
            del self.dostack[base_do:]
            return "none"
        except _Fault as f:
            self.error = f.name
            if f.name == "user halt":
                self.tasks = []
                self.depth = 0
                self.dostack = []
                self.ready = False
            return f.name

    # ---- observable state ------------------------------------------------------------------------------------------
    def output_bytes(self, k):
        code = DTYPES[self.prog.outputs[k][1]][0]
        return struct.pack("<%d%s" % (len(self.outs[k]), code), *self.outs[k])

    def snapshot(self):
        return {"stack": list(self.stack),
                "variables": dict(zip(self.prog.variables, self.vars)),
                "outputs": {name: [dt, list(self.outs[k])] for k, (name, dt) in enumerate(self.prog.outputs)} if self.outs or not self.prog.outputs else {},
                "positions": dict(zip(self.prog.inputs, self.pos)),
                "error": self.error, "ready": self.ready, "done": self.done}

    # ---- stack helpers ---------------------------------------------------------------------------------------------
    def need(self, n):
        if len(self.stack) < n:
            raise _Fault("stack underflow")

    def room(self, n=1):
        if len(self.stack) + n > self.smax:
            raise _Fault("stack overflow")

    def push(self, v):
        if len(self.stack) >= self.smax:
            raise _Fault("stack overflow")
        a = v if v >= 0 else -v - 1
        if a > self.max_abs:
            self.max_abs = a
        self.stack.append(v)

    def arith(self, v, what="signed-overflow"):
        """wrap an exact result to the machine width; an out-of-range exact result is signed overflow in C++"""
        w = wrap(v, self.bits)
        if w != v:
            self.ub.add(what)
        a = v if v >= 0 else -v - 1
        if a > self.max_abs:
            self.max_abs = a
        return w

    def tick(self):
        self.steps += 1
        if self.steps > self.budget:
            raise BudgetExceeded()

    # ---- execution -------------------------------------------------------------------------------------------------
    def _enter(self):
        if self.depth >= self.rmax:
            raise _Fault("recursion depth exceeded")
        self.depth += 1

    def _segment(self, seq, top=False, dobody=False):
        """generator: runs a block (main program, word body, if/loop body) one nesting level deeper"""
        self._enter()
        st = self.stack
        last = len(seq) - 1
        for index, node in enumerate(seq):
            self.tick()
            op = node[0]
            if op == "lit":
                if not -(1 << 31) <= node[1] < (1 << 31):
                    # bytecodes are 32-bit: not representable, the description is silent.  The model keeps going with the low 32 bits
                    # (what the implementation stores), so that termination is decided on the same values
                    self.unspec.add("literal-beyond-int32")
                    self.push(wrap(wrap(node[1], 32), self.bits))
                else:
                    self.push(node[1])
                self.max_abs = max(self.max_abs, abs(node[1]))
            elif op == "w":
                self._builtin(node[1])
            elif op == "call":
                self.census.add("exec:call")
                depth0, do0 = self.depth, len(self.dostack)
                try:
                    yield from self._segment(self.prog.words[node[1]])
                except _Exit:
                    self.depth = depth0
                    del self.dostack[do0:]
            elif op == "if":
                self.need(1)
                flag = st.pop()
                self.census.add("exec:if")
                if flag != 0:
                    yield from self._segment(node[1])
                elif node[2] is not None:
                    yield from self._segment(node[2])
            elif op == "do":
                self.need(2)
                start = st.pop()
                stop = st.pop()
                self.dostack.append(start)
                mark = len(self.dostack)
                while self.dostack[-1] < stop:
                    self.census.add("exec:do")
                    yield from self._segment(node[1], dobody="+loop" if node[2] else "loop")
                    self.tick()
                    if node[2]:
                        self.need(1)
                        step = st.pop()
                        if step < 0:
                            self.census.add("exec:negative-step")
                    else:
                        step = 1
                    assert len(self.dostack) == mark
                    nxt = self.dostack[-1] + step
                    if wrap(nxt, self.bits) != nxt:
                        self.unspec.add("loop-index-beyond-width")
                        if wrap(nxt, 64) != nxt:
                            self.ub.add("signed-overflow")
                            nxt = wrap(nxt, 64)
                    self.dostack[-1] = nxt
                    self.max_abs = max(self.max_abs, abs(nxt), abs(stop))
                self.dostack.pop()
            elif op == "again":
                while True:
                    self.census.add("exec:begin")
                    yield from self._segment(node[1])
                    self.tick()
            elif op == "until":
                while True:
                    self.census.add("exec:begin")
                    yield from self._segment(node[1])
                    self.tick()
                    self.need(1)
                    if st.pop() != 0:
                        break
            elif op == "while":
                while True:
                    self.census.add("exec:begin")
                    yield from self._segment(node[1])
                    self.tick()
                    self.need(1)
                    if st.pop() == 0:
                        break
                    yield from self._segment(node[2])
            elif op == "exit":
                self.census.add("exec:exit")
                raise _Exit()
            elif op == "halt":
                self.census.add("exec:halt")
                raise _Fault("user halt")
            elif op == "pause":
                self.census.add("exec:pause")
                if top and index == last:
                    # nothing is left to execute: the machine reports is_done right away (no observable difference
                    # other than the flag; see ASSUMPTIONS of checks/c19.py)
                    break
                self.paused_at_do_body_end = bool(dobody) and index == last
                if dobody == "+loop" and index == last:
                    self.flags.add("pause-at-steploop-body-end")
                if index == last:
                    # a block that ends with 'pause' is left before pausing (its nesting level is free for a Python-side call)
                    self.depth -= 1
                    yield "pause"
                    self.paused_at_do_body_end = False
                    return
                yield "pause"
                self.paused_at_do_body_end = False
            elif op == "put":
                self.need(1)
                self.vars[node[1]] = st.pop()
                self.census.add("exec:var")
            elif op == "inc":
                self.need(1)
                self.vars[node[1]] = self.arith(self.vars[node[1]] + st.pop())
                self.census.add("exec:var")
            elif op == "get":
                self.push(self.vars[node[1]])
            elif op == "ilen":
                self.push(len(self.inputs[node[1]]))
            elif op == "ipos":
                self.push(self.pos[node[1]])
            elif op == "iend":
                self.push(-1 if self.pos[node[1]] == len(self.inputs[node[1]]) else 0)
            elif op == "iseek":
                self.need(1)
                to = st.pop()
                self.census.add("exec:seek")
                if to < 0 or to > len(self.inputs[node[1]]):
                    self.unspec.add("after-error:stack")
                    raise _Fault("seek beyond")
                self.pos[node[1]] = to
            elif op == "iskip":
                self.need(1)
                to = self.pos[node[1]] + st.pop()
                self.census.add("exec:skip")
                if to < 0 or to > len(self.inputs[node[1]]):
                    self.unspec.add("after-error:stack")
                    raise _Fault("skip beyond")
                self.pos[node[1]] = to
            elif op == "read":
                self._read(node[1], node[2], node[3])
            elif op == "write":
                self.need(1)
                dt = self.prog.outputs[node[1]][1]
                self.outs[node[1]].append(self._convert_int(st.pop(), dt))
                self.census.add("exec:write")
            elif op == "writeadd":
                self.need(1)
                dt = self.prog.outputs[node[1]][1]
                out = self.outs[node[1]]
                prev = out[-1] if out else self._convert_int(0, dt)
                out.append(self._add_in_dtype(prev, self._convert_int(st.pop(), dt), dt))
                self.census.add("exec:write+")
            elif op == "olen":
                self.push(len(self.outs[node[1]]))
            elif op == "orewind":
                self.need(1)
                n = st.pop()
                out = self.outs[node[1]]
                self.census.add("exec:rewind")
                if len(out) - n < 0:
                    self.unspec.add("after-error:stack")
                    raise _Fault("rewind beyond")
                if n < 0:
                    # the documentation describes moving *backwards*; a negative count would expose unwritten items
                    self.unspec.add("negative-rewind")
                    self.unspec.add("after-error:stack")
                    self.flags.add("negative-rewind")
                    raise _Fault("rewind beyond")
                del out[len(out) - n:]
            elif op == "odup":
                self.need(1)
                n = st.pop()
                out = self.outs[node[1]]
                self.census.add("exec:outdup")
                if not out:
                    self.unspec.add("after-error:stack")
                    raise _Fault("rewind beyond")
                if n > 0:
                    if n > (1 << 16):
                        raise BudgetExceeded()
                    out.extend([out[-1]] * n)
            elif op == "str":
                self.push(node[1])
            elif op == "pstr":
                pass
            else:
                raise AssertionError("unknown node %r" % (node,))
        self.depth -= 1

    # ---- builtin words ---------------------------------------------------------------------------------------------
    def _builtin(self, w):
        st = self.stack
        bits = self.bits
        if w == "dup":
            self.need(1)
            self.push(st[-1])
        elif w == "drop":
            self.need(1)
            st.pop()
        elif w == "swap":
            self.need(2)
            st[-1], st[-2] = st[-2], st[-1]
        elif w == "over":
            self.need(2)
            self.push(st[-2])
        elif w == "rot":
            self.need(3)
            st[-3], st[-2], st[-1] = st[-2], st[-1], st[-3]
        elif w == "nip":
            self.need(2)
            del st[-2]
        elif w == "tuck":
            self.need(2)
            self.room()
            st.insert(len(st) - 2, st[-1])
        elif w in ("+", "-", "*"):
            self.need(2)
            b = st.pop()
            a = st.pop()
            self.push(self.arith(a + b if w == "+" else a - b if w == "-" else a * b))
        elif w in ("/", "mod", "/mod"):
            self.need(2)
            b, a = st[-1], st[-2]
            if b == 0:
                self.unspec.add("after-error:stack")
                raise _Fault("division by zero")
            self.census.add("exec:div-negative" if (a < 0) != (b < 0) and a % b != 0 else "exec:div")
            if a == -(1 << (bits - 1)) and b == -1:
                self.flags.add("int-min-divided-by-minus-one")      # quotient not representable: wraps like negate
            if abs(b) + abs(a % b) >= (1 << (bits - 1)):
                self.flags.add("mod-near-width")                    # a (b + a % b) % b formulation would overflow here
            del st[-2:]
            q, r = a // b, a % b                                    # Python: floor division, modulo with the divisor's sign
            qw = wrap(q, bits)
            self.max_abs = max(self.max_abs, abs(q))
            if w == "/":
                self.push(qw)
            elif w == "mod":
                self.push(r)
            else:
                self.push(r)
                self.push(qw)
        elif w == "negate":
            self.need(1)
            st[-1] = self.arith(-st[-1])
        elif w == "1+":
            self.need(1)
            st[-1] = self.arith(st[-1] + 1)
        elif w == "1-":
            self.need(1)
            st[-1] = self.arith(st[-1] - 1)
        elif w == "abs":
            self.need(1)
            st[-1] = self.arith(abs(st[-1]))
        elif w == "min":
            self.need(2)
            b = st.pop()
            st[-1] = min(st[-1], b)
        elif w == "max":
            self.need(2)
            b = st.pop()
            st[-1] = max(st[-1], b)
        elif w in ("=", "<>", ">", ">=", "<", "<="):
            self.need(2)
            b = st.pop()
            a = st.pop()
            r = (a == b if w == "=" else a != b if w == "<>" else a > b if w == ">" else a >= b if w == ">=" else
                 a < b if w == "<" else a <= b)
            st.append(-1 if r else 0)
        elif w == "0=":
            self.need(1)
            st[-1] = -1 if st[-1] == 0 else 0
        elif w == "invert":
            self.need(1)
            st[-1] = ~st[-1]
        elif w in ("and", "or", "xor"):
            self.need(2)
            b = st.pop()
            st[-1] = st[-1] & b if w == "and" else st[-1] | b if w == "or" else st[-1] ^ b
        elif w == "lshift":
            self.need(2)
            n = st.pop()
            a = st[-1]
            if not 0 <= n < bits:
                self.unspec.add("shift-count-out-of-range")
                self.ub.add("shift")
                n &= bits - 1
            if a < 0:
                self.ub.add("shift")                                # left shift of a negative value (UB before C++20)
            r = wrap(a << n, bits)
            if r != a << n:
                self.ub.add("shift")
            self.max_abs = max(self.max_abs, abs(a << n))
            if n >= 32:
                self.flags.add("shift-count-beyond-32")
            st[-1] = r
        elif w == "rshift":
            self.need(2)
            n = st.pop()
            a = st[-1]
            if not 0 <= n < bits:
                self.unspec.add("shift-count-out-of-range")
                self.ub.add("shift")
                n &= bits - 1
            if n >= 32:
                self.flags.add("shift-count-beyond-32")
            # a negative number is shifted arithmetically: pinned by tests/test_0648 ("-5 1 rshift" -> -3), where the logical
            # result of standard Forth is commented out
            st[-1] = a >> n
        elif w == "false":
            self.push(0)
        elif w == "true":
            self.push(-1)
        elif w == ".":
            self.need(1)
            st.pop()
        elif w in ("cr", ".s"):
            pass
        elif w in LOOPVAR_WORDS:
            k = LOOPVAR_WORDS.index(w)
            if len(self.dostack) <= k:
                raise AssertionError("loop variable without loop")   # excluded at compile time
            v = self.dostack[-1 - k]
            if not -(1 << 31) <= v < (1 << 31):
                self.flags.add("wide-loop-index")
            self.push(wrap(v, bits))
        else:
            raise AssertionError("unknown builtin " + w)
        a = st[-1] if st else 0
        a = a if a >= 0 else -a - 1
        if a > self.max_abs:
            self.max_abs = a

    # ---- conversions -----------------------------------------------------------------------------------------------
    def _convert_int(self, v, dt):
        """an integer (stack value or value read from an input) stored into an output of dtype dt"""
        code, size, kind = DTYPES[dt]
        if kind == "b":
            return v != 0
        if kind == "f":
            return int_to_float(v, size)
        w = wrap(v, 8 * size)
        return w if kind == "i" else w & ((1 << (8 * size)) - 1)

    def _convert_float(self, x, dt):
        code, size, kind = DTYPES[dt]
        if kind == "f":
            return x if size == 8 else float32_round(x)
        if kind == "b":
            if x != x:
                self.unspec.add("nan-to-bool")
            return x != 0
        if x != x or x in (math.inf, -math.inf):
            self._float_out_of_range()
            return 0
        t = int(x)
        lo, hi = (-(1 << (8 * size - 1)), (1 << (8 * size - 1)) - 1) if kind == "i" else (0, (1 << (8 * size)) - 1)
        if not lo <= t <= hi:
            self._float_out_of_range()
            return self._convert_int(wrap(t, 64), dt)
        return t

    def _float_out_of_range(self):
        self.unspec.add("float-to-int-out-of-range")
        self.ub.add("float-to-int-out-of-range")          # undefined in C++ too: any value may follow

    def _add_in_dtype(self, prev, val, dt):
        code, size, kind = DTYPES[dt]
        if kind == "b":
            return bool(prev) or bool(val)
        if kind == "f":
            s = prev + val
            return s if size == 8 else float32_round(s)
        if kind == "i" and size >= 4 and not -(1 << (8 * size - 1)) <= prev + val < (1 << (8 * size - 1)):
            self.ub.add("signed-overflow")          # the sum is formed in the output's own signed type (narrower ones are promoted to int)
        return self._convert_int(prev + val, dt)

    def _float_to_stack(self, x):
        if x != x or x in (math.inf, -math.inf):
            self._float_out_of_range()
            return 0
        t = int(x)
        if wrap(t, self.bits) != t:
            self._float_out_of_range()
            return wrap(t, self.bits)
        return t

    # ---- reads -----------------------------------------------------------------------------------------------------
    def _take(self, k, nbytes):
        data = self.inputs[k]
        p = self.pos[k]
        if p + nbytes > len(data):
            raise _Fault("read beyond")
        self.pos[k] = p + nbytes
        return data[p:p + nbytes]

    def _emit(self, value, target, isfloat=False, through_stack_type=False):
        if not isfloat and (target is None or through_stack_type):
            self.max_abs = max(self.max_abs, value if value >= 0 else -value - 1)
        if target is None:
            if isfloat:
                value = self._float_to_stack(value)
            else:
                value = wrap(value, self.bits)
            if not -(1 << 31) <= value < (1 << 31):
                self.flags.add("wide-read-to-stack")
            if len(self.stack) >= self.smax:
                self.unspec.add("after-error:pos")        # how much input a failed read consumed is not documented
                self.unspec.add("after-error:stack")
                raise _Fault("stack overflow")
            self.push(value)
        else:
            dt = self.prog.outputs[target][1]
            self.outs[target].append(self._convert_float(value, dt) if isfloat else self._convert_int(value, dt))

    def _read(self, k, rd, target):
        kind, letter, big, rep, nbits = rd
        self.census.add("exec:read")
        self.census.add("exec:read:" + ("#" if rep else "") + ("!" if big else "") + (letter or kind) + ("->stack" if target is None else "->out"))
        count = 1
        if rep:
            self.need(1)
            count = self.stack.pop()
            self.unspec.add("after-error:stack") if False else None
            if count < 0:
                self.unspec.add("negative-repeat-count")
                self.unspec.add("after-error:stack")
                self.unspec.add("after-error:pos")
                self.flags.add("negative-repeat-count")
                raise _Fault("read beyond")
            if count > 8 * (len(self.inputs[k]) - self.pos[k]):
                # every item takes at least one bit of input
                self.unspec.add("after-error:stack")
                raise _Fault("read beyond")
        try:
            if kind == "typed":
                size, vk = READERS[letter]
                raw = self._take(k, size * count)
                for j in range(count):
                    chunk = raw[j * size:(j + 1) * size]
                    if big:
                        chunk = chunk[::-1]
                    if vk == "f":
                        self._emit(struct.unpack("<f" if size == 4 else "<d", chunk)[0], target, True)
                    elif vk == "b":
                        if chunk[0] > 1:
                            self.unspec.add("bool-byte-not-0-or-1")
                            self.ub.add("bool-byte-not-0-or-1")          # loading it through a C++ bool is undefined
                        self._emit(1 if chunk[0] else 0, target)
                    else:
                        self._emit(int.from_bytes(chunk, "little", signed=(vk == "i")), target)
            elif kind in ("varint", "zigzag"):
                for j in range(count):
                    shift = 0
                    result = 0
                    while True:
                        byte = self._take(k, 1)[0]
                        if shift == 63:
                            if byte & 0x7f == 0:
                                self.unspec.add("non-canonical-varint")
                            raise _Fault("varint too big")
                        result |= (byte & 0x7f) << shift
                        shift += 7
                        if not byte & 0x80:
                            break
                    if kind == "zigzag":
                        value = (result >> 1) ^ -(result & 1)
                        if target is not None and wrap(value, self.bits) != value:
                            self.unspec.add("direct-read-wider-than-machine")
                        self._emit(value, target, through_stack_type=True)
                    else:
                        self._emit(result, target)
            else:  # nbit: `count` unsigned integers of `nbits` bits each, least significant bits first; a partly used
                #    last byte is dropped; '!' reverses the bit order within each byte
                if nbits > 24:
                    self.unspec.add("nbit-wide")
                    self.ub.add("shift")
                acc = 0
                have = 0
                first = True
                for j in range(count):
                    while have < nbits or first:
                        byte = self._take(k, 1)[0]
                        first = False
                        if big:
                            byte = int("{:08b}".format(byte)[::-1], 2)
                        acc |= byte << have
                        have += 8
                    value = acc & ((1 << nbits) - 1)
                    acc >>= nbits
                    have -= nbits
                    if target is not None and wrap(value, self.bits) != value:
                        self.unspec.add("direct-read-wider-than-machine")
                    self._emit(value, target, through_stack_type=True)
        except _Fault:
            if rep:
                self.unspec.add("after-error:stack")
            raise
        if target is not None:
            self.census.add("exec:write-direct")
