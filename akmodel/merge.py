"""Reference model for C08: concatenation along axis 0, type merging, numeric promotion, numeric casts.

Pure Python + NumPy (NumPy *is* the documented reference for promotion and casts); imports nothing from the code
under test.  Types and values are those of akmodel.core.

Three relations between element types are distinguished, because the property's text distinguishes them:

* ``must_merge(A, B)``   - "identical list/record/option types" whose numeric leaves may differ: the same structure,
                           the same record names in the same order, the same regular sizes; numeric leaves promote.
                           Such operands may never end up as separate members of a union.
* ``lenient_merge(Ts)``  - the single type the operands have when option-ness is transparent, regular and
                           variable-length lists are both lists, unknown is the identity and numbers promote; None
                           when the structures differ (or a union is involved).  Whenever the library merges such
                           operands into one buffer the leaf dtypes must be NumPy's.
* everything else        - genuinely different: the result may be a union; only values are judged.
"""
import functools

import numpy as np

from akmodel import core as M

NUMERIC = ["bool", "int8", "int16", "int32", "int64", "uint8", "uint16", "uint32", "uint64", "float32", "float64", "complex64", "complex128"]


# --------------------------------------------------------------------------- promotion and casts (NumPy is the reference)
def promote(dtypes, fold=False):
    """dtype name numpy.concatenate gives to arrays of these dtypes (fold=True: pairwise, left to right)"""
    dts = [np.dtype(d) for d in dtypes]
    if fold:
        return functools.reduce(np.promote_types, dts).name
    return np.result_type(*dts).name


def cast_scalar(v, fromdt, todt):
    """the Python value of numpy.array([v], fromdt).astype(todt)[0]"""
    if fromdt == todt:
        return v
    with np.errstate(all="ignore"):
        import warnings
        with warnings.catch_warnings():
            warnings.simplefilter("ignore")
            out = np.array([v], dtype=np.dtype(fromdt)).astype(np.dtype(todt))[0]
    return out.item()


def cast_defined(v, fromdt, todt):
    """is (todt)v defined behaviour in C *and* equal to numpy's astype by definition?  float/complex -> integer
    conversions of NaN, infinities and values whose truncation does not fit the target are undefined in C."""
    f, t = np.dtype(fromdt), np.dtype(todt)
    if t.kind in "iu" and f.kind in "fc":
        x = v.real if isinstance(v, complex) else v
        if x != x or x in (float("inf"), float("-inf")):
            return False
        info = np.iinfo(t)
        return int(info.min) <= int(x) <= int(info.max)
    return True


# --------------------------------------------------------------------------- type relations
def _isbool(T):
    return T[1] == "bool"


def must_merge(A, B, mergebool):
    """identical types up to the numeric leaf dtype"""
    ka, kb = A[0], B[0]
    if ka != kb:
        return False
    if ka == "prim":
        if _isbool(A) != _isbool(B):
            return bool(mergebool)
        return True
    if ka in ("string", "bytes", "unknown"):
        return True
    if ka == "list":
        return must_merge(A[1], B[1], mergebool)
    if ka == "regular":
        return A[2] == B[2] and must_merge(A[1], B[1], mergebool)
    if ka == "option":
        return must_merge(A[1], B[1], mergebool)
    if ka == "record":
        if A[2] != B[2] or A[3] != B[3] or [n for n, _ in A[1]] != [n for n, _ in B[1]]:
            return False
        return all(must_merge(a, b, mergebool) for (_, a), (_, b) in zip(A[1], B[1]))
    return False   # unions: never required


def lenient_merge(Ts, mergebool, fold=False):
    """the one type of the concatenation when options are transparent, regular ~ list, unknown is neutral and numbers
    promote; None if the structures differ or a union is involved"""
    Ts = [T for T in Ts if T[0] != "unknown"]
    if not Ts:
        return ["unknown"]
    if any(T[0] == "option" for T in Ts):
        inner = lenient_merge([M.strip_option(T) for T in Ts], mergebool, fold)
        return None if inner is None else M.option_of(inner)
    kinds = set("list" if T[0] == "regular" else T[0] for T in Ts)
    if len(kinds) != 1:
        return None
    k = kinds.pop()
    if k == "prim":
        bools = [_isbool(T) for T in Ts]
        if any(bools) and not all(bools) and not mergebool:
            return None
        return ["prim", promote([T[1] for T in Ts], fold)]
    if k in ("string", "bytes"):
        return [k]
    if k == "list":
        inner = lenient_merge([T[1] for T in Ts], mergebool, fold)
        return None if inner is None else ["list", inner]
    if k == "record":
        first = Ts[0]
        names = [n for n, _ in first[1]]
        for T in Ts[1:]:
            if T[2] != first[2] or T[3] != first[3] or sorted(n for n, _ in T[1]) != sorted(names) or len(T[1]) != len(names):
                return None
        fields = []
        for i, nm in enumerate(names):
            col = [T[1][i][1] if first[2] else dict((n, t) for n, t in T[1])[nm] for T in Ts]
            inner = lenient_merge(col, mergebool, fold)
            if inner is None:
                return None
            fields.append([nm, inner])
        return ["record", fields, first[2], first[3]]
    return None   # union


def normalize(T):
    """type with regular dimensions read as lists and record fields in name order (what the promotion clause compares)"""
    k = T[0]
    if k in ("list", "regular"):
        return ["list", normalize(T[1])]
    if k == "option":
        return ["option", normalize(T[1])]
    if k == "record":
        fs = [[n, normalize(t)] for n, t in T[1]]
        return ["record", fs if T[2] else sorted(fs), T[2], T[3]]
    if k == "union":
        return ["union", [normalize(t) for t in T[1]]]
    return list(T)


def top_union_members(T):
    """member types of the union at the top of an element type (through one option), or None"""
    T = M.strip_option(T)
    if T[0] != "union":
        return None
    out = []
    for t in T[1]:
        if t[0] == "union":
            out.extend(t[1])
        else:
            out.append(t)
    return out


def nested_same_kind(T):
    """does the type have an option directly inside an option or a union directly inside a union anywhere?"""
    k = T[0]
    if k == "option":
        return T[1][0] == "option" or nested_same_kind(T[1])
    if k == "union":
        return any(t[0] == "union" or nested_same_kind(t) for t in T[1])
    if k in ("list", "regular"):
        return nested_same_kind(T[1])
    if k == "record":
        return any(nested_same_kind(t) for _, t in T[1])
    return False


# --------------------------------------------------------------------------- values
def cast_value(v, F, T):
    """value v of type F read as a value of the merged type T (F merges into T): numeric leaves cast as NumPy casts"""
    if v is None:
        return None
    if F[0] == "option":
        return cast_value(v, F[1], T)
    if T[0] == "option":
        return cast_value(v, F, T[1])
    k = F[0]
    if k == "prim":
        return cast_scalar(v, F[1], T[1])
    if k in ("list", "regular"):
        return [cast_value(x, F[1], T[1]) for x in v]
    if k == "record":
        if F[2]:
            return tuple(cast_value(x, ft, tt) for x, (_, ft), (_, tt) in zip(v, F[1], T[1]))
        tmap = dict((n, t) for n, t in T[1])
        return {n: cast_value(v[n], ft, tmap[n]) for n, ft in F[1]}
    return v


def concatenate(operands, merged_type=None):
    """operands: [(T, vals)...]; the axis-0 concatenation; with merged_type every operand is cast into it"""
    out = []
    for T, vals in operands:
        if merged_type is None or T[0] == "unknown":
            out.extend(vals)
        else:
            out.extend(cast_value(v, T, merged_type) for v in vals)
    return out


def astype(T, vals, todt):
    """(type, values) after values_astype(todt): structure untouched, every numeric leaf cast as numpy.astype casts.
    Also returns whether every cast that was needed is defined (see cast_defined)."""
    ok = [True]

    def typ(T):
        k = T[0]
        if k == "prim":
            return ["prim", todt]
        if k in ("list", "regular", "option"):
            return [k, typ(T[1])] + T[2:]
        if k == "record":
            return ["record", [[n, typ(t)] for n, t in T[1]], T[2], T[3]]
        if k == "union":
            return ["union", [typ(t) for t in T[1]]]
        return T

    def val(v, T):
        if v is None:
            return None
        k = T[0]
        if k == "option":
            return val(v, T[1])
        if k == "prim":
            if not cast_defined(v, T[1], todt):
                ok[0] = False
                return v
            return cast_scalar(v, T[1], todt)
        if k in ("list", "regular"):
            return [val(x, T[1]) for x in v]
        if k == "record":
            if T[2]:
                return tuple(val(x, t) for x, (_, t) in zip(v, T[1]))
            return {n: val(v[n], t) for n, t in T[1]}
        if k == "union":
            from akgen.gen import member_of
            return val(v, T[1][member_of(T, v)])
        return v

    out = [val(v, T) for v in vals]
    return typ(T), out, ok[0]


def matches_upto_cast(v, F, o, R, mergebool):
    """is the observed value `o` (of result element type R) the value `v` (of operand element type F) 'unchanged up to
    the numeric cast'?  Every numeric leaf of `o` must be numpy's cast of the corresponding leaf of `v` into the dtype the
    result type has at that position (one of the members, when R is a union); a bool may only have become a number when
    mergebool is set; structure, strings, missing values and record fields must be identical."""
    if F[0] == "option":
        if v is None:
            return o is None
        return matches_upto_cast(v, F[1], o, R, mergebool)
    if v is None:
        return o is None
    if o is None:
        return False
    if R[0] == "option":
        return matches_upto_cast(v, F, o, R[1], mergebool)
    if R[0] == "union":
        return any(matches_upto_cast(v, F, o, m, mergebool) for m in R[1])
    k = F[0]
    if k == "union":
        from akgen.gen import conforms
        return any(conforms(t, v) and matches_upto_cast(v, t, o, R, mergebool) for t in F[1])
    if k == "prim":
        if R[0] != "prim":
            return False
        if _isbool(F) != _isbool(R) and not (mergebool and _isbool(F)):
            return False
        try:
            c = cast_scalar(v, F[1], R[1])
        except OverflowError:
            return False     # v is not a value of this member of a union source type (it belongs to another numeric member)
        return M.same_value(o, c, strict_bool=True)
    if k in ("list", "regular"):
        if R[0] not in ("list", "regular") or not isinstance(o, list) or len(o) != len(v):
            return False
        return all(matches_upto_cast(x, F[1], y, R[1], mergebool) for x, y in zip(v, o))
    if k == "record":
        if R[0] != "record" or bool(R[2]) != bool(F[2]) or R[3] != F[3] or len(R[1]) != len(F[1]):
            return False
        if F[2]:
            return isinstance(o, tuple) and all(matches_upto_cast(x, ft, y, rt, mergebool) for x, y, (_, ft), (_, rt) in zip(v, o, F[1], R[1]))
        rmap = dict((n, t) for n, t in R[1])
        if not isinstance(o, dict) or set(rmap) != set(n for n, _ in F[1]):
            return False
        return all(matches_upto_cast(v[n], ft, o[n], rmap[n], mergebool) for n, ft in F[1])
    if k in ("string", "bytes"):
        return R[0] == k and M.same_value(o, v)
    return False
