"""`valid(description)`: the conjunction of the structural rules documented in docs-sphinx/ak.layout.*.rst
(the `assert`s of the reference classes) and named in property C11: offsets/starts/stops, index and tag ranges,
mask/content lengths, no option/indexed node directly inside an option/indexed node, no union directly inside a union,
well-formed string/bytestring parameters.  Returns None if valid, else a short reason."""
from akmodel.core import length_of, Invalid

OPTIONISH = ("IndexedArray", "IndexedOptionArray", "ByteMaskedArray", "BitMaskedArray", "UnmaskedArray")
LISTISH = ("ListOffsetArray", "ListArray", "RegularArray")


def _len(d):
    try:
        return length_of(d)
    except (Invalid, ZeroDivisionError, KeyError, IndexError):
        return None


def constructible(d):
    """rules whose violation the constructors refuse (not a validity question): returns reason or None"""
    cls = d["class"]
    if cls.startswith("ListOffsetArray") and len(d["offsets"]) == 0:
        return "offsets must have at least one element"
    if cls.startswith("ListArray") and len(d["stops"]) < len(d["starts"]):
        return "len(stops) < len(starts)"
    if cls == "RegularArray" and d["size"] < 0:
        return "size < 0"
    return None


def valid(d, parent_param=None):
    cls = d["class"]
    params = d.get("parameters") or {}
    arr = params.get("__array__")
    # ---- parameters
    if arr in ("string", "bytestring"):
        if not cls.startswith(LISTISH):
            return "__array__ = %s only allowed for list nodes" % arr
        inner = d["content"]
        want = "char" if arr == "string" else "byte"
        if (inner.get("parameters") or {}).get("__array__") != want:
            return "%s must directly contain %s" % (arr, want)
        if inner["class"] != "NumpyArray":
            return "%s only allowed for NumpyArray" % want
        if inner["dtype"] != "uint8":
            return "%s requires uint8" % want
        if len(inner["shape"]) != 1:
            return "%s must be one-dimensional" % want
    elif arr in ("char", "byte"):
        if parent_param != ("string" if arr == "char" else "bytestring"):
            return "%s must be directly inside its string node" % arr
    # ---- structure
    if cls == "NumpyArray":
        return None
    if cls == "EmptyArray":
        return None
    if cls.startswith("ListOffsetArray"):
        off = d["offsets"]
        n = _len(d["content"])
        for i in range(len(off) - 1):
            a, b = off[i], off[i + 1]
            if a != b:
                if a > b:
                    return "start > stop"
                if a < 0:
                    return "start < 0"
                if n is None or b > n:
                    return "stop > len(content)"
        return _sub(d, arr)
    if cls.startswith("ListArray"):
        n = _len(d["content"])
        for a, b in zip(d["starts"], d["stops"]):
            if a != b:
                if a > b:
                    return "start > stop"
                if a < 0:
                    return "start < 0"
                if n is None or b > n:
                    return "stop > len(content)"
        return _sub(d, arr)
    if cls == "RegularArray":
        if d["size"] < 0:
            return "size < 0"
        return _sub(d, arr)
    if cls.startswith("IndexedOptionArray") or cls.startswith("IndexedArray"):
        n = _len(d["content"])
        isopt = cls.startswith("IndexedOptionArray")
        for x in d["index"]:
            if x < 0 and not isopt:
                return "index < 0"
            if n is None or x >= n:
                return "index >= len(content)"
        if d["content"]["class"].startswith(OPTIONISH):
            return "option/indexed node directly inside an indexed node"
        return valid(d["content"])
    if cls == "ByteMaskedArray":
        n = _len(d["content"])
        if n is None or n < len(d["mask"]):
            return "len(content) < len(mask)"
        if d["content"]["class"].startswith(OPTIONISH):
            return "option/indexed node directly inside an option node"
        return valid(d["content"])
    if cls == "BitMaskedArray":
        n = _len(d["content"])
        if len(d["mask"]) * 8 < d["length"]:
            return "len(mask) * 8 < length"
        if n is None or n < d["length"]:
            return "len(content) < length"
        if d["content"]["class"].startswith(OPTIONISH):
            return "option/indexed node directly inside an option node"
        return valid(d["content"])
    if cls == "UnmaskedArray":
        if d["content"]["class"].startswith(OPTIONISH):
            return "option/indexed node directly inside an option node"
        return valid(d["content"])
    if cls == "RecordArray":
        n = _len(d)
        for c in d["contents"]:
            m = _len(c)
            if m is None or n is None or m < n:
                return "len(field) < len(recordarray)"
        for c in d["contents"]:
            r = valid(c)
            if r:
                return r
        return None
    if cls.startswith("UnionArray"):
        for c in d["contents"]:
            if c["class"].startswith("UnionArray"):
                return "union directly inside a union"
        if len(d["index"]) < len(d["tags"]):
            return "len(index) < len(tags)"
        lens = [_len(c) for c in d["contents"]]
        for t, i in zip(d["tags"], d["index"]):
            if t < 0 or t >= len(lens):
                return "tag out of range"
            if i < 0 or lens[t] is None or i >= lens[t]:
                return "index out of range for its tag"
        for c in d["contents"]:
            r = valid(c)
            if r:
                return r
        return None
    return "unknown class"


def _sub(d, arr):
    inner = d["content"]
    if arr in ("string", "bytestring"):
        return None     # the char/byte content was checked above
    return valid(inner, arr)
