# ---- libFuzzer target of C17 (san flavour only, built on demand by checks/c17.py: `make ... fuzz_form`).
# Content.cpp (Form::fromjson), the array classes (Form::tojson_part / type / equal), io/json.cpp, util.cpp and the types are
# compiled once more with coverage instrumentation into the executable (whose definitions take precedence over
# libawkward.so's); everything else comes from the sanitizer build of libawkward.
ifeq ($(FLAVOUR),san)
FFSRCS := $(REPO)/src/libawkward/Content.cpp $(REPO)/src/libawkward/util.cpp $(REPO)/src/libawkward/io/json.cpp \
          $(sort $(wildcard $(REPO)/src/libawkward/array/*.cpp)) $(sort $(wildcard $(REPO)/src/libawkward/type/*.cpp))
FFOBJS := $(patsubst $(REPO)/src/libawkward/%.cpp,$(OUT)/ff/%.o,$(FFSRCS))
FFFLAGS := $(filter-out -fPIC,$(CFLAGS)) -fsanitize=fuzzer-no-link

$(OUT)/ff/%.o: $(REPO)/src/libawkward/%.cpp $(FLAGSTAMP)
	@mkdir -p $(dir $@)
	@$(CXX) $(FFFLAGS) $(DEFS) $(INC) -c $< -o $@

$(OUT)/ff/fuzz_form.o: $(VERIF)/fuzz/fuzz_form.cpp $(FLAGSTAMP)
	@mkdir -p $(dir $@)
	@$(CXX) $(FFFLAGS) $(DEFS) $(INC) -c $< -o $@

$(OUT)/fuzz_form: $(OUT)/ff/fuzz_form.o $(FFOBJS) $(OUT)/libawkward.so
	@$(CXX) -fsanitize=fuzzer,address,undefined -shared-libsan -o $@ $(OUT)/ff/fuzz_form.o $(FFOBJS) -L$(OUT) -lawkward -Wl,-rpath,'$$ORIGIN' -ldl

fuzz_form: $(OUT)/fuzz_form
-include $(FFOBJS:.o=.d) $(OUT)/ff/fuzz_form.d
.PHONY: fuzz_form
endif
