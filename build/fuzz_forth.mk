# ---- C19 (AwkwardForth), san flavour only.
ifeq ($(FLAVOUR),san)
# AwkwardForth reads typed values at arbitrary byte offsets of its input by design (well defined on x86-64): with alignment reports
# on, every read-heavy program would end the sanitizer twin at its first instruction (see ASSUMPTIONS of checks/c19.py).
FORTHOBJS := $(filter $(OUT)/l/forth/%,$(LOBJS))
$(OUT)/l/forth/%.o: CFLAGS += -fno-sanitize=alignment
$(FORTHOBJS): $(VERIF)/build/fuzz_forth.mk

# libFuzzer target (built on demand by checks/c19.py: `make ... fuzz_forth`): the three forth translation units are compiled once
# more with coverage instrumentation into the executable (whose definitions take precedence over libawkward.so's); everything else
# comes from the sanitizer build of libawkward.
FTSRCS := $(sort $(wildcard $(REPO)/src/libawkward/forth/*.cpp))
FTOBJS := $(patsubst $(REPO)/src/libawkward/%.cpp,$(OUT)/ft/%.o,$(FTSRCS))
# without UBSan's signed-overflow / shift / bool checks: wraparound arithmetic is the language's documented behaviour (implemented with
# signed overflow: a recorded finding of C19), and the fuzzer would otherwise stop at "2147483647 1+" for ever
FTFLAGS := $(filter-out -fPIC,$(CFLAGS)) -fno-sanitize=alignment,signed-integer-overflow,shift,bool -fsanitize=fuzzer-no-link -w

$(OUT)/ft/%.o: $(REPO)/src/libawkward/%.cpp $(FLAGSTAMP) $(VERIF)/build/fuzz_forth.mk
	@mkdir -p $(dir $@)
	@$(CXX) $(FTFLAGS) $(DEFS) $(INC) -c $< -o $@

$(OUT)/ft/fuzz_forth.o: $(VERIF)/fuzz/fuzz_forth.cpp $(FLAGSTAMP) $(VERIF)/build/fuzz_forth.mk
	@mkdir -p $(dir $@)
	@$(CXX) $(FTFLAGS) $(DEFS) $(INC) -c $< -o $@

$(OUT)/fuzz_forth: $(OUT)/ft/fuzz_forth.o $(FTOBJS) $(OUT)/libawkward.so
	@$(CXX) -fsanitize=fuzzer,address,undefined -shared-libsan -o $@ $(OUT)/ft/fuzz_forth.o $(FTOBJS) -L$(OUT) -lawkward -Wl,-rpath,'$$ORIGIN' -ldl

fuzz_forth: $(OUT)/fuzz_forth
-include $(FTOBJS:.o=.d) $(OUT)/ft/fuzz_forth.d
.PHONY: fuzz_forth
endif
