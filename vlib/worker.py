"""One worker process: runs a check's property under Hypothesis with a derived seed.

usage: python -m vlib.worker <check-module> <flavour> <tier> <seed> <n_examples> <outprefix> [--fork-each] [--collect]

Writes  <outprefix>.slot    the case about to be executed (for crash/hang attribution)
        <outprefix>.json    statistics (checkpointed) and, at the end, the outcome
        <outprefix>.hashes  8-byte hashes of distinct non-trivial cases
"""
import collections
import importlib
import json
import os
import signal
import sys
import time
import traceback

sys.path.insert(0, os.path.dirname(os.path.dirname(os.path.abspath(__file__))))

from vlib.common import Violation, HarnessError, canon, case_hash, load_known_findings  # noqa: E402


class Stats(object):
    def __init__(self, outprefix):
        self.outprefix = outprefix
        self.evaluations = 0
        self.nontrivial = 0
        self.discarded = collections.Counter()
        self.excluded = collections.Counter()
        self.known_hits = collections.Counter()
        self.census = collections.Counter()
        self.buckets = {}
        self.samples = {}
        self.seen = set()
        self.hashfile = open(outprefix + ".hashes", "ab")
        self.t0 = time.time()
        self.last_ckpt = time.time()
        self.outcome = "running"
        self.violation = None
        self.extra = {}

    def slot(self, case):
        tmp = self.outprefix + ".slot"
        with open(tmp, "w") as f:
            f.write(canon(case))

    def record(self, case, res):
        self.evaluations += 1
        res = res or {}
        if res.get("discarded"):
            self.discarded[res["discarded"]] += 1
        if res.get("excluded"):
            self.excluded[res["excluded"]] += 1
        for t in res.get("tags", ()):
            self.census[t] += 1
        for k, v in res.get("counts", {}).items():
            self.census[k] += v
        if res.get("nontrivial"):
            h = case_hash(case)
            if h not in self.seen:
                self.seen.add(h)
                self.nontrivial += 1
                self.hashfile.write(h)
                key = res.get("sample_class", "default")
                if key not in self.samples and len(self.samples) < 12:
                    self.samples[key] = case
        if time.time() - self.last_ckpt > 5:
            self.checkpoint()

    def todict(self):
        return {"evaluations": self.evaluations, "nontrivial": self.nontrivial,
                "discarded": dict(self.discarded), "excluded": dict(self.excluded),
                "known_hits": dict(self.known_hits), "census": dict(self.census),
                "buckets": self.buckets, "samples": self.samples, "outcome": self.outcome,
                "violation": self.violation, "wall_s": time.time() - self.t0, "extra": self.extra}

    def checkpoint(self):
        self.last_ckpt = time.time()
        self.hashfile.flush()
        tmp = self.outprefix + ".json.tmp"
        with open(tmp, "w") as f:
            json.dump(self.todict(), f, default=repr)
        os.replace(tmp, self.outprefix + ".json")


class HarnessAbort(BaseException):
    pass


def match_known(mod, known, case, vio):
    """name of the known finding that explains this violation, or None"""
    preds = getattr(mod, "KNOWN", {})
    for entry in known:
        if entry.get("status") != "known":
            continue
        if mod.ID not in entry.get("properties", [entry.get("property")]):
            continue
        fn = preds.get(entry["predicate"])
        if fn is not None:
            try:
                if fn(case, vio):
                    return entry["predicate"]
            except Exception:
                pass
    return None


STDERR_CAPTURE = [None]
HANG_CONFIRMED = [False]


def run_forked(mod, case, timeout=None):
    """execute run_case in a forked child so that a native crash becomes an exception"""
    first_attempt = timeout is None
    if timeout is None:
        timeout = float(os.environ.get("VERIF_CASE_TIMEOUT", getattr(mod, "CASE_TIMEOUT", 120)))
    r, w = os.pipe()
    errpath = STDERR_CAPTURE[0]
    pid = os.fork()
    if pid == 0:
        os.close(r)
        code = 0
        if errpath:
            fd = os.open(errpath, os.O_WRONLY | os.O_CREAT | os.O_TRUNC, 0o600)
            os.dup2(fd, 2)
        try:
            try:
                res = mod.run_case(case)
                payload = json.dumps(["ok", res], default=repr)
            except Violation as v:
                payload = json.dumps(["violation", v.todict()], default=repr)
            except HarnessError as e:
                payload = json.dumps(["harness", str(e)])
            except Exception:   # a bug in the model / harness: report it as such, never as a crash of the code under test
                payload = json.dumps(["harness", traceback.format_exc()])
            os.write(w, payload.encode())
        except BaseException:
            code = 3
        os._exit(code)
    os.close(w)
    data = b""
    deadline = time.time() + timeout
    import select
    while True:
        left = deadline - time.time()
        if left <= 0:
            os.kill(pid, signal.SIGKILL)
            os.waitpid(pid, 0)
            os.close(r)
            if first_attempt and getattr(mod, "HANG_RETRY_FACTOR", 0) and not HANG_CONFIRMED[0]:
                # a hang candidate is re-run once with a larger budget before it is reported; if it then returns it was
                # slow, not hung (tagged, so that the evidence shows it).  Once a hang is confirmed in this worker, later
                # timeouts (Hypothesis shrinking the hanging case) are reported after the base budget.
                res = run_forked(mod, case, timeout * mod.HANG_RETRY_FACTOR)
                if isinstance(res, dict):
                    res.setdefault("tags", []).append("watchdog:slow_but_returned")
                return res
            HANG_CONFIRMED[0] = True
            raise Violation("hang:" + getattr(mod, "case_label", lambda c: "")(case), "case did not return within the watchdog", clause="C12-hang")
        ready, _, _ = select.select([r], [], [], min(left, 1.0))
        if ready:
            chunk = os.read(r, 1 << 16)
            if not chunk:
                break
            data += chunk
    os.close(r)
    _, status = os.waitpid(pid, 0)
    if data:
        kind, body = json.loads(data.decode())
        if kind == "ok":
            return body
        if kind == "violation":
            raise Violation(body["bucket"], body["message"], body["expected"], body["observed"], body["clause"])
        raise HarnessError(body)
    sig = status & 0x7F
    label = getattr(mod, "case_label", lambda c: "")(case)
    tail = ""
    report = ""
    if errpath:
        try:
            with open(errpath, errors="replace") as f:
                report = f.read()[-30000:]
                tail = report[-2500:]
        except OSError:
            pass
    import re
    hook = getattr(mod, "sanitizer_alloc_failure", None)
    if hook is not None and re.search(r"AddressSanitizer: (allocation-size-too-big|out-of-memory|requested allocation size|allocator is out of memory)", tail):
        # the sanitizer's operator new aborts where the plain build throws std::bad_alloc: the check decides whether that is acceptable here
        return hook(case, tail)
    hook = getattr(mod, "sanitizer_benign_report", None)
    if hook is not None:
        # the check may classify a sanitizer report as outside its property (returns a result dict) or not (returns None)
        res = hook(case, report)
        if res is not None:
            return res
    m = re.search(r"(SUMMARY: [^\n]*|runtime error: [^\n]*|corrupted[^\n]*|malloc\(\)[^\n]*|free\(\)[^\n]*|double free[^\n]*|terminate called[^\n]*)", tail)
    raise Violation("crash:" + label, "process died (wait status %d, signal %d) %s" % (status, sig, m.group(1) if m else ""),
                    observed=tail, clause="C12-crash")


def main():
    modname, flavour, tier, seed, n, outprefix = sys.argv[1:7]
    flags = set(sys.argv[7:])
    seed = int(seed)
    n = int(n)
    os.environ["VERIF_FLAVOUR"] = flavour
    import hypothesis
    from hypothesis import given, settings, HealthCheck, Phase

    mod = importlib.import_module(modname)
    stats = Stats(outprefix)
    known = load_known_findings()
    collect = "--collect" in flags
    forked = "--fork-each" in flags
    only_bucket = None
    for f in flags:
        if f.startswith("--only-bucket="):
            only_bucket = f.split("=", 1)[1]
    if hasattr(mod, "setup"):
        mod.setup(flavour, tier)
    STDERR_CAPTURE[0] = outprefix + ".childerr"
    last_fail = {}

    def execute(case):
        stats.slot(case)
        pre = getattr(mod, "pre_exclude", None)
        if pre is not None:
            name = pre(case)
            if name is not None:
                stats.record(case, {"excluded": name})
                return
        try:
            res = run_forked(mod, case) if forked else mod.run_case(case)
        except Violation as v:
            vd = v.todict()
            name = match_known(mod, known, case, vd)
            if name is not None:
                stats.known_hits[name] += 1
                stats.record(case, {"tags": ["known_finding_hit"]})
                return
            if only_bucket is not None and v.bucket != only_bucket:
                stats.record(case, {"tags": ["other_bucket"]})
                return
            b = stats.buckets.setdefault(v.bucket, {"count": 0, "first": case, "violation": vd})
            b["count"] += 1
            if len(canon(case)) < len(canon(b["first"])):
                b["first"] = case
                b["violation"] = vd
            if collect:
                stats.record(case, {"tags": ["violation_collected"]})
                return
            last_fail["case"] = case
            last_fail["violation"] = vd
            raise
        except HarnessError:
            last_fail["harness_case"] = case
            raise HarnessAbort(traceback.format_exc())
        except Exception:
            # a bug in the model / harness, not a property violation: stop at once, do not shrink
            last_fail["harness_case"] = case
            raise HarnessAbort(traceback.format_exc())
        stats.record(case, res)

    phases = [Phase.explicit, Phase.generate] if ("--no-shrink" in flags or collect) else [Phase.explicit, Phase.generate, Phase.shrink]
    sett = settings(max_examples=n, database=None, deadline=None, derandomize=False,
                    report_multiple_bugs=False, phases=phases,
                    suppress_health_check=list(HealthCheck),
                    stateful_step_count=getattr(mod, "STEP_COUNT", {}).get(tier, 30))
    try:
        for case in getattr(mod, "SEED_CASES", []) if seed % 16 == 0 or "--seeds" in flags else []:
            execute(case)
        if hasattr(mod, "machine"):
            from hypothesis.stateful import run_state_machine_as_test
            Machine = mod.machine(tier, execute, stats)
            run_state_machine_as_test(hypothesis.seed(seed)(Machine), settings=sett)
        else:
            strat = mod.strategy(tier)

            @hypothesis.seed(seed)
            @settings(sett)
            @given(strat)
            def prop(case):
                execute(case)

            prop()
        stats.outcome = "ok"
    except Violation:
        stats.outcome = "violation"
        stats.violation = {"case": last_fail.get("case"), "violation": last_fail.get("violation")}
    except HarnessAbort as e:
        stats.outcome = "harness_error"
        stats.violation = {"message": str(e), "case": last_fail.get("harness_case")}
    except BaseException as e:  # noqa: B902  - anything else is a bug in the machinery
        flaky = type(e).__name__ in ("Flaky", "FlakyFailure", "FlakyReplay")
        if last_fail.get("case") is not None and (isinstance(e.__context__, Violation) or flaky):
            # a violation that does not reproduce identically when Hypothesis replays it (e.g. uninitialised memory in a
            # result) is still a violation of the case that was observed failing
            stats.outcome = "violation"
            stats.violation = {"case": last_fail.get("case"), "violation": last_fail.get("violation")}
        else:
            stats.outcome = "harness_error"
            stats.violation = {"message": repr(e), "traceback": traceback.format_exc()}
    stats.checkpoint()
    try:
        os.remove(outprefix + ".slot")
    except OSError:
        pass
    sys.stdout.flush()
    os._exit(0)


if __name__ == "__main__":
    main()
