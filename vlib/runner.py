"""Parent side of /verif/bin/vcheck: build, regression replays, worker fleet, evidence."""
import collections
import fcntl
import glob
import hashlib
import importlib
import json
import os
import shutil
import signal
import subprocess
import sys
import tempfile
import time

from vlib.common import VERIF, REPO, PY, build_dir, BUILD_ROOT, canon, derive_seed, load_known_findings

NCPU = int(os.environ.get("VERIF_WORKERS", "16"))


def asan_runtime():
    out = subprocess.run(["clang-14", "-print-file-name=libclang_rt.asan-x86_64.so"], capture_output=True, text=True)
    return out.stdout.strip()


def worker_env(flavour):
    env = dict(os.environ)
    env["PYTHONHASHSEED"] = "0"
    env["VERIF_FLAVOUR"] = flavour
    env["PYTHONPATH"] = VERIF + os.pathsep + os.path.join(VERIF, ".deps") + os.pathsep + env.get("PYTHONPATH", "")
    env["NUMBA_CACHE_DIR"] = os.path.join(BUILD_ROOT, "numba-cache")
    if flavour == "san":
        env["LD_PRELOAD"] = asan_runtime()
        env["ASAN_OPTIONS"] = "detect_leaks=0:abort_on_error=1:detect_odr_violation=0:handle_segv=1:allocator_may_return_null=1:symbolize=1"
        env["UBSAN_OPTIONS"] = "print_stacktrace=1:halt_on_error=1"
        env["ASAN_SYMBOLIZER_PATH"] = shutil.which("llvm-symbolizer-14") or shutil.which("llvm-symbolizer") or ""
    return env


def build(flavours, targets="all"):
    """make the requested flavours from REPO's working tree, one builder at a time (file lock)"""
    os.makedirs(BUILD_ROOT, exist_ok=True)
    lock = open(os.path.join(BUILD_ROOT, ".lock"), "w")
    fcntl.flock(lock, fcntl.LOCK_EX)
    try:
        for fl in flavours:
            cmd = ["make", "-f", os.path.join(VERIF, "build", "Makefile"), "-j%d" % NCPU, "FLAVOUR=" + fl,
                   "REPO=" + REPO, "OUT=" + build_dir(fl), targets]
            t0 = time.time()
            p = subprocess.run(cmd, capture_output=True, text=True)
            if p.returncode != 0:
                sys.stderr.write(p.stdout[-4000:] + p.stderr[-8000:])
                return False
            sys.stderr.write("[build %s %s: %.1fs]\n" % (fl, targets, time.time() - t0))
    finally:
        fcntl.flock(lock, fcntl.LOCK_UN)
        lock.close()
    return True


def repo_head():
    try:
        h = subprocess.run(["git", "-C", REPO, "rev-parse", "HEAD"], capture_output=True, text=True).stdout.strip()
        d = subprocess.run(["git", "-C", REPO, "status", "--porcelain", "--untracked-files=no"], capture_output=True, text=True).stdout.strip()
        return h + ("+dirty" if d else "")
    except Exception:
        return "unknown"


def _die_with_parent():
    """PR_SET_PDEATHSIG: a worker must not outlive a runner that was killed (e.g. by an outer timeout)"""
    try:
        import ctypes
        ctypes.CDLL(None).prctl(1, signal.SIGKILL)
    except Exception:  # noqa: B902
        pass


class Worker(object):
    def __init__(self, modname, flavour, tier, index, verif_seed, n, workdir, extra=(), autostart=True, restart=0, tag=""):
        self.modname, self.flavour, self.tier, self.index = modname, flavour, tier, index
        self.verif_seed, self.n, self.workdir, self.extra = verif_seed, n, workdir, list(extra)
        self.restart = restart
        self.tag = tag
        self.done = 0
        self.results = []
        self.proc = None
        if autostart:
            self.start()

    def reap(self):
        """kill whatever the worker's process group still holds (forked children, sanitizer symbolizer processes)"""
        if self.proc is not None:
            try:
                os.killpg(self.proc.pid, signal.SIGKILL)
            except OSError:
                pass
            try:
                self.proc.wait(timeout=10)
            except Exception:  # noqa: B902
                pass

    def start(self):
        self.reap()
        check_id = self.modname.split(".")[-1].upper()
        self.seed = derive_seed(self.verif_seed, check_id + "/" + self.flavour, self.index, self.restart)
        self.prefix = os.path.join(self.workdir, "w%s%s_%d_%d" % (self.tag, self.flavour, self.index, self.restart))
        self.errfile = open(self.prefix + ".stderr", "w")
        self.proc = subprocess.Popen([PY, "-m", "vlib.worker", self.modname, self.flavour, self.tier, str(self.seed),
                                      str(max(1, self.n - self.done)), self.prefix] + self.extra,
                                     cwd=VERIF, env=worker_env(self.flavour), stdout=self.errfile, stderr=self.errfile,
                                     start_new_session=True, preexec_fn=_die_with_parent)
        self.started = time.time()

    def result(self):
        try:
            with open(self.prefix + ".json") as f:
                return json.load(f)
        except (OSError, ValueError):
            return None

    def slot_case(self):
        try:
            with open(self.prefix + ".slot") as f:
                return json.loads(f.read())
        except (OSError, ValueError):
            return None

    def slot_age(self):
        try:
            return time.time() - max(os.path.getmtime(self.prefix + ".slot"), self.started)
        except OSError:
            return time.time() - self.started

    def stderr_tail(self, n=6000):
        try:
            self.errfile.flush()
            with open(self.prefix + ".stderr", errors="replace") as f:
                return f.read()[-n:]
        except OSError:
            return ""


def match_known(mod, known, case, vio):
    from vlib.worker import match_known as mk
    return mk(mod, known, case, vio)


def write_replay(check_id, flavour, case, violation, verif_seed, extra=None):
    body = {"property": check_id, "check": "checks." + check_id.lower(), "flavour": flavour, "case": case,
            "violation": violation, "seed": verif_seed, "repo_head": repo_head()}
    if extra:
        body.update(extra)
    h = hashlib.sha1(canon([check_id, case]).encode("utf-8", "surrogatepass")).hexdigest()[:16]
    d = os.path.join(os.environ.get("VERIF_REPLAY_DIR", os.path.join(VERIF, "replays")), check_id)
    os.makedirs(d, exist_ok=True)
    path = os.path.join(d, h + ".json")
    with open(path, "w") as f:
        json.dump(body, f, indent=1, default=repr, sort_keys=True)
    return path


def run_replay(path, quiet=False):
    """re-executes a stored case in a fresh process with no Hypothesis involved.
    returns ("pass"|"violation"|"crash"|"error", detail)"""
    with open(path) as f:
        body = json.load(f)
    flavour = body.get("flavour", "plain")
    code = ("import sys, json, importlib\n"
            "sys.path.insert(0, %r)\n"
            "from vlib.common import Violation\n"
            "body = json.load(open(%r))\n"
            "mod = importlib.import_module(body['check'])\n"
            "getattr(mod, 'setup', lambda *a: None)(%r, 'quick')\n"
            "try:\n"
            "    mod.run_case(body['case'])\n"
            "except Violation as v:\n"
            "    print('REPLAY-VIOLATION ' + json.dumps(v.todict(), default=repr)); sys.exit(1)\n"
            "print('REPLAY-PASS'); sys.exit(0)\n") % (VERIF, path, flavour)
    import types
    with tempfile.TemporaryFile("w+", errors="replace") as fo, tempfile.TemporaryFile("w+", errors="replace") as fe:
        # files, not pipes: a sanitizer's symbolizer child can keep a pipe open after the process aborted
        proc = subprocess.Popen([PY, "-c", code], cwd=VERIF, env=worker_env(flavour), stdout=fo, stderr=fe, start_new_session=True)
        try:
            rc = proc.wait(timeout=float(os.environ.get("VERIF_CASE_TIMEOUT", "120")))
        except subprocess.TimeoutExpired:
            try:
                os.killpg(proc.pid, signal.SIGKILL)
            except OSError:
                proc.kill()
            proc.wait()
            return "hang", "timeout"
        try:
            # a replay that ends in a sanitizer abort leaves its llvm-symbolizer child behind (own session): reap the group
            os.killpg(proc.pid, signal.SIGKILL)
        except OSError:
            pass
        fo.seek(0)
        fe.seek(0)
        p = types.SimpleNamespace(returncode=rc, stdout=fo.read(), stderr=fe.read())
    if p.returncode == 0 and "REPLAY-PASS" in p.stdout:
        return "pass", ""
    if p.returncode == 1 and "REPLAY-VIOLATION" in p.stdout:
        line = [ln for ln in p.stdout.splitlines() if ln.startswith("REPLAY-VIOLATION")][-1]
        return "violation", json.loads(line[len("REPLAY-VIOLATION "):])
    if p.returncode < 0 or "Sanitizer" in p.stderr or p.returncode == 134 or "runtime error:" in p.stderr:
        return "crash", (p.stderr[-3000:] or "signal %d" % -p.returncode)
    return "error", (p.stdout[-1500:] + p.stderr[-3000:])


def run_check(check_id, tier, collect=False, plan_override=None):
    t0 = time.time()
    verif_seed = int(os.environ.get("VERIF_SEED", "1"))
    modname = "checks." + check_id.lower()
    # build first: importing a check module loads the libraries it tests
    if not build(["plain", "san"], "all"):
        print("HARNESS-ERROR: build failed")
        return 2
    mod = importlib.import_module(modname)
    # targets a check needs besides `all` (libFuzzer binaries: a second, instrumented compilation of libawkward) are built here, not
    # inside a case, where a build of several minutes on a loaded machine would be taken for a hang by the per-case watchdog
    for target in getattr(mod, "FUZZ_TARGETS", []):
        if not build(["san"], target):
            print("HARNESS-ERROR: build of %s failed" % target)
            return 2
    plan = plan_override or mod.PLAN[tier]
    known = load_known_findings()
    status = 0
    known_lines = []
    violations = []
    harness_errors = []
    replay_counts = collections.Counter()

    # ---- regression tier: stored replays
    for entry in known:
        props = entry.get("properties", [entry.get("property")])
        if check_id != props[0]:
            continue  # each finding is re-checked by the first property it is filed under
        rp = entry.get("replay")
        if not rp:
            continue
        outcome, detail = run_replay(os.path.join(VERIF, rp))
        replay_counts[entry["status"] + ":" + outcome] += 1
        if entry["status"] == "known":
            if outcome in ("violation", "crash", "hang"):
                known_lines.append("KNOWN-FINDING: property=%s %s" % (check_id, entry["what"]))
            elif outcome == "error":
                harness_errors.append("replay %s: %s" % (rp, detail))
        elif entry["status"] == "fixed":
            if outcome in ("violation", "crash", "hang"):
                violations.append((rp if os.path.isabs(rp) else os.path.join(VERIF, rp), "regression of a fixed finding: " + entry["what"]))
            elif outcome == "error":
                harness_errors.append("replay %s: %s" % (rp, detail))
    for line in known_lines:
        print(line)

    # ---- generated search
    workdir = tempfile.mkdtemp(prefix="vcheck_%s_" % check_id, dir=os.path.join(BUILD_ROOT))
    workers = []
    extra = ["--collect", "--fork-each"] if collect else (["--fork-each"] if getattr(mod, "FORK_EACH", False) else [])
    flavour_entries = collections.Counter()
    for p in plan:
        w = p.get("workers", NCPU)
        per = max(1, p["cases"] // w)
        # a second plan entry of the same flavour needs its own file names (slot, result, hashes): tag them
        tag = "" if flavour_entries[p["flavour"]] == 0 else "p%d" % flavour_entries[p["flavour"]]
        flavour_entries[p["flavour"]] += 1
        for i in range(w):
            workers.append(Worker(modname, p["flavour"], tier, i, verif_seed, per, workdir, extra + p.get("flags", []), tag=tag))
    wall_cap = float(os.environ.get("VERIF_WALL_CAP", getattr(mod, "WALL_CAP", {}).get(tier, 3000)))
    case_timeout = float(os.environ.get("VERIF_CASE_TIMEOUT", "120"))
    finished = []
    crash_known = collections.Counter()
    budget_exhausted = False
    pending = list(workers)
    while pending:
        time.sleep(0.2)
        for w in list(pending):
            rc = w.proc.poll()
            res = w.result()
            if rc is None:
                if time.time() - t0 > wall_cap:
                    w.reap()
                    w.proc.wait()
                    budget_exhausted = True
                    if res:
                        w.results.append(res)
                    pending.remove(w)
                    finished.append(w)
                elif res is not None and res.get("outcome") not in (None, "running"):
                    pass    # final outcome written, slot removed, process still tearing down: not a hang
                elif w.slot_age() > case_timeout and "--fork-each" not in w.extra:
                    # hang candidate: kill and treat like a crash with clause hang
                    w.reap()
                    w.proc.wait()
                    _handle_death(w, mod, known, check_id, verif_seed, violations, crash_known, pending, finished, "hang", harness_errors)
                continue
            if res is not None and res.get("outcome") != "running":
                w.results.append(res)
                pending.remove(w)
                finished.append(w)
                if res["outcome"] == "violation":
                    path = write_replay(check_id, w.flavour, res["violation"]["case"], res["violation"]["violation"], verif_seed)
                    violations.append((path, res["violation"]["violation"].get("message", "")))
                elif res["outcome"] == "harness_error":
                    harness_errors.append(json.dumps(res["violation"], default=repr)[:6000])
            else:
                _handle_death(w, mod, known, check_id, verif_seed, violations, crash_known, pending, finished, "crash", harness_errors)
        if violations and not collect:
            # stop the fleet at the first confirmed unknown violation
            for w in pending:
                w.reap()
                w.proc.wait()
                r = w.result()
                if r:
                    w.results.append(r)
                finished.append(w)
            pending = []

    for w in finished:
        w.reap()

    # ---- merge
    total = collections.Counter()
    census = collections.Counter()
    discarded = collections.Counter()
    excluded = collections.Counter()
    known_hits = collections.Counter(crash_known)
    buckets = {}
    samples = {}
    hashes = set()
    per_flavour = collections.Counter()
    for w in finished:
        for res in w.results:
            total["evaluations"] += res["evaluations"]
            per_flavour[w.flavour] += res["evaluations"]
            census.update(res["census"])
            discarded.update(res["discarded"])
            excluded.update(res["excluded"])
            known_hits.update(res["known_hits"])
            for k, b in res["buckets"].items():
                if k not in buckets:
                    buckets[k] = b
                else:
                    buckets[k]["count"] += b["count"]
            for k, s in res["samples"].items():
                samples.setdefault(k, s)
    for path in glob.glob(os.path.join(workdir, "*.hashes")):
        with open(path, "rb") as f:
            data = f.read()
        for i in range(0, len(data) - 7, 8):
            hashes.add(data[i:i + 8])
    for name in known_hits:
        entry = [e for e in known if e.get("predicate") == name]
        line = "KNOWN-FINDING: property=%s %s" % (check_id, entry[0]["what"] if entry else name)
        if line not in known_lines:
            known_lines.append(line)
            print(line)
    if collect:
        with open(os.path.join(BUILD_ROOT, "collect_%s.json" % check_id), "w") as f:
            json.dump(buckets, f, indent=1, default=repr)
        print("---- buckets (collect mode)")
        for k, b in sorted(buckets.items(), key=lambda kv: -kv[1]["count"]):
            print("BUCKET %s count=%d\n   case=%s\n   violation=%s" % (k, b["count"], canon(b["first"])[:int(os.environ.get("VERIF_SHOW", "700"))], json.dumps(b["violation"], default=repr)[:int(os.environ.get("VERIF_SHOW", "700"))]))

    if harness_errors:
        status = 2
        for h in harness_errors[:3]:
            print("HARNESS-ERROR: " + h)
    if violations:
        status = 1
        seen = set()
        for path, msg in violations:
            if path in seen:
                continue
            seen.add(path)
            print("VIOLATION property=%s replay=%s" % (check_id, path))
            print("  " + str(msg)[:600])
    elif collect and buckets:
        status = 1

    sample_list = list(samples.values())[:6]
    ev = {
        "property_id": check_id, "tier": tier, "seed": verif_seed, "level": "exploration",
        "coverage": {
            "evaluations": int(total["evaluations"]),
            "distinct_nontrivial": len(hashes),
            "rule": mod.RULE,
            "samples": sample_list if sample_list else [{"note": "no non-trivial sample recorded"}],
            "per_flavour_evaluations": dict(per_flavour),
            "census": dict(census.most_common(200)),
            "discarded": dict(discarded),
            "excluded_by_finding": dict(excluded),
            "known_finding_hits": dict(known_hits),
            "regression_replays": dict(replay_counts),
            "budget_exhausted": budget_exhausted,
            "plan": plan,
            "repo_head": repo_head(),
            "explanation": getattr(mod, "EXPLANATION", ""),
        },
        "assumptions": list(getattr(mod, "ASSUMPTIONS", [])),
        "wall_s": round(time.time() - t0, 2),
        "violations": len(set(p for p, _ in violations)),
    }
    evdir = os.environ.get("VERIF_EVIDENCE_DIR", os.path.join(VERIF, "evidence"))
    os.makedirs(evdir, exist_ok=True)
    with open(os.path.join(evdir, check_id + ".json"), "w") as f:
        json.dump(ev, f, indent=1, default=repr, sort_keys=True)
    print("%s %s: %d cases (%d distinct non-trivial), %d discarded, %d excluded, %.0fs, status %d" % (
        check_id, tier, total["evaluations"], len(hashes), sum(discarded.values()), sum(excluded.values()), time.time() - t0, status))
    if os.environ.get("VERIF_KEEP_WORK") is None:
        shutil.rmtree(workdir, ignore_errors=True)
    return status


def _handle_death(w, mod, known, check_id, verif_seed, violations, crash_known, pending, finished, kind, harness_errors):
    """worker died or hung: attribute to the slot case; known -> restart, unknown -> minimise and report"""
    res = w.result()
    if res:
        w.results.append(res)
        w.done += res.get("evaluations", 0)
    case = w.slot_case()
    tail = w.stderr_tail()
    label = ""
    if case is not None and hasattr(mod, "case_label"):
        try:
            label = mod.case_label(case)
        except Exception:  # noqa: B902
            label = ""
    vio = {"bucket": kind + ":" + label, "message": "worker %s in native code (flavour %s)" % ("hung" if kind == "hang" else "died", w.flavour),
           "clause": "C12-" + kind, "stderr_tail": tail[-3000:], "expected": None, "observed": None}
    if case is None:
        # died outside a case: harness problem
        pending.remove(w)
        finished.append(w)
        harness_errors.append("worker died outside any case: " + tail[-1500:])
        return
    name = match_known(mod, known, case, vio)
    if name is not None:
        crash_known[name] += 1
        w.restart += 1
        if w.restart > 40 or w.done >= w.n:
            pending.remove(w)
            finished.append(w)
        else:
            w.start()
        return
    # unknown: try to minimise by re-running this worker's exact sequence with per-case forking
    pending.remove(w)
    finished.append(w)
    minimal, mvio = case, vio
    if kind == "crash" and os.environ.get("VERIF_NO_MINIMISE") is None:
        try:
            m = Worker(w.modname, w.flavour, w.tier, w.index, verif_seed, w.n - (w.done - (res or {}).get("evaluations", 0)), w.workdir,
                       ["--fork-each"], restart=w.restart, tag="min")
            t1 = time.time()
            while m.proc.poll() is None and time.time() - t1 < 240:
                time.sleep(0.3)
            if m.proc.poll() is None:
                m.reap()
                m.proc.wait()
            m.reap()
            r = m.result()
            if r and r.get("outcome") == "violation" and r["violation"].get("case") is not None:
                minimal = r["violation"]["case"]
                mvio = r["violation"]["violation"]
                mvio["stderr_tail"] = tail[-3000:]
        except Exception as e:  # minimisation is best effort
            sys.stderr.write("minimise failed: %r\n" % (e,))
    path = write_replay(check_id, w.flavour, minimal, mvio, verif_seed)
    violations.append((path, mvio.get("message", "") + " " + tail[-400:]))
