"""Shared definitions for the /verif runner: paths, Violation, case hashing, known findings."""
import hashlib
import json
import os

VERIF = os.path.dirname(os.path.dirname(os.path.abspath(__file__)))
REPO = os.environ.get("AWKWARD_REPO", "/repo")
BUILD_ROOT = os.environ.get("VERIF_BUILD_ROOT", os.path.join(VERIF, ".build"))
PY = "/venv/bin/python"


def build_dir(flavour):
    return os.path.join(BUILD_ROOT, flavour)


class Violation(Exception):
    """The property (or one of its post-conditions) does not hold for this case.

    bucket  -- short root-cause key: (operation, node-class path, kind); used to enumerate
               root causes instead of stopping at the first failing input.
    """

    def __init__(self, bucket, message, expected=None, observed=None, clause=None):
        Exception.__init__(self, "%s: %s" % (bucket, message))
        self.bucket = bucket
        self.message = message
        self.expected = expected
        self.observed = observed
        self.clause = clause

    def todict(self):
        return {"bucket": self.bucket, "message": self.message, "expected": _js(self.expected),
                "observed": _js(self.observed), "clause": self.clause}


class HarnessError(Exception):
    """Something is wrong with the machinery (model self-test, bridge misuse): exit 2, never a violation."""


def _js(x):
    try:
        json.dumps(x)
        return x
    except (TypeError, ValueError):
        return repr(x)


def canon(case):
    return json.dumps(case, sort_keys=True, separators=(",", ":"), default=repr)


def case_hash(case):
    return hashlib.sha1(canon(case).encode("utf-8", "surrogatepass")).digest()[:8]


def load_known_findings():
    path = os.path.join(VERIF, "known_findings.jsonl")
    out = []
    if os.path.exists(path):
        with open(path) as f:
            for line in f:
                line = line.strip()
                if line and not line.startswith("#"):
                    out.append(json.loads(line))
    return out


def derive_seed(verif_seed, check_id, worker, restart=0):
    h = hashlib.sha256(("%d/%s/%d/%d" % (verif_seed, check_id, worker, restart)).encode()).digest()
    return int.from_bytes(h[:8], "big") % (2 ** 63)
