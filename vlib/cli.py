import json
import os
import sys

from vlib import runner
from vlib.common import VERIF


def main():
    args = sys.argv[1:]
    if not args:
        print(__doc__ or "usage: vcheck <ID> [--tier quick|thorough] [--collect] | vcheck replay <file>")
        return 2
    if args[0] == "replay":
        path = args[1]
        with open(path) as f:
            body = json.load(f)
        if not runner.build([body.get("flavour", "plain")]):
            print("HARNESS-ERROR: build failed")
            return 2
        outcome, detail = runner.run_replay(path)
        print("replay %s: %s" % (path, outcome))
        if outcome == "pass":
            return 0
        print(json.dumps(detail, indent=1, default=repr) if not isinstance(detail, str) else detail)
        if outcome == "error":
            return 2
        print("VIOLATION property=%s replay=%s" % (body["property"], os.path.abspath(path)))
        return 1
    check_id = args[0].upper()
    tier = os.environ.get("VERIF_TIER", "quick")
    if "--tier" in args:
        tier = args[args.index("--tier") + 1]
    return runner.run_check(check_id, tier, collect="--collect" in args)


if __name__ == "__main__":
    sys.exit(main())
