"""Hypothesis strategies for AwkwardForth programs (property C19).

`cases()` draws a JSON-serialisable case:
  {"source": str, "inputs": {name: hex}, "bits": 32|64, "stack": n, "recursion": n, "growth": [[init, factor], ...],
   "schedule": [k0, k1, ...], "calls": [[pause_index, word_index], ...], "mutated": bool}

Programs are built from a grammar over the documented vocabulary, well-formed by construction, with a running estimate of
the stack depth so that most words find their operands (a minority does not, on purpose: faults are part of the property).
Loops are bounded by construction with high probability (literal bounds, counted begin-loops, input-consuming loops); the
rest is cut off by the instruction budget of the model and counted as discarded.  A fraction of the programs is then mutated
at token level (delete / duplicate / swap / replace / insert / truncate) for the compile-error half.
"""
from hypothesis import strategies as st

from akmodel import forth as MF

DTYPE_NAMES = tuple(MF.DTYPES)
READ_LETTERS = tuple(MF.READERS)
SMALL = st.integers(-3, 12)
BOUNDARY = st.sampled_from([0, 1, -1, 2, 7, 8, 31, 32, 63, 64, 127, 128, 255, 256, 32767, 32768, 65535, 65536, -128, -129, -32768,
                            2147483647, -2147483648, 2147483646, -2147483647, 1073741824, 46341, 65537, 0x7fff0000])
UNARY = ("negate", "1+", "1-", "abs", "0=", "invert", "dup", "drop")
BINARY = ("+", "-", "*", "/", "mod", "/mod", "min", "max", "=", "<>", ">", ">=", "<", "<=", "and", "or", "xor", "swap", "over",
          "nip", "tuck")
TERNARY = ("rot",)
VOCAB = (MF.BUILTINS + ("if", "then", "else", "do", "loop", "+loop", "begin", "again", "until", "while", "repeat", "exit", "halt",
                        "pause", ":", ";", "recurse", "variable", "input", "output", "!", "+!", "@", "len", "pos", "end", "seek",
                        "skip", "<-", "+<-", "stack", "rewind", "(", ")", "\\", "int32", "float64", "i->", "#B->", "!h->",
                        "varint->", "0", "1", "-1", "5", "x", "y", "v", "foo", "undefined-word"))


class _Gen(object):
    def __init__(self, draw, max_total=30):
        self.draw = draw
        self.max_total = max_total
        self.vars = []
        self.ins = []
        self.outs = []
        self.words = []
        self.fresh = 0

    def integer(self, lo, hi):
        return self.draw(st.integers(lo, hi))

    def chance(self, percent):
        return self.draw(st.integers(0, 99)) < percent

    def pick(self, seq):
        return seq[self.draw(st.integers(0, len(seq) - 1))]

    def literal(self):
        r = self.integer(0, 19)
        if r < 14:
            v = self.draw(SMALL)
        elif r < 19:
            v = self.draw(BOUNDARY)
        else:
            v = self.draw(st.integers(-(1 << 31), (1 << 31) - 1))
        if v >= 0 and self.chance(6):
            return hex(v)
        if self.integer(0, 999) in (437, 438):      # (not 0: Hypothesis favours the ends of a range)
            return self.pick(("99999999999999999999999", "4294967296", "-9223372036854775808", "0xffffffffffffffffff", "18446744073709551615"))
        return str(v)

    # every production returns (tokens, new depth estimate)
    def ensure(self, toks, est, need):
        """push literals until the estimated depth is `need` (90% of the time)"""
        while est < need and self.chance(97):
            toks.append(self.literal())
            est += 1
        return est

    def seq(self, budget, est, dodepth, indef):
        toks = []
        while budget > 0:
            before = len(toks)
            est = self.item(toks, est, dodepth, indef, budget)
            budget -= max(1, len(toks) - before)
            if self.chance(3):
                break
        return toks, est

    def reader(self):
        r = self.integer(0, 19)
        rep = "#" if self.chance(30) else ""
        if r < 2:
            return rep + "varint->", rep
        if r < 4:
            return rep + "zigzag->", rep
        if r < 5:
            return rep + ("!" if self.chance(30) else "") + str(self.pick((1, 2, 3, 4, 5, 7, 8, 9, 12, 16, 17, 24))) + "bit->", rep
        letter = self.pick(READ_LETTERS)
        big = "!" if letter not in MF.NO_BIGENDIAN and self.chance(40) else ""
        return rep + big + letter + "->", rep

    def item(self, toks, est, dodepth, indef, budget):
        r = self.integer(0, 99)
        if r < 11:
            toks.append(self.literal())
            return est + 1
        if r < 19:
            w = self.pick(UNARY)
            est = self.ensure(toks, est, 1)
            toks.append(w)
            return max(0, est + (1 if w == "dup" else -1 if w == "drop" else 0))
        if r < 32:
            w = self.pick(BINARY)
            est = self.ensure(toks, est, 2)
            toks.append(w)
            return max(0, est + {"swap": 0, "over": 1, "tuck": 1, "/mod": 0}.get(w, -1))
        if r < 33:
            est = self.ensure(toks, est, 3)
            toks.append("rot")
            return est
        if r < 35:
            w = self.pick(("lshift", "rshift"))
            est = self.ensure(toks, est, 1)
            toks.append(str(self.integer(0, 33)) if self.chance(85) else self.literal())
            toks.append(w)
            return est
        if r < 36:
            toks.append(self.pick(("true", "false")))
            return est + 1
        if r < 42 and self.vars:
            v = self.pick(self.vars)
            op = self.pick(("!", "+!", "@", "@"))
            if op == "@":
                toks += [v, "@"]
                return est + 1
            est = self.ensure(toks, est, 1)
            toks += [v, op]
            return max(0, est - 1)
        if r < 58 and self.ins:
            x = self.pick(self.ins)
            rd, rep = self.reader()
            if rep:
                toks.append(str(self.integer(0, 4)) if self.chance(90) else self.literal())
            if self.outs and self.chance(45):
                toks += [x, rd, self.pick(self.outs)]
                return est
            toks += [x, rd, "stack"]
            return est + (2 if rep else 1)
        if r < 62 and self.ins:
            x = self.pick(self.ins)
            w = self.pick(("len", "pos", "end", "seek", "skip"))
            if w in ("seek", "skip"):
                if self.chance(80):
                    toks.append(str(self.integer(-1, 9)))
                else:
                    est = self.ensure(toks, est, 1) - 1
                toks += [x, w]
                return max(0, est)
            toks += [x, w]
            return est + 1
        if r < 74 and self.outs:
            y = self.pick(self.outs)
            k = self.integer(0, 19)
            if k < 10:
                est = self.ensure(toks, est, 1)
                toks += [y, "<-", "stack"]
                return max(0, est - 1)
            if k < 15:
                est = self.ensure(toks, est, 1)
                toks += [y, "+<-", "stack"]
                return max(0, est - 1)
            if k < 17:
                toks += [y, "len"]
                return est + 1
            toks.append(str(self.integer(0, 2)) if self.chance(90) else str(self.integer(-2, 5)))
            toks += [y, "rewind" if k == 17 else "dup"]
            return est
        if r < 79 and budget >= 4:
            est = self.ensure(toks, est, 1) - 1
            est = max(0, est)
            cons, e1 = self.seq(min(budget - 2, self.integer(1, 6)), est, dodepth, indef)
            toks += ["if"] + cons
            if self.chance(40):
                alt, e2 = self.seq(min(budget - 2, self.integer(1, 5)), est, dodepth, indef)
                toks += ["else"] + alt
                e1 = min(e1, e2)
            toks.append("then")
            return min(est, e1)
        if r < 88 and budget >= 5:
            return self.doloop(toks, est, dodepth, indef, budget)
        if r < 93 and budget >= 6:
            return self.beginloop(toks, est, dodepth, indef, budget)
        if r < 95 and budget >= 6 and (self.ins or self.outs):
            return self.ioloop(toks, est, dodepth, indef)
        if r < 97 and self.words:
            toks.append(self.pick(self.words))
            return est
        if r < 98 and dodepth > 0:
            toks.append(("i", "j", "k")[self.integer(0, min(dodepth, 3) - 1)])
            return est + 1
        if r < 99:
            k = self.integer(0, 9)
            if k < 5:
                toks.append("pause")
            elif k < 7:
                toks.append("exit")
            elif k < 8:
                toks.append("halt")
            elif k < 9:
                toks += [self.pick((".\"", "s\"")), self.pick(("hello\"", "two words\"", "\""))]
                return est + (1 if toks[-2] == "s\"" else 0)
            else:
                toks.append(self.pick(("cr", ".s")))
            return est
        if indef and self.chance(40):
            toks.append("recurse")
            return est
        if self.chance(50):
            toks += ["(", self.pick(("comment", "stack -- effect", "1 2 +")), ")"]
        else:
            toks += ["\\", self.pick(("to end of line", "dup drop")), "\n"]
        return est

    def ioloop(self, toks, est, dodepth, indef):
        """a loop whose body certainly reads or writes: the typical use of the language (columnar output from a byte stream)"""
        k = self.integer(0, 5)
        body = []
        if self.ins and (k < 4 or not self.outs):
            x = self.pick(self.ins)
            rd, rep = self.reader()
            pre = [str(self.integer(0, 3))] if rep else []
            if self.outs and self.chance(50):
                body = pre + [x, rd, self.pick(self.outs)]
            else:
                body = pre + [x, rd, "stack"]
                if self.outs and self.chance(70):
                    body += [self.pick(self.outs), self.pick(("<-", "+<-")), "stack"]
                elif self.chance(50):
                    body += [self.pick(UNARY[:6])]
        elif self.outs:
            body = [self.pick(("i", "dup", self.literal())), self.pick(self.outs), self.pick(("<-", "+<-")), "stack"]
            if body[0] == "dup":
                toks.append(self.literal())
                est += 1
        else:
            return self.doloop(toks, est, dodepth, indef, 8)
        extra, _ = self.seq(self.integer(0, 3), 0, dodepth + 1, indef)
        if body[0] == "i" or self.chance(60):
            lo = self.integer(-1, 2)
            toks += [str(lo + self.integer(1, 5)), str(lo), "do"] + body + extra + ["loop"]
        elif self.ins and self.chance(70):
            x = self.pick(self.ins)
            toks += ["begin", x, "end", "0=", "while"] + body + ["repeat"]
        else:
            toks += [str(self.integer(1, 4)), "begin"] + [t for t in body if t != "i"] + ["1-", "dup", "0=", "until", "drop"]
        return est

    def doloop(self, toks, est, dodepth, indef, budget):
        k = self.integer(0, 9)
        if k < 7:
            lo = self.integer(-2, 3)
            toks += [str(lo + self.integer(0, 5)), str(lo)]
        elif k < 9:
            toks += [self.literal(), self.literal()]
        else:
            est = self.ensure(toks, est, 2)
            est = max(0, est - 2)
        body, e1 = self.seq(min(budget - 3, self.integer(1, 7)), 0, dodepth + 1, indef)
        if self.chance(35) and dodepth + 1 <= 3:
            body.insert(0, ("i", "j", "k")[self.integer(0, dodepth)])
            e1 += 1
        toks.append("do")
        toks += body
        if self.chance(30):
            toks.append(str(self.integer(1, 3)) if self.chance(88) else str(self.integer(-2, 0)))
            if self.chance(15):
                toks.append("pause")       # the step is on the stack while the machine is paused at the very end of the body
            toks.append("+loop")
        else:
            toks.append("loop")
        return est

    def beginloop(self, toks, est, dodepth, indef, budget):
        k = self.integer(0, 9)
        n = min(budget - 5, self.integer(1, 5))
        if k < 3 and self.vars:
            # counted: v counts down
            v = self.pick(self.vars)
            body, e1 = self.seq(n, 0, dodepth, indef)
            toks += [str(self.integer(1, 5)), v, "!", "begin"] + body + [v, "@", "1-", "dup", v, "!", "0=", "until"]
            return est
        if k < 5 and self.ins:
            x = self.pick(self.ins)
            rd, rep = self.reader()
            body, e1 = self.seq(n, 0, dodepth, indef)
            pre = [str(self.integer(1, 3))] if rep else []
            if self.chance(50):
                toks += ["begin"] + pre + [x, rd, "stack"] + body + [x, "end", "until"]
            else:
                toks += ["begin", x, "end", "0=", "while"] + pre + [x, rd, "stack"] + body + ["repeat"]
            return est
        if k < 7:
            # counter on the stack
            body, e1 = self.seq(n, 0, dodepth, indef)
            toks += [str(self.integer(1, 5)), "begin"] + body + ["1-", "dup", "0=", "until", "drop"]
            return est
        if k < 8:
            body, e1 = self.seq(n, 0, dodepth, indef)
            toks += [str(self.integer(1, 5)), "begin", "dup", "0", ">", "while"] + body + ["1-", "repeat", "drop"]
            return est
        if k < 9:
            body, e1 = self.seq(n, 0, dodepth, indef)
            closer = self.pick((["until"], ["while"] + self.seq(2, est, dodepth, indef)[0] + ["repeat"]))
            toks += ["begin"] + body + [self.literal()] + closer
            return est
        body, e1 = self.seq(n, 0, dodepth, indef)
        toks += ["begin"] + body + [self.literal(), "if", self.pick(("exit", "halt", "exit")), "then", "again"]
        return est

    def program(self):
        decls = []
        for _ in range(self.integer(0, 2)):
            name = self.pick(("v", "w", "count"))
            if name not in self.vars:
                self.vars.append(name)
                decls += ["variable", name]
        for _ in range(self.integer(0, 2) if self.chance(88) else 0):
            name = self.pick(("x", "data", "z"))
            if name not in self.ins:
                self.ins.append(name)
                decls += ["input", name]
        for _ in range(self.integer(0, 2) if self.chance(85) else 0):
            name = self.pick(("y", "out", "offsets"))
            if name not in self.outs:
                self.outs.append(name)
                decls += ["output", name, self.pick(DTYPE_NAMES)]
        total = self.integer(6, self.max_total)
        for _ in range(self.integer(0, 2) if self.chance(45) else 0):
            name = self.pick(("foo", "bar", "baz"))
            if name in self.words:
                continue
            if self.chance(35):
                # bounded recursion idiom
                self.words.append(name)
                body, _ = self.seq(self.integer(1, 4), 1, 0, True)
                decls += [":", name, "dup", "0", ">", "if", "1-"] + body + [self.pick(("recurse", name)), "then", ";"]
            else:
                nbody = self.integer(1, 8)
                if self.chance(50):
                    self.words.append(name)          # visible inside its own body (free-form recursion)
                    body, _ = self.seq(nbody, self.integer(0, 2), 0, True)
                else:
                    body, _ = self.seq(nbody, self.integer(0, 2), 0, True)
                    self.words.append(name)
                decls += [":", name] + body + [";"]
            total -= 3
        main = []
        est = 0
        if (self.ins or self.outs) and self.chance(55):
            head, est = self.seq(self.integer(0, 4), 0, 0, False)
            main += head
            before = len(main)
            est = self.ioloop(main, est, 0, False)
            total -= len(main) - before
        rest, _ = self.seq(max(2, total), est, 0, False)
        return decls + main + rest


def mutate(draw, toks):
    toks = list(toks)
    for _ in range(draw(st.integers(1, 2))):
        if not toks:
            break
        kind = draw(st.integers(0, 6))
        p = draw(st.integers(0, len(toks) - 1))
        if kind == 0:
            del toks[p]
        elif kind == 1:
            toks.insert(p, toks[p])
        elif kind == 2 and p + 1 < len(toks):
            toks[p], toks[p + 1] = toks[p + 1], toks[p]
        elif kind == 3:
            toks[p] = draw(st.sampled_from(VOCAB))
        elif kind == 4:
            toks.insert(p, draw(st.sampled_from(VOCAB)))
        elif kind == 5:
            del toks[p:]
        else:
            q = draw(st.integers(0, len(toks) - 1))
            toks[p], toks[q] = toks[q], toks[p]
    return toks


def render(toks, style):
    out = []
    for t in toks:
        if t == "\n":
            out.append("\n")
            continue
        if out and not out[-1].endswith("\n"):
            out.append(("\n" if style == 1 and t in (":", "variable", "input", "output", "begin", "do", "if") else
                        "  " if style == 2 else "\t" if style == 3 and len(out) % 5 == 0 else " "))
        out.append(t)
    return "".join(out)


# byte strings made of variable-length integers: short ones, 9- and 10-byte ones (the 'varint too big' boundary), small bytes
VARINT_HEAVY = st.lists(st.one_of(st.binary(min_size=1, max_size=1),
                                  st.integers(0, 300).map(lambda v: bytes([v & 0x7f | 0x80, v >> 7]) if v > 127 else bytes([v])),
                                  st.sampled_from([b"\xff" * 8 + b"\x7f", b"\x80" * 9 + b"\x01", b"\xff" * 9 + b"\x01", b"\xff" * 10,
                                                   b"\x80" * 9 + b"\x00", b"\xff" * 8 + b"\x00", b"\x00", b"\x01", b"\x00\x00\x00\x01"])),
                         min_size=0, max_size=12).map(lambda parts: b"".join(parts)[:64])
GROWTH = [[1, 1.5], [2, 2.0], [1024, 1.5], [1, 1.1], [3, 1.01], [1, 3.0], [16, 1.25]]


@st.composite
def cases(draw, mutate_percent=15, max_total=30):
    g = _Gen(draw, max_total)
    toks = g.program()
    mutated = draw(st.integers(0, 99)) < mutate_percent
    if mutated:
        toks = mutate(draw, toks)
    source = render(toks, draw(st.sampled_from([0, 0, 0, 1, 2, 3])))
    inputs = {}
    for name in ("x", "data", "z"):
        if name in g.ins or draw(st.integers(0, 19)) == 0:
            inputs[name] = draw(st.one_of(st.binary(min_size=0, max_size=64), st.binary(min_size=20, max_size=64), VARINT_HEAVY)).hex()
    bits = draw(st.sampled_from([32, 64]))
    stack = draw(st.sampled_from([1024] * 14 + [16, 16, 8, 4, 3, 2, 1]))
    recursion = draw(st.sampled_from([1024] + [64] * 8 + [10, 10, 6, 4, 3, 2, 1]))
    n_growth = draw(st.integers(2, 3))
    growth = [draw(st.sampled_from(GROWTH)) for _ in range(n_growth)]
    schedule = draw(st.lists(st.integers(0, 12), min_size=0, max_size=6))
    calls = draw(st.lists(st.tuples(st.integers(0, 3), st.integers(0, 2)), min_size=0, max_size=2)) if g.words else []
    return {"source": source, "inputs": inputs, "bits": bits, "stack": stack, "recursion": recursion, "growth": growth,
            "schedule": schedule, "calls": [list(c) for c in calls], "mutated": mutated}
