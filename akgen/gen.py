"""Type-directed generators: draw a type, draw values of it, draw one of the many physical encodings.

Construction, not rejection: assume()/filter() are not used.
"""
import numpy as np
from hypothesis import strategies as st

from akmodel import core as M


class Cfg(object):
    """what a check allows its generated arrays to contain"""

    def __init__(self, max_depth=3, leaf_dtypes=("int64", "float64", "bool"), records=True, unions=True, options=True,
                 strings=True, unknown=True, regular=True, nan=False, extremes=False, indexed=True, max_len=6, max_list=4,
                 tuples=True, complex_=False, named_records=True, zero_field_records=True, numpy_nd=True, strided=True,
                 option_encodings=("IndexedOptionArray32", "IndexedOptionArray64", "ByteMaskedArray", "BitMaskedArray", "UnmaskedArray"),
                 list_encodings=("ListOffsetArray32", "ListOffsetArrayU32", "ListOffsetArray64", "ListArray32", "ListArrayU32", "ListArray64"),
                 min_len=0, top_list=False, bytes_=True):
        self.__dict__.update(locals())
        del self.__dict__["self"]


DEFAULT = Cfg()

_small_text = st.text(alphabet=st.sampled_from(list("abcXYZ 09\"\\/\n\téΩ€\U0001f600")), max_size=5)


# ------------------------------------------------------------------ types
@st.composite
def types(draw, cfg=DEFAULT, depth=None, top=True):
    depth = cfg.max_depth if depth is None else depth
    kinds = ["prim", "prim"]
    if cfg.strings:
        kinds.append("string")
        if cfg.bytes_:
            kinds.append("bytes")
    if depth > 0:
        kinds += ["list", "list", "list"]
        if cfg.regular:
            kinds.append("regular")
        if cfg.options:
            kinds.append("option")
        if cfg.records:
            kinds.append("record")
        if cfg.unions and depth > 1:
            kinds.append("union")
    if cfg.unknown and not top:
        kinds.append("unknown")
    k = draw(st.sampled_from(kinds))
    if top and cfg.top_list and depth > 0:
        k = "list"
    if k == "prim":
        return ["prim", draw(st.sampled_from(cfg.leaf_dtypes))]
    if k in ("string", "bytes", "unknown"):
        return [k]
    if k == "list":
        return ["list", draw(types(cfg, depth - 1, False))]
    if k == "regular":
        return ["regular", draw(types(cfg, depth - 1, False)), draw(st.sampled_from([0, 1, 1, 2, 2, 3]))]
    if k == "option":
        inner = draw(types(cfg, depth - 1, False))
        return M.option_of(inner) if inner[0] != "unknown" else ["option", inner]
    if k == "record":
        istuple = cfg.tuples and draw(st.booleans())
        lo = 0 if cfg.zero_field_records else 1
        n = draw(st.sampled_from([lo, 1, 2, 2, 3]))
        names = [str(i) for i in range(n)] if istuple else draw(st.permutations(["x", "y", "z", "w"]))[:n]
        fields = [[nm, draw(types(cfg, depth - 1, False))] for nm in names]
        recname = draw(st.sampled_from([None, None, "Point", "Vec"])) if cfg.named_records else None
        return ["record", fields, istuple, recname]
    if k == "union":
        n = draw(st.integers(2, 3))
        members = []
        for _ in range(n):
            t = draw(types(Cfg(**dict(cfg.__dict__, unions=False, unknown=False)), depth - 1, False))
            members.append(t)
        # members must be pairwise non-mergeable for the union to be irreducible: use distinct "shapes"
        out = []
        seen = set()
        for t in members:
            key = mergekey(t)
            if key not in seen:
                seen.add(key)
                out.append(t)
        if len(out) == 1:
            return out[0]
        opt = any(t[0] == "option" for t in out)
        out = [M.strip_option(t) for t in out]
        dedup = []
        seen = set()
        for t in out:
            key = mergekey(t)
            if key not in seen:
                seen.add(key)
                dedup.append(t)
        if len(dedup) == 1:
            return M.option_of(dedup[0]) if opt else dedup[0]
        u = ["union", dedup]
        return ["option", u] if opt else u
    raise AssertionError(k)


def mergekey(T):
    """two types with the same key are mergeable by the library (numbers merge with numbers, lists with lists of
    mergeable content, options are transparent, records by field names)"""
    k = T[0]
    if k == "prim":
        return "bool" if T[1] == "bool" else "number"
    if k in ("string", "bytes", "unknown"):
        return k
    if k in ("list", "regular"):
        return "list(" + mergekey(T[1]) + ")"
    if k == "option":
        return mergekey(T[1])
    if k == "record":
        return "record(" + ",".join(sorted(n for n, _ in T[1])) + ("T" if T[2] else "R") + str(T[3]) + ")"
    if k == "union":
        return "union"
    raise AssertionError(T)


# ------------------------------------------------------------------ values
def leaf_strategy(dt, cfg):
    if dt == "bool":
        return st.booleans()
    if dt.startswith(("int", "uint")):
        info = np.iinfo(dt)
        lo, hi = max(int(info.min), -6), min(int(info.max), 9)
        base = st.integers(lo, hi)
        if cfg.extremes:
            return st.one_of(base, base, base, st.sampled_from([int(info.min), int(info.max), int(info.max) - 1, int(info.min) + 1]))
        return base
    if dt.startswith("float"):
        base = st.integers(-40, 40).map(lambda k: k / 4.0)
        if cfg.nan:
            return st.one_of(base, base, base, base, st.sampled_from([float("nan"), float("inf"), float("-inf"), -0.0]))
        return base
    if dt.startswith("complex"):
        return st.tuples(st.integers(-8, 8), st.integers(-8, 8)).map(lambda p: complex(p[0] / 2.0, p[1] / 2.0))
    raise AssertionError(dt)


@st.composite
def value(draw, T, cfg=DEFAULT):
    k = T[0]
    if k == "prim":
        return draw(leaf_strategy(T[1], cfg))
    if k == "string":
        return draw(_small_text)
    if k == "bytes":
        return draw(st.binary(max_size=4))
    if k == "list":
        if not has_values(T[1]):
            return []
        n = draw(st.sampled_from([0, 0, 1, 1, 2, 2, 3, cfg.max_list]))
        return [draw(value(T[1], cfg)) for _ in range(n)]
    if k == "regular":
        return [draw(value(T[1], cfg)) for _ in range(T[2])]
    if k == "option":
        if draw(st.integers(0, 9)) < 3 or not has_values(T[1]):
            return None
        return draw(value(T[1], cfg))
    if k == "record":
        if T[2]:
            return tuple(draw(value(t, cfg)) for _, t in T[1])
        return {n: draw(value(t, cfg)) for n, t in T[1]}
    if k == "union":
        ok = [t for t in T[1] if has_values(t)]
        i = draw(st.integers(0, len(ok) - 1))
        return draw(value(ok[i], cfg))
    if k == "unknown":
        raise AssertionError("no value of unknown type")
    raise AssertionError(T)


def has_values(T):
    """can a value of this type exist (unknown has none)?"""
    k = T[0]
    if k == "unknown":
        return False
    if k == "regular":
        return T[2] == 0 or has_values(T[1])
    if k == "record":
        return all(has_values(t) for _, t in T[1])
    if k == "union":
        return any(has_values(t) for t in T[1])
    return True   # list (empty), option (None), prim, strings


@st.composite
def values(draw, T, cfg=DEFAULT, n=None):
    if not has_values(T):
        return []
    if n is None:
        n = draw(st.sampled_from([0, 1, 1, 2, 2, 3, 3, 4, 5, cfg.max_len]))
        n = max(n, cfg.min_len)
    return [draw(value(T, cfg)) for _ in range(n)]


def member_of(T, v):
    """which union member a value belongs to (first match)"""
    for i, t in enumerate(T[1]):
        if conforms(t, v):
            return i
    raise AssertionError((T, v))


def conforms(T, v):
    k = T[0]
    if k == "prim":
        if T[1] == "bool":
            return isinstance(v, bool)
        if T[1].startswith(("int", "uint")):
            return isinstance(v, int) and not isinstance(v, bool)
        if T[1].startswith("float"):
            return isinstance(v, float)
        return isinstance(v, complex)
    if k == "string":
        return isinstance(v, str)
    if k == "bytes":
        return isinstance(v, bytes)
    if k == "list":
        return isinstance(v, list) and all(conforms(T[1], x) for x in v)
    if k == "regular":
        return isinstance(v, list) and len(v) == T[2] and all(conforms(T[1], x) for x in v)
    if k == "option":
        return v is None or conforms(T[1], v)
    if k == "record":
        if T[2]:
            return isinstance(v, tuple) and len(v) == len(T[1]) and all(conforms(t, x) for (_, t), x in zip(T[1], v))
        return isinstance(v, dict) and list(v) == [n for n, _ in T[1]] and all(conforms(t, v[n]) for n, t in T[1])
    if k == "union":
        return any(conforms(t, v) for t in T[1])
    return False


# ------------------------------------------------------------------ encodings
def _leafdata(vals, dt):
    if dt.startswith("complex"):
        return [[v.real, v.imag] for v in vals]
    return list(vals)


@st.composite
def encode(draw, T, vals, cfg=DEFAULT, allow_indexed=True, under_option=False):
    """one physical description whose decode() is (T, vals)"""
    d = draw(_encode_node(T, vals, cfg, under_option))
    if (cfg.indexed and allow_indexed and not under_option and not d["class"].startswith(("Indexed", "ByteMasked", "BitMasked", "Unmasked"))
            and d["class"] != "EmptyArray" and draw(st.integers(0, 7)) == 0):
        # IndexedArray wrapper: storage is a permutation with garbage; index picks the logical order
        w = draw(st.sampled_from(["32", "U32", "64"]))
        n = len(vals)
        perm = draw(st.permutations(list(range(n)))) if n > 0 else []
        storage = [vals[i] for i in perm]
        index = [0] * n
        for pos, i in enumerate(perm):
            index[i] = pos
        if draw(st.integers(0, 2)) == 0:
            # unreachable entries: the content is longer than the index (appended, so the positions above stay right)
            storage = storage + draw(_garbage(T, cfg, draw(st.integers(1, 2))))
        inner = draw(_encode_node(T, storage, cfg, False))
        d = {"class": "IndexedArray" + w, "index": index, "content": inner}
    return d


@st.composite
def _garbage(draw, T, cfg, k):
    """k throw-away values of type T (unreachable storage)"""
    if not has_values(T):
        return []
    return [draw(value(T, cfg)) for _ in range(k)]


@st.composite
def _encode_node(draw, T, vals, cfg, under_option):
    k = T[0]
    n = len(vals)
    if k == "unknown":
        return {"class": "EmptyArray"}
    if k == "prim":
        dt = T[1]
        d = {"class": "NumpyArray", "dtype": dt, "shape": [n], "data": _leafdata(vals, dt)}
        if cfg.strided and draw(st.integers(0, 4)) == 0:
            d["phys"] = {"step": draw(st.sampled_from([1, 2, 3, -1, -2])), "offset": draw(st.integers(0, 3)), "pad": draw(st.integers(0, 2)),
                         "fill": draw(st.sampled_from([0, 1, 99]))}
        return d
    if k in ("string", "bytes"):
        raw = [v.encode("utf-8", "surrogateescape") if isinstance(v, str) else v for v in vals]
        lists = [list(b) for b in raw]
        d = draw(_encode_lists(["prim", "uint8"], lists, Cfg(**dict(cfg.__dict__, strided=False, indexed=False, numpy_nd=False)), allow_regular=False))
        d["parameters"] = {"__array__": "string" if k == "string" else "bytestring"}
        c = d["content"]
        c["parameters"] = {"__array__": "char" if k == "string" else "byte"}
        return d
    if k == "list":
        return draw(_encode_lists(T[1], vals, cfg))
    if k == "regular":
        size = T[2]
        # rectilinear numbers may live in one n-d NumpyArray
        shape, leaf = _rect_shape(T)
        if cfg.numpy_nd and leaf is not None and draw(st.integers(0, 2)) == 0:
            flat = _flatten_rect(vals, len(shape))
            d = {"class": "NumpyArray", "dtype": leaf, "shape": [n] + shape, "data": _leafdata(flat, leaf)}
            k = draw(st.integers(0, 7))
            if k < 2:
                d["phys"] = {"order": "F"}
            elif k < 4 and cfg.strided:
                nd = 1 + len(shape)
                d["phys"] = {"view": {"pre": [draw(st.integers(0, 2)) for _ in range(nd)], "step": [draw(st.sampled_from([1, 1, 2, 3])) for _ in range(nd)],
                                      "post": [draw(st.integers(0, 1)) for _ in range(nd)]}, "fill": 99, "via": draw(st.sampled_from(["numpy", "getitem"]))}
                if k == 3:
                    d["phys"]["order"] = "F"
            return d
        flat = [x for v in vals for x in v]
        if size > 0:
            tail = draw(st.integers(0, size - 1)) if draw(st.integers(0, 3)) == 0 else 0
            flat = flat + draw(_garbage(T[1], cfg, tail))
            if len(flat) // size != n:       # garbage could not be produced (type without values)
                flat = flat[: n * size]
        content = draw(encode(T[1], flat, cfg))
        return {"class": "RegularArray", "size": size, "zeros_length": n if size == 0 else draw(st.sampled_from([0, n])), "content": content}
    if k == "option":
        return draw(_encode_option(T[1], vals, cfg))
    if k == "record":
        fields, istuple, recname = T[1], T[2], T[3]
        contents = []
        for i, (nm, ft) in enumerate(fields):
            fv = [v[i] if istuple else v[nm] for v in vals]
            extra = draw(st.integers(0, 2)) if draw(st.integers(0, 3)) == 0 else 0
            fv = fv + draw(_garbage(ft, cfg, extra))
            contents.append(draw(encode(ft, fv, cfg)))
        longer = any(M.length_of(c) != n for c in contents)
        explicit = (len(fields) == 0) or longer or draw(st.booleans())
        d = {"class": "RecordArray", "contents": contents, "keys": None if istuple else [nm for nm, _ in fields],
             "length": n if explicit else None}
        if recname is not None:
            d["parameters"] = {"__record__": recname}
        return d
    if k == "union":
        members = T[1]
        w = draw(st.sampled_from(["32", "U32", "64"]))
        which = [member_of(T, v) for v in vals]
        storages = [[] for _ in members]
        tags, index = [], []
        # each member's storage: its values in a drawn order, with garbage
        positions = [[] for _ in members]
        for pos, t in enumerate(which):
            positions[t].append(pos)
        slot = {}
        for t, plist in enumerate(positions):
            order = draw(st.permutations(plist)) if plist else []
            pre = draw(st.integers(0, 1)) if draw(st.integers(0, 3)) == 0 else 0
            storages[t] = draw(_garbage(members[t], cfg, pre))
            for p in order:
                slot[p] = len(storages[t])
                storages[t].append(vals[p])
        for pos, t in enumerate(which):
            tags.append(t)
            index.append(slot[pos])
        contents = [draw(encode(members[t], storages[t], cfg)) for t in range(len(members))]
        return {"class": "UnionArray8_" + w, "tags": tags, "index": index, "contents": contents}
    raise AssertionError(T)


def _rect_shape(T):
    shape = []
    while T[0] == "regular":
        shape.append(T[2])
        T = T[1]
    if T[0] == "prim":
        return shape, T[1]
    return shape, None


def _flatten_rect(vals, levels):
    out = vals
    for _ in range(levels):
        out = [x for v in out for x in v]
    return out


@st.composite
def _encode_lists(draw, ET, lists, cfg, allow_regular=True):
    """lists of element type ET -> a ListOffsetArray* or ListArray* description"""
    n = len(lists)
    cls = draw(st.sampled_from(cfg.list_encodings))
    w = "U32" if cls.endswith("U32") else ("32" if cls.endswith("32") else "64")
    if cls.startswith("ListOffsetArray"):
        pre = draw(st.sampled_from([0, 0, 0, 1, 2, 3]))
        post = draw(st.sampled_from([0, 0, 0, 1, 2]))
        front = draw(_garbage(ET, cfg, pre))
        back = draw(_garbage(ET, cfg, post))
        flat = list(front)
        offsets = [len(flat)]
        for v in lists:
            flat.extend(v)
            offsets.append(len(flat))
        flat.extend(back)
        content = draw(encode(ET, flat, cfg))
        return {"class": cls, "offsets": offsets, "content": content}
    # ListArray: drawn storage order, gaps, arbitrary start==stop for empties, shared ranges for equal lists
    mode = draw(st.sampled_from(["inorder", "permuted", "permuted", "gaps", "shared"]))
    order = list(range(n))
    if mode != "inorder" and n > 1:
        order = list(draw(st.permutations(order)))
    flat = []
    starts = [0] * n
    stops = [0] * n
    placed = []
    for i in order:
        v = lists[i]
        if mode in ("gaps", "shared") and draw(st.integers(0, 2)) == 0:
            flat.extend(draw(_garbage(ET, cfg, draw(st.integers(1, 2)))))
        if mode == "shared" and len(v) > 0:
            reuse = [j for j in placed if M.same_value(lists[j], v) and repr(lists[j]) == repr(v)]
            if reuse and draw(st.booleans()):
                starts[i], stops[i] = starts[reuse[0]], stops[reuse[0]]
                placed.append(i)
                continue
        starts[i] = len(flat)
        flat.extend(v)
        stops[i] = len(flat)
        placed.append(i)
    if mode in ("gaps", "shared"):
        flat.extend(draw(_garbage(ET, cfg, draw(st.integers(0, 2)))))
    for i in range(n):
        if len(lists[i]) == 0 and draw(st.booleans()):
            p = draw(st.integers(0, len(flat)))
            starts[i] = stops[i] = p
    content = draw(encode(ET, flat, cfg))
    return {"class": cls, "starts": starts, "stops": stops, "content": content}


@st.composite
def _encode_option(draw, ET, vals, cfg):
    n = len(vals)
    encs = [e for e in cfg.option_encodings if e != "UnmaskedArray" or all(v is not None for v in vals)]
    if not encs:
        encs = ["IndexedOptionArray64"]     # UnmaskedArray alone cannot hold a missing value
    enc = draw(st.sampled_from(encs))
    if not has_values(ET):
        # option[unknown] / option of a type without values: every entry is None
        w = "32" if enc.endswith("32") else "64"
        if True:
            return {"class": "IndexedOptionArray" + w, "index": [draw(st.sampled_from([-1, -1, -2])) for _ in vals],
                    "content": draw(encode(ET, [], cfg, allow_indexed=False, under_option=True))}
    if enc.startswith("IndexedOptionArray"):
        w = "32" if enc.endswith("32") else "64"
        present = [i for i, v in enumerate(vals) if v is not None]
        order = list(draw(st.permutations(present))) if len(present) > 1 and draw(st.booleans()) else present
        storage = []
        if draw(st.integers(0, 3)) == 0:
            storage.extend(draw(_garbage(ET, cfg, draw(st.integers(1, 2)))))
        slot = {}
        for i in order:
            slot[i] = len(storage)
            storage.append(vals[i])
        if draw(st.integers(0, 3)) == 0:
            storage.extend(draw(_garbage(ET, cfg, 1)))
        index = [slot[i] if v is not None else draw(st.sampled_from([-1, -1, -1, -2, -5])) for i, v in enumerate(vals)]
        return {"class": enc, "index": index, "content": draw(encode(ET, storage, cfg, allow_indexed=False, under_option=True))}
    # masked encodings keep one content slot per entry; missing slots hold garbage
    filler = draw(_garbage(ET, cfg, sum(1 for v in vals if v is None)))
    it = iter(filler)
    storage = [v if v is not None else next(it) for v in vals]
    extra = draw(st.integers(0, 2)) if draw(st.integers(0, 3)) == 0 else 0
    storage = storage + draw(_garbage(ET, cfg, extra))
    content = draw(encode(ET, storage, cfg, allow_indexed=False, under_option=True))
    if enc == "UnmaskedArray":
        content = draw(encode(ET, list(vals), cfg, allow_indexed=False, under_option=True))
        return {"class": "UnmaskedArray", "content": content}
    vw = draw(st.booleans())
    if enc == "ByteMaskedArray":
        mask = []
        for v in vals:
            valid = v is not None
            if valid == vw:
                mask.append(draw(st.sampled_from([1, 1, 1, 2, -1, 127])))
            else:
                mask.append(0)
        return {"class": "ByteMaskedArray", "mask": mask, "valid_when": vw, "content": content}
    lsb = draw(st.booleans())
    nbytes = (n + 7) // 8 + (draw(st.integers(0, 1)) if draw(st.integers(0, 4)) == 0 else 0)
    bits = []
    for i in range(nbytes * 8):
        if i < n:
            bits.append(int((vals[i] is not None) == vw))
        else:
            bits.append(draw(st.integers(0, 1)))     # padding bits are arbitrary
    mask = []
    for b in range(nbytes):
        byte = 0
        for j in range(8):
            if bits[b * 8 + j]:
                byte |= (1 << j) if lsb else (1 << (7 - j))
        mask.append(byte)
    return {"class": "BitMaskedArray", "mask": mask, "valid_when": vw, "length": n, "lsb_order": lsb, "content": content}


# ------------------------------------------------------------------ canonical encoding
def canonical(T, vals):
    """the compact, zero-based, 64-bit, IndexedOptionArray64 encoding of (T, vals) - no random choices"""
    k = T[0]
    n = len(vals)
    if k == "unknown":
        return {"class": "EmptyArray"}
    if k == "prim":
        return {"class": "NumpyArray", "dtype": T[1], "shape": [n], "data": _leafdata(vals, T[1])}
    if k in ("string", "bytes"):
        raw = [v.encode("utf-8", "surrogateescape") if isinstance(v, str) else v for v in vals]
        flat = [c for b in raw for c in b]
        offsets = [0]
        for b in raw:
            offsets.append(offsets[-1] + len(b))
        return {"class": "ListOffsetArray64", "offsets": offsets, "parameters": {"__array__": "string" if k == "string" else "bytestring"},
                "content": {"class": "NumpyArray", "dtype": "uint8", "shape": [len(flat)], "data": flat,
                            "parameters": {"__array__": "char" if k == "string" else "byte"}}}
    if k == "list":
        flat = [x for v in vals for x in v]
        offsets = [0]
        for v in vals:
            offsets.append(offsets[-1] + len(v))
        return {"class": "ListOffsetArray64", "offsets": offsets, "content": canonical(T[1], flat)}
    if k == "regular":
        flat = [x for v in vals for x in v]
        return {"class": "RegularArray", "size": T[2], "zeros_length": n if T[2] == 0 else 0, "content": canonical(T[1], flat)}
    if k == "option":
        storage = [v for v in vals if v is not None]
        index = []
        c = 0
        for v in vals:
            if v is None:
                index.append(-1)
            else:
                index.append(c)
                c += 1
        return {"class": "IndexedOptionArray64", "index": index, "content": canonical(T[1], storage)}
    if k == "record":
        fields, istuple, recname = T[1], T[2], T[3]
        contents = [canonical(ft, [v[i] if istuple else v[nm] for v in vals]) for i, (nm, ft) in enumerate(fields)]
        d = {"class": "RecordArray", "contents": contents, "keys": None if istuple else [nm for nm, _ in fields], "length": n}
        if recname is not None:
            d["parameters"] = {"__record__": recname}
        return d
    if k == "union":
        members = T[1]
        which = [member_of(T, v) for v in vals]
        storages = [[] for _ in members]
        tags, index = [], []
        for v, t in zip(vals, which):
            tags.append(t)
            index.append(len(storages[t]))
            storages[t].append(v)
        return {"class": "UnionArray8_64", "tags": tags, "index": index,
                "contents": [canonical(members[t], storages[t]) for t in range(len(members))]}
    raise AssertionError(T)


@st.composite
def arrays(draw, cfg=DEFAULT, T=None):
    """(type, values, description)"""
    if T is None:
        T = draw(types(cfg))
    vals = draw(values(T, cfg))
    d = draw(encode(T, vals, cfg))
    return T, vals, d


def features(d, acc=None, depth=0):
    """census of physical features in a description"""
    acc = set() if acc is None else acc
    cls = d["class"]
    acc.add(cls)
    if cls.startswith("ListOffsetArray") and d["offsets"] and d["offsets"][0] != 0:
        acc.add("offsets0!=0")
    if cls.startswith("ListOffsetArray") and d["offsets"] and d["offsets"][-1] != M.length_of(d["content"]):
        acc.add("unreachable_suffix")
    if cls.startswith("ListArray"):
        s = list(zip(d["starts"], d["stops"]))
        if any(a > b2 for (a, _), (b2, _) in zip(s[1:], s[:-1])):
            acc.add("listarray_out_of_order")
    if cls == "NumpyArray":
        if d.get("phys"):
            acc.add("numpy_noncontiguous")
        if len(d["shape"]) > 1:
            acc.add("numpy_nd")
    if cls == "RegularArray" and d["size"] == 0:
        acc.add("regular_size0")
    if "32" in cls:
        acc.add("width32")
    for key in ("content",):
        if key in d:
            features(d[key], acc, depth + 1)
    for c in d.get("contents", []):
        features(c, acc, depth + 1)
    if depth == 0:
        acc.add("depth%d" % min(_depth(d), 6))
    return acc


def _depth(d):
    subs = [d["content"]] if "content" in d else d.get("contents", [])
    return 1 + max([_depth(c) for c in subs], default=0)


def noncanonical(d):
    f = features(d)
    return bool(f & {"offsets0!=0", "unreachable_suffix", "listarray_out_of_order", "numpy_noncontiguous", "numpy_nd", "width32",
                     "ByteMaskedArray", "BitMaskedArray", "UnmaskedArray", "IndexedOptionArray32", "IndexedArray32", "IndexedArrayU32",
                     "IndexedArray64", "ListArray32", "ListArrayU32", "ListArray64"})
