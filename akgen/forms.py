"""Hypothesis strategies for C17: JSON values, Form JSON trees from the node grammar, extended model types
(akmodel.typestr), parameter decoration of generated layouts, and corruptions of Form JSON text.

Construction, not rejection: no assume()/filter().
"""
import json

from hypothesis import strategies as st

from akmodel import core as M

PRIMITIVES = ["bool", "int8", "int16", "int32", "int64", "uint8", "uint16", "uint32", "uint64", "float16", "float32", "float64",
              "float128", "complex64", "complex128", "complex256", "datetime64", "timedelta64"]
# the primitives the type grammar (type-grammar.lark, TYPE) names
GRAMMAR_PRIMITIVES = ["int8", "int16", "int32", "int64", "uint8", "uint16", "uint32", "uint64", "float32", "float64", "bool"]

_chars = list("abXY z09_-") + ['"', "\\", "/", "\n", "\t", "\r", "\b", "\x1f", "\x7f", "é", "Ω", "€", "\U0001f600", "'", ":", ",", "[", "{"]
text = st.text(alphabet=st.sampled_from(_chars), max_size=6)
plain_text = st.text(alphabet=st.sampled_from(list("abcxyzXYZ019_ ")), min_size=1, max_size=5)
some_text = st.one_of(plain_text, plain_text, text)
# string values (and keys of nested objects) may also hold U+0000, written \u0000 in JSON; names of parameters themselves do not
nul_text = st.text(alphabet=st.sampled_from(["\x00", "a", "b", "\n", "\u00e9"]), min_size=1, max_size=4)
value_text = st.one_of(plain_text, plain_text, text, text, nul_text)

_ints = st.one_of(
    st.integers(-9, 9),
    st.integers(-9, 9),
    st.sampled_from([2 ** 31 - 1, -2 ** 31, 2 ** 31, -2 ** 31 - 1, 3000000000, 2 ** 32, 1099511627776, 2 ** 53, 2 ** 53 + 1, -2 ** 53 - 1,
                     2 ** 63 - 1, -2 ** 63, 2 ** 63, 2 ** 64 - 1]),
    st.integers(-2 ** 63, 2 ** 64 - 1),
)
_floats = st.one_of(
    st.integers(-40, 40).map(lambda k: k / 4.0),
    st.sampled_from([1.5, -0.5, 0.1, 3.14, 1e300, -1e300, 1e-5, 5e-324, 1.7976931348623157e308, 123456789.125, 1e22, 1e21, 0.30000000000000004, -0.0,
                     2.0 ** 53, 4294967296.5]),
    st.floats(allow_nan=False, allow_infinity=False),
)
json_scalars = st.one_of(st.none(), st.booleans(), _ints, _ints, _floats, _floats, value_text, value_text)
wild_json = st.recursive(json_scalars,
                           lambda inner: st.one_of(st.lists(inner, max_size=3),
                                                   st.dictionaries(value_text, inner, max_size=3)),
                           max_leaves=5)
# values without doubles and without integers beyond int32 (the region Form.tojson is known to mishandle), so that most
# cases exercise everything else
_safe_scalars = st.one_of(st.none(), st.booleans(), st.integers(-9, 9), st.sampled_from([2 ** 31 - 1, -2 ** 31, 65536]), some_text, some_text)
safe_json = st.recursive(_safe_scalars,
                         lambda inner: st.one_of(st.lists(inner, max_size=3), st.dictionaries(some_text, inner, max_size=3)),
                         max_leaves=5)
json_values = st.one_of(safe_json, safe_json, wild_json)
# values the type-string grammar can carry without its known string/number limitations
simple_json = st.recursive(st.one_of(st.none(), st.booleans(), st.integers(-99, 99), st.sampled_from([1.5, -0.25, 3.14, 100.0]), plain_text),
                           lambda inner: st.one_of(st.lists(inner, max_size=3), st.dictionaries(plain_text, inner, max_size=2)),
                           max_leaves=4)


def json_kind_tags(v, acc=None):
    """census of what a JSON value contains"""
    acc = set() if acc is None else acc
    if v is None:
        acc.add("null")
    elif isinstance(v, bool):
        acc.add("bool")
    elif isinstance(v, int):
        if -2 ** 31 <= v < 2 ** 31:
            acc.add("int32")
        elif -2 ** 53 <= v <= 2 ** 53:
            acc.add("int>2^31")
        else:
            acc.add("int>2^53")
    elif isinstance(v, float):
        acc.add("float_integral" if v == int(v) and abs(v) < 2 ** 63 else "float_fractional")
    elif isinstance(v, str):
        if "\x00" in v:
            acc.add("str_nul")
        acc.add("str_plain" if all(c.isascii() and (c.isalnum() or c in " _") for c in v) else ("str_nonascii" if any(ord(c) > 127 for c in v) else "str_escapes"))
    elif isinstance(v, list):
        acc.add("array")
        for x in v:
            json_kind_tags(x, acc)
    elif isinstance(v, dict):
        acc.add("object")
        for x in v.values():
            json_kind_tags(x, acc)
    return acc


# ------------------------------------------------------------------ parameters
@st.composite
def parameters(draw, values=json_values, keys=some_text, special=()):
    mode = draw(st.integers(0, 9))
    if mode < 4:
        return None
    if mode == 4:
        return {}
    n = draw(st.sampled_from([1, 1, 1, 2, 3]))
    out = {}
    for _ in range(n):
        out[draw(keys)] = draw(values)
    for k, vals in special:
        if draw(st.integers(0, 3)) == 0:
            out[k] = draw(st.sampled_from(vals))
    return out


# ------------------------------------------------------------------ Form JSON
_FORMATS = {   # primitive -> [canonical format on this platform, alternatives accepted by format_to_dtype]
    "bool": ["?"], "int8": ["b"], "int16": ["h"], "int32": ["i", "l", "<i", "=i"], "int64": ["l", "q", "<q", "=l"],
    "uint8": ["B", "c"], "uint16": ["H"], "uint32": ["I", "L"], "uint64": ["L", "Q", "<Q"],
    "float16": ["e"], "float32": ["f", "<f"], "float64": ["d", "<d", "=d"], "float128": ["g"],
    "complex64": ["Zf"], "complex128": ["Zd", "=Zd"], "complex256": ["Zg"], "datetime64": ["M"], "timedelta64": ["m"],
}
ITEMSIZE = {"bool": 1, "int8": 1, "int16": 2, "int32": 4, "int64": 8, "uint8": 1, "uint16": 2, "uint32": 4, "uint64": 8,
            "float16": 2, "float32": 4, "float64": 8, "float128": 16, "complex64": 8, "complex128": 16, "complex256": 32,
            "datetime64": 8, "timedelta64": 8}
CANONICAL_FORMAT = {k: v[0] for k, v in _FORMATS.items()}

_FORM_PARAM_SPECIAL = (("__array__", ["string", "bytestring", "char", "byte", "categorical", "sorted_map"]),
                       ("__record__", ["Point", "Vec", "P_1", "var", "a b"]))


@st.composite
def _common(draw, node):
    """has_identities / parameters / form_key in the variants the reader accepts; then a drawn key order"""
    hi = draw(st.sampled_from(["absent", "absent", "false", "true", "legacy_true", "legacy_false"]))
    if hi == "false":
        node["has_identities"] = False
    elif hi == "true":
        node["has_identities"] = True
    elif hi == "legacy_true":
        node["has_identifier"] = True
    elif hi == "legacy_false":
        node["has_identifier"] = False
    p = draw(parameters(special=_FORM_PARAM_SPECIAL))
    if p is not None:
        node["parameters"] = p
    fk = draw(st.sampled_from(["absent", "absent", "null", "str", "str"]))
    if fk == "null":
        node["form_key"] = None
    elif fk == "str":
        node["form_key"] = draw(st.one_of(st.sampled_from(["node0", "part0-node1-offsets", ""]), some_text))
    keys = list(node)
    if draw(st.booleans()):
        keys = draw(st.permutations(keys))
    return {k: node[k] for k in keys}


@st.composite
def numpy_form(draw, datetime_units=True):
    prim = draw(st.sampled_from(PRIMITIVES + ["float64", "int64", "uint8", "bool"]))
    style = draw(st.sampled_from(["short", "short", "primitive", "primitive", "primitive", "format", "both", "both"]))
    if style == "short":
        return prim
    node = {"class": "NumpyArray"}
    fmt = _FORMATS[prim][0] if draw(st.integers(0, 2)) > 0 else draw(st.sampled_from(_FORMATS[prim]))
    if prim in ("datetime64", "timedelta64") and datetime_units and draw(st.integers(0, 2)) == 0:
        fmt = fmt + draw(st.sampled_from(["8[us]", "8[ns]", "8[5s]", "8[D]"]))
    if style in ("primitive", "both"):
        node["primitive"] = prim
    if style in ("format", "both"):
        node["format"] = fmt
        node["itemsize"] = ITEMSIZE[prim]
    if draw(st.integers(0, 2)) == 0:
        node["inner_shape"] = draw(st.lists(st.sampled_from([0, 1, 2, 3, 5, 2 ** 31 - 1]), max_size=3))
    return draw(_common(node))


def _width_class(draw, base, widths):
    """(class name, index name or None): specific class without/with the (consistent) index field, or the generic class with it"""
    w = draw(st.sampled_from(widths))
    idx = {"32": "i32", "U32": "u32", "64": "i64"}[w]
    style = draw(st.sampled_from(["specific", "specific", "specific+index", "generic"]))
    if style == "specific":
        return base + w, None, idx
    if style == "specific+index":
        return base + w, idx, idx
    return base, idx, idx


@st.composite
def forms(draw, depth=3, virtual=True):
    kinds = ["numpy", "numpy", "numpy", "empty"]
    if depth > 0:
        kinds += ["regular", "list", "listoffset", "listoffset", "indexed", "indexedoption", "bytemasked", "bitmasked", "unmasked",
                  "record", "record", "union"]
        if virtual:
            kinds.append("virtual")
    k = draw(st.sampled_from(kinds))
    sub = forms(depth - 1, virtual)
    if k == "numpy":
        return draw(numpy_form())
    if k == "empty":
        return draw(_common({"class": "EmptyArray"}))
    if k == "regular":
        return draw(_common({"class": "RegularArray", "content": draw(sub), "size": draw(st.sampled_from([0, 1, 2, 3, 10, 2 ** 31 - 1]))}))
    if k == "list":
        cls, idx, _ = _width_class(draw, "ListArray", ["32", "U32", "64"])
        node = {"class": cls}
        if idx is not None:
            node["starts"] = idx
            node["stops"] = idx
        node["content"] = draw(sub)
        return draw(_common(node))
    if k == "listoffset":
        cls, idx, _ = _width_class(draw, "ListOffsetArray", ["32", "U32", "64"])
        node = {"class": cls}
        if idx is not None:
            node["offsets"] = idx
        node["content"] = draw(sub)
        return draw(_common(node))
    if k == "indexed":
        cls, idx, _ = _width_class(draw, "IndexedArray", ["32", "U32", "64"])
        node = {"class": cls}
        if idx is not None:
            node["index"] = idx
        node["content"] = draw(sub)
        return draw(_common(node))
    if k == "indexedoption":
        cls, idx, _ = _width_class(draw, "IndexedOptionArray", ["32", "64"])
        node = {"class": cls}
        if idx is not None:
            node["index"] = idx
        node["content"] = draw(sub)
        return draw(_common(node))
    if k == "bytemasked":
        return draw(_common({"class": "ByteMaskedArray", "mask": "i8", "content": draw(sub), "valid_when": draw(st.booleans())}))
    if k == "bitmasked":
        return draw(_common({"class": "BitMaskedArray", "mask": "u8", "content": draw(sub), "valid_when": draw(st.booleans()),
                             "lsb_order": draw(st.booleans())}))
    if k == "unmasked":
        return draw(_common({"class": "UnmaskedArray", "content": draw(sub)}))
    if k == "record":
        n = draw(st.sampled_from([0, 1, 2, 2, 3]))
        if draw(st.booleans()):
            contents = [draw(sub) for _ in range(n)]
        else:
            names = draw(st.lists(st.one_of(st.sampled_from(["x", "y", "z", "0", "1", "10"]), some_text), min_size=n, max_size=n, unique=True))
            contents = {nm: draw(sub) for nm in names}
        return draw(_common({"class": "RecordArray", "contents": contents}))
    if k == "union":
        cls, idx, idxname = _width_class(draw, "UnionArray8_", ["32", "U32", "64"])
        if cls == "UnionArray8_":
            cls = "UnionArray"
        node = {"class": cls}
        if idx is not None or draw(st.booleans()):
            node["tags"] = "i8"
        if idx is not None:
            node["index"] = idx
        if cls == "UnionArray":
            node["tags"] = "i8"
        node["contents"] = [draw(sub) for _ in range(draw(st.sampled_from([0, 1, 2, 2, 3])))]
        return draw(_common(node))
    if k == "virtual":
        inner = None if draw(st.integers(0, 2)) == 0 else draw(sub)
        return draw(_common({"class": "VirtualArray", "form": inner, "has_length": draw(st.booleans())}))
    raise AssertionError(k)


def form_classes(j, acc=None):
    """census: form classes (as written) in a Form JSON tree"""
    acc = set() if acc is None else acc
    if isinstance(j, str):
        acc.add("form:short:" + j)
        return acc
    if not isinstance(j, dict):
        return acc
    acc.add("form:" + str(j.get("class")))
    for key in ("content", "form"):
        if key in j and j[key] is not None:
            form_classes(j[key], acc)
    cs = j.get("contents")
    if isinstance(cs, list):
        for c in cs:
            form_classes(c, acc)
        acc.add("form:record_tuple" if j.get("class") == "RecordArray" else "form:union_contents")
    elif isinstance(cs, dict):
        for c in cs.values():
            form_classes(c, acc)
        acc.add("form:record_dict")
    return acc


# ------------------------------------------------------------------ corruptions of Form JSON
@st.composite
def corrupt(draw, j):
    """a text derived from a valid Form JSON by one drawn damage; (text, how)"""
    how = draw(st.sampled_from(["truncate", "dropkey", "wrongtype", "badclass", "badindex", "flipchar", "wrap", "extra"]))
    txt = json.dumps(j)
    if how == "truncate":
        cut = draw(st.integers(0, max(0, len(txt) - 1)))
        return txt[:cut], how
    if how == "flipchar":
        if not txt:
            return txt, how
        i = draw(st.integers(0, len(txt) - 1))
        c = draw(st.sampled_from(list('{}[]",:x0 \\') + ["\x00", "\x01", "é"]))
        return txt[:i] + c + txt[i + 1:], how
    if how == "wrap":
        return draw(st.sampled_from(["[%s]", "{\"class\": %s}", "%s %s", "%s,", "null", "12", "\"notaprimitive\"", "{\"class\": 5}", "{}"])).replace("%s", txt), how
    nodes = []
    _collect(j, nodes)
    if not nodes:
        return json.dumps({"class": "NoSuchArray"}), "badclass"
    node = nodes[draw(st.integers(0, len(nodes) - 1))]
    if how == "dropkey":
        keys = [k for k in node if k != "parameters"]
        k = draw(st.sampled_from(keys))
        del node[k]
    elif how == "wrongtype":
        k = draw(st.sampled_from(list(node)))
        node[k] = draw(st.sampled_from([None, 5, "zzz", [], {}, True, 1.5, -1, 2 ** 40, [1, "a"], {"class": "EmptyArray"}]))
    elif how == "badclass":
        node["class"] = draw(st.sampled_from(["NoSuchArray", "ListArray", "ListOffsetArray", "UnionArray", "IndexedArray", "IndexedOptionArray",
                                              "ListOffsetArray8", "IndexedOptionArrayU32", "numpyarray", "", "RawArray", "Record"]))
    elif how == "badindex":
        for k in ("offsets", "starts", "stops", "index", "mask", "tags"):
            if k in node or draw(st.integers(0, 3)) == 0:
                node[k] = draw(st.sampled_from(["i8", "u8", "i32", "u32", "i64", "i16", "", "i", "u", "i6", "int64", "I64"]))
    elif how == "extra":
        node[draw(st.sampled_from(["junk", "size", "content", "contents", "primitive", "format", "itemsize", "inner_shape", "has_length"]))] = \
            draw(st.sampled_from([None, 0, "int8", [], {}, [1.5], ["x"], -3, 2 ** 33]))
    return json.dumps(j), how


def _collect(j, out):
    if isinstance(j, dict) and "class" in j:
        out.append(j)
        for key in ("content", "form"):
            if isinstance(j.get(key), (dict, str)):
                _collect(j[key], out)
        cs = j.get("contents")
        if isinstance(cs, list):
            for c in cs:
                _collect(c, out)
        elif isinstance(cs, dict):
            for c in cs.values():
                _collect(c, out)


# ------------------------------------------------------------------ extended model types (akmodel.typestr)
@st.composite
def _type_params(draw, profile):
    """parameters of one type node; profile 'plain' keeps to what the type grammar is known to carry"""
    mode = draw(st.integers(0, 9))
    if mode < 5:
        return {}
    values = simple_json if profile == "plain" else json_values
    keys = plain_text if profile == "plain" else some_text
    out = {}
    for _ in range(draw(st.sampled_from([1, 1, 2]))):
        out[draw(keys)] = draw(values)
    return out


def _with(T, params, categorical):
    if categorical:
        params = dict(params)
        params["__categorical__"] = True
    return T + [{"parameters": params}] if params else T


@st.composite
def xtypes(draw, depth=3, profile="plain", top=True):
    """extended model type. profile: 'plain' (inside what the parser is expected to handle) or 'wild' (everything printable)"""
    kinds = ["prim", "prim", "prim", "string", "bytes", "char", "unknown"]
    if depth > 0:
        kinds += ["list", "list", "regular", "option", "option", "record", "record", "union"]
    k = draw(st.sampled_from(kinds))
    cat = draw(st.integers(0, 11)) == 0
    params = draw(_type_params(profile))
    sub = xtypes(depth - 1, profile, False)
    if k == "prim":
        dts = GRAMMAR_PRIMITIVES if profile == "plain" else PRIMITIVES
        return _with(["prim", draw(st.sampled_from(dts))], params, cat)
    if k == "unknown":
        return _with(["unknown"], params, cat)
    if k in ("string", "bytes"):
        return _with([k], {}, cat)
    if k == "char":
        which = draw(st.sampled_from(["char", "byte"]))
        p = {"__array__": which}
        if cat:
            p["__categorical__"] = True
        return ["prim", "uint8", {"parameters": p, "typestr": which}]
    if k == "list":
        return _with(["list", draw(sub)], params, cat)
    if k == "regular":
        return _with(["regular", draw(sub), draw(st.sampled_from([0, 1, 2, 3, 10]))], params, cat)
    if k == "option":
        return _with(["option", draw(sub)], params, cat)
    if k == "record":
        istuple = draw(st.booleans())
        lo = 1 if profile == "plain" else 0
        n = draw(st.sampled_from([lo, 1, 2, 2, 3]))
        if istuple:
            names = [str(i) for i in range(n)]
        else:
            keys = st.sampled_from(["x", "y", "z", "w", "0", "a b"]) if profile == "plain" else st.one_of(st.sampled_from(["x", "y", "z", "1"]), some_text)
            names = draw(st.lists(keys, min_size=n, max_size=n, unique=True))
        fields = [[nm, draw(sub)] for nm in names]
        if profile == "plain":
            recname = draw(st.sampled_from([None, None, "Point", "Vec"])) if not istuple else None
        else:
            recname = draw(st.sampled_from([None, None, "Point", "Vec", "P_1", "var", "a b", "x2", "union", "é"]))
        return _with(["record", fields, istuple, recname], params, cat)
    if k == "union":
        n = draw(st.integers(2, 3)) if profile == "plain" else draw(st.sampled_from([1, 2, 2, 3]))
        return _with(["union", [draw(sub) for _ in range(n)]], params, cat)
    raise AssertionError(k)


def type_classes(T, acc=None):
    acc = set() if acc is None else acc
    from akmodel import typestr as TS
    acc.add("type:" + T[0])
    p = TS.parameters(T)
    if p.get("__categorical__") is True:
        acc.add("type:categorical")
    if T[0] == "record":
        acc.add("type:record_tuple" if T[2] else "type:record_dict")
        if T[3] is not None:
            acc.add("type:record_named")
        for _, t in T[1]:
            type_classes(t, acc)
    elif T[0] == "union":
        for t in T[1]:
            type_classes(t, acc)
    elif T[0] in ("list", "regular", "option"):
        type_classes(T[1], acc)
    if TS.meta(T).get("parameters") and any(key not in ("__categorical__", "__array__") for key in TS.meta(T)["parameters"]):
        acc.add("type:with_parameters")
    return acc


# ------------------------------------------------------------------ decoration of generated layouts with parameters
def _distinct(vals):
    return all(not M.same_value(a, b) for i, a in enumerate(vals) for b in vals[i + 1:])


@st.composite
def decorate(draw, d, values=simple_json, under_option=False):
    """the same layout with parameters added at drawn nodes (validity preserved: string nodes keep their __array__, a
    categorical marker is only put on an Indexed(Option)Array whose content holds distinct, non-missing plain values)"""
    d = dict(d)
    cls = d["class"]
    params = dict(d.get("parameters") or {})
    if "content" in d:
        d["content"] = draw(decorate(d["content"], values, cls.startswith(("IndexedOption", "ByteMasked", "BitMasked", "Unmasked"))))
    if "contents" in d:
        d["contents"] = [draw(decorate(c, values)) for c in d["contents"]]
    roll = draw(st.integers(0, 9))
    if cls.startswith("Indexed"):
        if roll < 3 and params == {}:
            try:
                ct, cv = M.decode(d["content"])
                ok = ct[0] in ("prim", "string", "bytes") and _distinct(cv)
            except M.Invalid:
                ok = False
            if ok:
                params["__array__"] = "categorical"
        elif roll == 9 and cls.startswith("IndexedOption"):
            params[draw(plain_text)] = draw(values)
    elif roll < 3:
        if params.get("__array__") in ("char", "byte"):
            pass
        else:
            params[draw(plain_text)] = draw(values)
            if roll == 0:
                params[draw(plain_text)] = draw(values)
    if params:
        d["parameters"] = params
    return d
