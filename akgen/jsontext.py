"""Hypothesis strategies for JSON *values*, JSON *texts* of a value, concatenated documents and faults (property C15).

Construction only (no assume/filter). Everything returned is JSON-serialisable so that it can be stored in a case:
texts are carried as `pack(bytes)` = a str when the bytes are plain UTF-8 (no NUL needed to be special-cased: a str may hold
it) and {"hex": "..."} otherwise; `unpack` gives the bytes back.
"""
import json
import re

from hypothesis import strategies as st

INT64_MIN, INT64_MAX = -2 ** 63, 2 ** 63 - 1
UINT64_MAX = 2 ** 64 - 1


# ------------------------------------------------------------------ bytes <-> case
def pack(b):
    try:
        s = b.decode("utf-8")
    except UnicodeDecodeError:
        return {"hex": b.hex()}
    return s


def unpack(t):
    if isinstance(t, dict):
        return bytes.fromhex(t["hex"])
    return t.encode("utf-8")


# ------------------------------------------------------------------ (a) values
_CHARS = list("abXY 09_-") + ['"', "\\", "/", "\n", "\t", "\r", "\b", "\f", "\x01", "\x1f", "\x7f", "é", "Ω", "ß", "€", "中", "\u2028",
                              "\ufeff", "\uffff", "\U0001f600", "\U00010000", "\U0010ffff", "{", "]", ",", ":", "'"]
_plain_text = st.text(alphabet=st.sampled_from(list("abcxyz")), max_size=4)
_rich_text = st.text(alphabet=st.sampled_from(_CHARS), max_size=6)
_nul_text = st.text(alphabet=st.sampled_from(["a", "\x00", "b"]), min_size=1, max_size=3)   # U+0000 is legal inside a JSON string (escaped)


def strings(nul=True):
    alts = [_plain_text, _rich_text, _rich_text, st.text(max_size=5).map(_no_surrogates)]
    if nul:
        alts.append(_nul_text)
    return st.one_of(*alts)


def _no_surrogates(s):
    return "".join(c for c in s if not 0xD800 <= ord(c) <= 0xDFFF)


_INT_EDGES = [0, -1, 2 ** 31 - 1, 2 ** 31, -2 ** 31, -2 ** 31 - 1, 2 ** 32 - 1, 2 ** 32, 2 ** 53, 2 ** 53 + 1, -2 ** 53 - 1,
              INT64_MAX, INT64_MAX - 1, INT64_MIN, INT64_MIN + 1, 10 ** 18, -10 ** 18, 999999999999999999]
_FLOAT_EDGES = [0.0, -0.0, 0.5, -2.75, 0.1, 1e-7, 123456.789, 1e15, 1e21, 1e22, 1e308, 1.7976931348623157e308, -1.7976931348623157e308,
                5e-324, 2.2250738585072014e-308, 2.225073858507201e-308, 9.007199254740993e15, 1.0, -1.0, 3.0e10, 0.30000000000000004,
                9223372036854775808.0, 1.8446744073709552e19]


def ints(beyond=False):
    """integers a 64-bit signed field can hold; beyond=True adds the uint64-only range and integers only a double can take"""
    alts = [st.integers(-9, 9), st.integers(-9, 9), st.sampled_from(_INT_EDGES), st.integers(INT64_MIN, INT64_MAX)]
    if beyond:
        alts.append(st.sampled_from([2 ** 63, 2 ** 63 + 1, UINT64_MAX, UINT64_MAX - 1, 2 ** 64, 2 ** 64 + 1, -2 ** 63 - 1, 10 ** 30, -10 ** 25,
                                     12345678901234567890123]))
    return st.one_of(*alts)


def floats():
    return st.one_of(st.integers(-40, 40).map(lambda k: k / 4.0), st.sampled_from(_FLOAT_EDGES),
                     st.floats(allow_nan=False, allow_infinity=False), st.floats(allow_nan=False, allow_infinity=False, width=32))


_KEYS = ["x", "y", "z", "w", "", "a b", "ключ", 'q"t', "k\\", "n\nl", "0", "1", "\U0001f600", "class", "x\u00e9"]


def keys(nul=False):
    alts = [st.sampled_from(_KEYS[:4]), st.sampled_from(_KEYS[:4]), st.sampled_from(_KEYS), _rich_text]
    if nul:
        alts.append(st.sampled_from(["a\x00b", "\x00", "x\x00"]))
    return st.one_of(*alts)


class VCfg(object):
    def __init__(self, beyond_ints=False, nul_values=True, nul_keys=False, max_leaves=14, special_strings=()):
        self.beyond_ints, self.nul_values, self.nul_keys, self.max_leaves = beyond_ints, nul_values, nul_keys, max_leaves
        self.special_strings = tuple(special_strings)


def leaves(cfg):
    alts = [st.none(), st.booleans(), ints(cfg.beyond_ints), ints(cfg.beyond_ints), floats(), floats(), strings(cfg.nul_values), strings(cfg.nul_values)]
    if cfg.special_strings:
        sp = st.sampled_from(list(cfg.special_strings))
        alts.append(sp)
        alts.append(sp)
        if cfg.nul_values:
            alts.append(st.tuples(sp, _plain_text).map(lambda p: p[0] + "\x00" + p[1]))
    return st.one_of(*alts)


@st.composite
def _records(draw, children, cfg):
    """a list of objects over a common key set, each object dropping / reordering / adding keys now and then"""
    ks = draw(st.lists(keys(cfg.nul_keys), min_size=0, max_size=3, unique=True))
    n = draw(st.integers(0, 4))
    out = []
    for _ in range(n):
        mode = draw(st.integers(0, 5))
        use = list(ks)
        if mode == 0 and use:
            use = use[:-1]
        elif mode == 1:
            use = list(reversed(use))
        elif mode == 2:
            extra = draw(keys(cfg.nul_keys))
            if extra not in use:
                use.append(extra)
        out.append({k: draw(children) for k in use})
    return out


def _homogeneous(cfg):
    return st.one_of(st.lists(ints(cfg.beyond_ints), max_size=5), st.lists(floats(), max_size=5),
                     st.lists(st.one_of(ints(), floats()), max_size=5), st.lists(strings(cfg.nul_values), max_size=4),
                     st.lists(st.one_of(st.none(), ints()), max_size=5), st.lists(st.booleans(), max_size=4))


def json_values(cfg=None):
    """any JSON value: scalars, homogeneous and heterogeneous arrays, objects with differing key sets, nesting"""
    cfg = cfg or VCfg()
    base = st.one_of(leaves(cfg), leaves(cfg), _homogeneous(cfg))

    def extend(children):
        return st.one_of(st.lists(children, max_size=4), st.lists(children, max_size=4),
                         st.dictionaries(keys(cfg.nul_keys), children, max_size=3), _records(children, cfg))
    return st.recursive(base, extend, max_leaves=cfg.max_leaves)


def deep_values(cfg=None):
    """a value wrapped in many array / object levels (depth 10..300)"""
    cfg = cfg or VCfg()

    @st.composite
    def build(draw):
        v = draw(leaves(cfg))
        n = draw(st.sampled_from([10, 30, 64, 100, 300]))
        pattern = draw(st.sampled_from(["list", "mixed", "object"]))
        for i in range(n):
            if pattern == "list" or (pattern == "mixed" and i % 3):
                v = [v]
            else:
                v = {"x": v}
        return v
    return build()


# ------------------------------------------------------------------ (b) texts of a value
_TOKEN = re.compile(r'"(?:[^"\\]|\\.)*"|-?[0-9]+(?:\.[0-9]+)?(?:[eE][+-]?[0-9]+)?|true|false|null|[\[\]{},:]|[ \t\r\n]+')
_WS = ["", " ", "  ", "\n", "\t", "\r\n", " \n\t\r ", "\n    "]
_SHORT = {'"': '\\"', "\\": "\\\\", "/": "\\/", "\b": "\\b", "\f": "\\f", "\n": "\\n", "\r": "\\r", "\t": "\\t"}


def tokens(text):
    out = _TOKEN.findall(text)
    if "".join(out) != text:
        raise AssertionError("tokeniser lost characters of a text that json.dumps produced")
    return out


def _u(cp, upper):
    return ("\\u%04X" if upper else "\\u%04x") % cp


def escape_char(c, mode, upper=False):
    """one character of a JSON string in a chosen spelling; falls back to a legal spelling when the choice is not"""
    cp = ord(c)
    if mode == "short" and c in _SHORT:
        return _SHORT[c]
    if mode == "u" or cp < 0x20 or c in '"\\':
        if cp > 0xFFFF:
            v = cp - 0x10000
            return _u(0xD800 + (v >> 10), upper) + _u(0xDC00 + (v & 0x3FF), upper)
        return _u(cp, upper)
    return c


def respell_string(token, picks):
    """token = a JSON string literal; picks = list of (position, mode, upper) over its *decoded* characters"""
    s = json.loads(token)
    modes = {}
    for pos, mode, upper in picks:
        if s:
            modes[pos % len(s)] = (mode, upper)
    out = ['"']
    for i, c in enumerate(s):
        mode, upper = modes.get(i, ("keep", False))
        if mode == "keep":
            out.append(escape_char(c, "short" if c in _SHORT and c != "/" else "raw"))
        else:
            out.append(escape_char(c, mode, upper))
    out.append('"')
    return "".join(out)


def respell_number(token, how):
    """another spelling of the same number (same integer / same decimal value, so the same double)"""
    if how == "keep":
        return token
    m = re.match(r"^(-?)([0-9]+)(?:\.([0-9]+))?(?:[eE]([+-]?[0-9]+))?$", token)
    sign, ip, fp, ex = m.group(1), m.group(2), m.group(3), m.group(4)
    isint = fp is None and ex is None
    if isint:
        return token                       # integers have one spelling (leading zeros and "+" are not JSON)
    fp = fp or ""
    ex = int(ex) if ex is not None else 0
    if how == "E":
        return "%s%s%s%sE%s%d" % (sign, ip, "." if fp else "", fp, "+" if ex >= 0 else "-", abs(ex))
    if how == "zeros":
        return "%s%s.%s00%s" % (sign, ip, fp or "0", ("e%d" % ex) if ex else "")
    if how == "shift":                    # move the decimal point one place left, exponent + 1
        digits = ip + fp
        newip, newfp = ip[:-1] or "0", ip[-1] + fp
        return "%s%s.%se%d" % (sign, newip, newfp, ex + 1) if digits else token
    if how == "scale":                    # d.ddd -> ddddE-k
        return "%s%se%d" % (sign, (ip + fp).lstrip("0") or "0", ex - len(fp))
    return token


_DUMPS = [dict(ensure_ascii=True), dict(ensure_ascii=False), dict(ensure_ascii=True, indent=0), dict(ensure_ascii=False, indent=1),
          dict(ensure_ascii=True, indent=4), dict(ensure_ascii=False, indent="\t"), dict(ensure_ascii=True, separators=(",", ":")),
          dict(ensure_ascii=False, separators=(",", ":")), dict(ensure_ascii=False, separators=(" ,  ", "\t:\n")),
          dict(ensure_ascii=True, indent=2, separators=(",", ": "))]


@st.composite
def texts_of(draw, value):
    """one JSON text (str) whose value is `value`"""
    text = json.dumps(value, **draw(st.sampled_from(_DUMPS)))
    nedits = draw(st.sampled_from([0, 0, 1, 2, 4, 8]))
    if nedits == 0:
        return text
    toks = tokens(text)
    for _ in range(nedits):
        i = draw(st.integers(0, len(toks) - 1))
        t = toks[i]
        if t == "":
            toks[i] = draw(st.sampled_from(_WS))
        elif t[0] == '"':
            picks = draw(st.lists(st.tuples(st.integers(0, 40), st.sampled_from(["u", "u", "short", "raw"]), st.booleans()), min_size=1, max_size=4))
            toks[i] = respell_string(t, picks)
        elif t[0] in "-0123456789":
            toks[i] = respell_number(t, draw(st.sampled_from(["E", "zeros", "shift", "scale"])))
        elif t[0] in " \t\r\n":
            toks[i] = draw(st.sampled_from(_WS))
        else:
            ws = draw(st.sampled_from(_WS[1:]))
            toks[i] = (ws + t) if draw(st.booleans()) else (t + ws)
    lead = draw(st.sampled_from(_WS)) if draw(st.integers(0, 3)) == 0 else ""
    trail = draw(st.sampled_from(_WS)) if draw(st.integers(0, 3)) == 0 else ""
    return lead + "".join(toks) + trail


# ------------------------------------------------------------------ (c) concatenated documents
_SEPS = ["", "", " ", "\n", "\n", "\r\n", " \t ", "\n\n"]


@st.composite
def concatenated(draw, cfg=None, kmax=5):
    """(list of values, text): k documents with optional white space between; an empty separator may fuse two
    scalars into one token - the oracle therefore classifies the final text, never the recipe"""
    k = draw(st.sampled_from([0, 1, 2, 2, 3, 3, kmax]))
    small = VCfg(**dict((cfg or VCfg()).__dict__, max_leaves=6))
    vals = [draw(json_values(small)) for _ in range(k)]
    parts = []
    for v in vals:
        parts.append(draw(texts_of(v)))
        parts.append(draw(st.sampled_from(_SEPS)))
    if parts and draw(st.booleans()):
        parts.pop()
    return vals, "".join(parts)


# ------------------------------------------------------------------ (d) faults
_CORRUPT_BYTES = list(b'"\\{}[],:0123456789eE.+- \n\ttfnu/a') + [0x00, 0x01, 0x1f, 0x7f, 0x80, 0xbf, 0xc3, 0xe2, 0xf0, 0xff, 0xed]


@st.composite
def truncations(draw, text_bytes, nmax=8):
    """cut points 0 <= i < len: the prefix text[:i] is what the parser sees"""
    n = len(text_bytes)
    if n == 0:
        return []
    return sorted(set(draw(st.lists(st.integers(0, n - 1), min_size=1, max_size=nmax))))


@st.composite
def corruptions(draw, text_bytes, nmax=8):
    """[(position, new byte)]: each applied alone to the valid text"""
    n = len(text_bytes)
    if n == 0:
        return []
    out = draw(st.lists(st.tuples(st.integers(0, n - 1), st.one_of(st.sampled_from(_CORRUPT_BYTES), st.sampled_from(_CORRUPT_BYTES), st.integers(0, 255))),
                        min_size=1, max_size=nmax))
    return [[p, b] for p, b in out]


def apply_corruption(text_bytes, pos, byte, how="replace"):
    if how == "delete":
        return text_bytes[:pos] + text_bytes[pos + 1:]
    if how == "insert":
        return text_bytes[:pos] + bytes([byte]) + text_bytes[pos:]
    return text_bytes[:pos] + bytes([byte]) + text_bytes[pos + 1:]
