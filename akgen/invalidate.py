"""Break exactly one documented validity rule at a random node of a valid description (C11 direction 2),
or perturb one stored integer arbitrarily (validity may go either way: C11 'both at once')."""
import copy

from hypothesis import strategies as st

from akmodel import core as M


def nodes(d, path=()):
    out = [(path, d)]
    if "content" in d:
        out += nodes(d["content"], path + ("content",))
    for i, c in enumerate(d.get("contents", [])):
        out += nodes(c, path + ("contents", i))
    return out


def at(d, path):
    for p in path:
        d = d[p]
    return d


def breakers(n, parent):
    """names of the rules that can be broken at node n"""
    cls = n["class"]
    out = []
    if cls.startswith("ListOffsetArray"):
        off = n["offsets"]
        if len(off) >= 2:
            out += ["offsets_decreasing", "offsets_beyond_content"]
            if off[0] == 0 and not cls.endswith("U32"):
                out.append("offsets_negative")
    elif cls.startswith("ListArray"):
        if len(n["starts"]) >= 1:
            out += ["stop_beyond_content", "start_gt_stop"]
            if not cls.endswith("U32"):
                out.append("start_negative")
    elif cls.startswith("IndexedOptionArray"):
        if len(n["index"]) >= 1:
            out.append("index_beyond_content")
        out.append("option_in_option")
    elif cls.startswith("IndexedArray"):
        if len(n["index"]) >= 1:
            out.append("index_beyond_content")
            if not cls.endswith("U32"):
                out.append("index_negative")
        out.append("option_in_option")
    elif cls == "ByteMaskedArray":
        out += ["mask_longer_than_content", "option_in_option"]
    elif cls == "BitMaskedArray":
        out += ["length_beyond_mask", "length_beyond_content", "option_in_option"]
    elif cls == "UnmaskedArray":
        out.append("option_in_option")
    elif cls == "RecordArray":
        if n["contents"]:
            out.append("field_shorter_than_length")
    elif cls.startswith("UnionArray"):
        if len(n["tags"]) >= 1:
            out += ["tag_out_of_range", "union_index_out_of_range"]
        out.append("union_in_union")
    elif cls == "NumpyArray":
        arr = (n.get("parameters") or {}).get("__array__")
        if arr is None and parent is None:
            out.append("char_outside_string")
        if arr is None and n["dtype"] != "uint8" and len(n["shape"]) == 1:
            out.append("string_over_non_char")
    return out


@st.composite
def invalidate(draw, desc):
    d = copy.deepcopy(desc)
    cands = []
    all_nodes = nodes(d)
    for path, n in all_nodes:
        parent = at(d, path[:-1] if path and path[-1] == "content" else path[:-2]) if path else None
        for rule in breakers(n, parent if path else None):
            cands.append((path, rule))
    if not cands:
        return None
    path, rule = draw(st.sampled_from(cands))
    n = at(d, path)
    cls = n["class"]
    L = lambda c: M.length_of(c)   # noqa: E731
    if rule == "offsets_decreasing":
        i = draw(st.integers(0, len(n["offsets"]) - 2))
        n["offsets"][i] = n["offsets"][i + 1] + draw(st.integers(1, 3))
    elif rule == "offsets_beyond_content":
        # make the last list non-empty and reach past the content
        n["offsets"][-1] = max(L(n["content"]), n["offsets"][-2]) + draw(st.integers(1, 3))
    elif rule == "offsets_negative":
        k = draw(st.integers(1, 3))
        n["offsets"][0] = -k
        if n["offsets"][1] == -k:
            n["offsets"][1] = 0
    elif rule == "stop_beyond_content":
        i = draw(st.integers(0, len(n["starts"]) - 1))
        n["stops"][i] = max(L(n["content"]), n["starts"][i]) + draw(st.integers(1, 3))
    elif rule == "start_gt_stop":
        i = draw(st.integers(0, len(n["starts"]) - 1))
        n["starts"][i] = n["stops"][i] + draw(st.integers(1, 3))
    elif rule == "start_negative":
        i = draw(st.integers(0, len(n["starts"]) - 1))
        n["starts"][i] = -draw(st.integers(1, 3))
        if n["stops"][i] == n["starts"][i]:
            n["stops"][i] = 0
        if n["stops"][i] < n["starts"][i]:
            n["stops"][i] = n["starts"][i] + 1
    elif rule == "index_beyond_content":
        i = draw(st.integers(0, len(n["index"]) - 1))
        n["index"][i] = L(n["content"]) + draw(st.integers(0, 3))
    elif rule == "index_negative":
        i = draw(st.integers(0, len(n["index"]) - 1))
        n["index"][i] = -draw(st.integers(1, 3))
    elif rule == "option_in_option":
        inner = n["content"]
        m = L(inner)
        kind = draw(st.sampled_from(["IndexedOptionArray64", "IndexedArray64", "UnmaskedArray", "ByteMaskedArray"]))
        if kind == "UnmaskedArray":
            n["content"] = {"class": "UnmaskedArray", "content": inner}
        elif kind == "ByteMaskedArray":
            n["content"] = {"class": "ByteMaskedArray", "mask": [1] * m, "valid_when": True, "content": inner}
        else:
            n["content"] = {"class": kind, "index": list(range(m)), "content": inner}
    elif rule == "mask_longer_than_content":
        n["mask"] = n["mask"] + [draw(st.sampled_from([0, 1]))] * (L(n["content"]) - len(n["mask"]) + draw(st.integers(1, 2)))
    elif rule == "length_beyond_mask":
        n["length"] = len(n["mask"]) * 8 + draw(st.integers(1, 3))
    elif rule == "length_beyond_content":
        want = L(n["content"]) + draw(st.integers(1, 3))
        n["length"] = want
        while len(n["mask"]) * 8 < want:
            n["mask"].append(0)
    elif rule == "field_shorter_than_length":
        n["length"] = min(L(c) for c in n["contents"]) + draw(st.integers(1, 3))
    elif rule == "tag_out_of_range":
        i = draw(st.integers(0, len(n["tags"]) - 1))
        n["tags"][i] = draw(st.sampled_from([len(n["contents"]), len(n["contents"]) + 1, -1]))
    elif rule == "union_index_out_of_range":
        i = draw(st.integers(0, len(n["tags"]) - 1))
        t = n["tags"][i]
        n["index"][i] = draw(st.sampled_from([L(n["contents"][t]), L(n["contents"][t]) + 2, -1] if not cls.endswith("U32") else [L(n["contents"][t]), L(n["contents"][t]) + 2]))
    elif rule == "union_in_union":
        inner = n["contents"][0]
        m = L(inner)
        n["contents"][0] = {"class": "UnionArray8_64", "tags": [0] * m, "index": list(range(m)), "contents": [inner, {"class": "NumpyArray", "dtype": "bool", "shape": [0], "data": []}]}
    elif rule == "char_outside_string":
        n["parameters"] = {"__array__": draw(st.sampled_from(["char", "byte"]))}
    elif rule == "string_over_non_char":
        m = n["shape"][0]
        new = {"class": "ListOffsetArray64", "offsets": [0, m], "content": copy.deepcopy(n), "parameters": {"__array__": draw(st.sampled_from(["string", "bytestring"]))}}
        n.clear()
        n.update(new)
    return {"desc": d, "rule": rule, "depth": len(path)}


@st.composite
def perturb(draw, desc):
    """change one stored integer (offset, start, stop, index, tag, mask length, record length, bit length) by a small amount"""
    d = copy.deepcopy(desc)
    slots = []
    for path, n in nodes(d):
        for key in ("offsets", "starts", "stops", "index", "tags"):
            if key in n:
                for i in range(len(n[key])):
                    slots.append((path, key, i))
        for key in ("length", "size"):
            if isinstance(n.get(key), int):
                slots.append((path, key, None))
    if not slots:
        return None
    path, key, i = draw(st.sampled_from(slots))
    n = at(d, path)
    delta = draw(st.sampled_from([-3, -2, -1, 1, 2, 3]))
    unsigned = n["class"].endswith("U32") and key in ("offsets", "starts", "stops", "index")
    if i is None:
        n[key] = max(0, n[key] + delta)
    else:
        v = n[key][i] + delta
        if unsigned or key == "tags" and False:
            v = max(0, v)
        if key == "tags":
            v = max(-128, min(127, v))
        n[key][i] = v
    return {"desc": d, "rule": "perturb:" + key, "depth": len(path)}
