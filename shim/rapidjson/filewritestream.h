// Stand-in for rapidjson/filewritestream.h (see rapidjson.h in this directory).
#ifndef VERIF_RAPIDJSON_SHIM_FILEWRITESTREAM_H_
#define VERIF_RAPIDJSON_SHIM_FILEWRITESTREAM_H_

#include "rapidjson/rapidjson.h"

namespace rapidjson {
  class FileWriteStream {
  public:
    typedef char Ch;
    FileWriteStream(std::FILE* fp, char* buffer, size_t bufferSize)
        : fp_(fp), buffer_(buffer), bufferEnd_(buffer + bufferSize),
          current_(buffer_) {}
    void Put(char c) {
      if (current_ >= bufferEnd_) {
        Flush();
      }
      *current_++ = c;
    }
    void Flush() {
      if (current_ != buffer_) {
        std::fwrite(buffer_, 1, static_cast<size_t>(current_ - buffer_), fp_);
        current_ = buffer_;
      }
    }
  private:
    std::FILE* fp_;
    char* buffer_;
    char* bufferEnd_;
    char* current_;
  };
}

#endif
