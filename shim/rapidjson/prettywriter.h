// Stand-in for rapidjson/prettywriter.h (see rapidjson.h in this directory).
#ifndef VERIF_RAPIDJSON_SHIM_PRETTYWRITER_H_
#define VERIF_RAPIDJSON_SHIM_PRETTYWRITER_H_

#include "rapidjson/writer.h"

namespace rapidjson {

  template <typename OutputStream,
            typename SourceEncoding = UTF8<>,
            typename TargetEncoding = UTF8<> >
  class PrettyWriter : public Writer<OutputStream, SourceEncoding, TargetEncoding> {
  public:
    typedef Writer<OutputStream, SourceEncoding, TargetEncoding> Base;
    typedef char Ch;

    explicit PrettyWriter(OutputStream& os)
        : Base(os), indentChar_(' '), indentCharCount_(4) {}

    PrettyWriter& SetIndent(Ch indentChar, unsigned indentCharCount) {
      indentChar_ = indentChar;
      indentCharCount_ = indentCharCount;
      return *this;
    }

    bool StartObject() {
      Prefix();
      this->levels_.push_back(typename Base::Level(false));
      this->os_->Put('{');
      return true;
    }
    bool EndObject(SizeType memberCount = 0) {
      (void)memberCount;
      bool empty = this->levels_.back().valueCount == 0;
      this->levels_.pop_back();
      if (!empty) {
        this->os_->Put('\n');
        WriteIndent();
      }
      this->os_->Put('}');
      return this->EndValue(true);
    }
    bool StartArray() {
      Prefix();
      this->levels_.push_back(typename Base::Level(true));
      this->os_->Put('[');
      return true;
    }
    bool EndArray(SizeType elementCount = 0) {
      (void)elementCount;
      bool empty = this->levels_.back().valueCount == 0;
      this->levels_.pop_back();
      if (!empty) {
        this->os_->Put('\n');
        WriteIndent();
      }
      this->os_->Put(']');
      return this->EndValue(true);
    }

  protected:
    virtual void Prefix() {
      if (!this->levels_.empty()) {
        typename Base::Level& level = this->levels_.back();
        if (level.inArray) {
          if (level.valueCount > 0) {
            this->os_->Put(',');
          }
          this->os_->Put('\n');
          WriteIndent();
        }
        else {
          if (level.valueCount % 2 == 0) {
            if (level.valueCount > 0) {
              this->os_->Put(',');
            }
            this->os_->Put('\n');
            WriteIndent();
          }
          else {
            this->os_->Put(':');
            this->os_->Put(' ');
          }
        }
        level.valueCount++;
      }
      else {
        this->hasRoot_ = true;
      }
    }

    void WriteIndent() {
      size_t count = this->levels_.size() * indentCharCount_;
      for (size_t i = 0;  i < count;  i++) {
        this->os_->Put(indentChar_);
      }
    }

    Ch indentChar_;
    unsigned indentCharCount_;
  };
}

#endif
