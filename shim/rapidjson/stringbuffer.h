// Stand-in for rapidjson/stringbuffer.h (see rapidjson.h in this directory).
#ifndef VERIF_RAPIDJSON_SHIM_STRINGBUFFER_H_
#define VERIF_RAPIDJSON_SHIM_STRINGBUFFER_H_

#include "rapidjson/rapidjson.h"

namespace rapidjson {
  class StringBuffer {
  public:
    typedef char Ch;
    StringBuffer() {}
    void Put(Ch c) { s_.push_back(c); }
    void Flush() {}
    void Clear() { s_.clear(); }
    const Ch* GetString() const { return s_.c_str(); }
    size_t GetSize() const { return s_.size(); }
    size_t GetLength() const { return s_.size(); }
  private:
    std::string s_;
  };
}

#endif
