// Stand-in for rapidjson/reader.h (see rapidjson.h in this directory).
#ifndef VERIF_RAPIDJSON_SHIM_READER_H_
#define VERIF_RAPIDJSON_SHIM_READER_H_

#include "rapidjson/rapidjson.h"

namespace rapidjson {

  template <typename Encoding = UTF8<>, typename Derived = void>
  struct BaseReaderHandler {
    typedef typename Encoding::Ch Ch;
    bool Default() { return true; }
    bool Null() { return true; }
    bool Bool(bool) { return true; }
    bool Int(int) { return true; }
    bool Uint(unsigned) { return true; }
    bool Int64(int64_t) { return true; }
    bool Uint64(uint64_t) { return true; }
    bool Double(double) { return true; }
    bool RawNumber(const Ch*, SizeType, bool) { return true; }
    bool String(const Ch*, SizeType, bool) { return true; }
    bool StartObject() { return true; }
    bool Key(const Ch*, SizeType, bool) { return true; }
    bool EndObject(SizeType) { return true; }
    bool StartArray() { return true; }
    bool EndArray(SizeType) { return true; }
  };

  // SAX parser. Follows RapidJSON's grammar and callback protocol:
  // integers that fit 32 bits go to Int/Uint, 64 bits to Int64/Uint64,
  // everything else (fraction, exponent, overflow) to Double.
  class Reader {
  public:
    Reader() : result_() {}

    template <unsigned parseFlags, typename InputStream, typename Handler>
    ParseResult Parse(InputStream& is, Handler& handler) {
      result_ = ParseResult();
      SkipWhitespace(is);
      if (is.Peek() == '\0') {
        SetError(kParseErrorDocumentEmpty, is.Tell());
      }
      else {
        ParseValue<parseFlags>(is, handler, 0);
        if (!result_.IsError()  &&  !(parseFlags & kParseStopWhenDoneFlag)) {
          SkipWhitespace(is);
          if (is.Peek() != '\0') {
            SetError(kParseErrorDocumentRootNotSingular, is.Tell());
          }
        }
      }
      return result_;
    }

    template <typename InputStream, typename Handler>
    ParseResult Parse(InputStream& is, Handler& handler) {
      return Parse<kParseDefaultFlags>(is, handler);
    }

    bool HasParseError() const { return result_.IsError(); }
    ParseErrorCode GetParseErrorCode() const { return result_.Code(); }
    size_t GetErrorOffset() const { return result_.Offset(); }

  private:
    static const int kMaxDepth = 100000;

    void SetError(ParseErrorCode code, size_t offset) {
      if (!result_.IsError()) {
        result_ = ParseResult(code, offset);
      }
    }

    template <typename InputStream>
    static void SkipWhitespace(InputStream& is) {
      for (;;) {
        char c = is.Peek();
        if (c == ' '  ||  c == '\n'  ||  c == '\r'  ||  c == '\t') {
          is.Take();
        }
        else {
          break;
        }
      }
    }

    template <typename InputStream>
    static bool Consume(InputStream& is, char expect) {
      if (is.Peek() == expect) {
        is.Take();
        return true;
      }
      return false;
    }

    template <unsigned parseFlags, typename InputStream, typename Handler>
    void ParseValue(InputStream& is, Handler& handler, int depth) {
      if (depth > kMaxDepth) {
        SetError(kParseErrorTermination, is.Tell());
        return;
      }
      switch (is.Peek()) {
        case 'n': ParseNull(is, handler); break;
        case 't': ParseTrue(is, handler); break;
        case 'f': ParseFalse(is, handler); break;
        case '"': ParseString(is, handler, false); break;
        case '{': ParseObject<parseFlags>(is, handler, depth); break;
        case '[': ParseArray<parseFlags>(is, handler, depth); break;
        default: ParseNumber<parseFlags>(is, handler); break;
      }
    }

    template <typename InputStream, typename Handler>
    void ParseNull(InputStream& is, Handler& handler) {
      is.Take();
      if (Consume(is, 'u')  &&  Consume(is, 'l')  &&  Consume(is, 'l')) {
        if (!handler.Null()) {
          SetError(kParseErrorTermination, is.Tell());
        }
      }
      else {
        SetError(kParseErrorValueInvalid, is.Tell());
      }
    }

    template <typename InputStream, typename Handler>
    void ParseTrue(InputStream& is, Handler& handler) {
      is.Take();
      if (Consume(is, 'r')  &&  Consume(is, 'u')  &&  Consume(is, 'e')) {
        if (!handler.Bool(true)) {
          SetError(kParseErrorTermination, is.Tell());
        }
      }
      else {
        SetError(kParseErrorValueInvalid, is.Tell());
      }
    }

    template <typename InputStream, typename Handler>
    void ParseFalse(InputStream& is, Handler& handler) {
      is.Take();
      if (Consume(is, 'a')  &&  Consume(is, 'l')  &&  Consume(is, 's')  &&
          Consume(is, 'e')) {
        if (!handler.Bool(false)) {
          SetError(kParseErrorTermination, is.Tell());
        }
      }
      else {
        SetError(kParseErrorValueInvalid, is.Tell());
      }
    }

    template <typename InputStream>
    bool ParseHex4(InputStream& is, unsigned& codepoint) {
      codepoint = 0;
      for (int i = 0;  i < 4;  i++) {
        char c = is.Peek();
        codepoint <<= 4;
        if (c >= '0'  &&  c <= '9') {
          codepoint += static_cast<unsigned>(c - '0');
        }
        else if (c >= 'A'  &&  c <= 'F') {
          codepoint += static_cast<unsigned>(c - 'A' + 10);
        }
        else if (c >= 'a'  &&  c <= 'f') {
          codepoint += static_cast<unsigned>(c - 'a' + 10);
        }
        else {
          SetError(kParseErrorStringUnicodeEscapeInvalidHex, is.Tell());
          return false;
        }
        is.Take();
      }
      return true;
    }

    static void EncodeUTF8(std::string& out, unsigned codepoint) {
      if (codepoint <= 0x7F) {
        out.push_back(static_cast<char>(codepoint & 0xFF));
      }
      else if (codepoint <= 0x7FF) {
        out.push_back(static_cast<char>(0xC0 | ((codepoint >> 6) & 0xFF)));
        out.push_back(static_cast<char>(0x80 | ((codepoint & 0x3F))));
      }
      else if (codepoint <= 0xFFFF) {
        out.push_back(static_cast<char>(0xE0 | ((codepoint >> 12) & 0xFF)));
        out.push_back(static_cast<char>(0x80 | ((codepoint >> 6) & 0x3F)));
        out.push_back(static_cast<char>(0x80 | (codepoint & 0x3F)));
      }
      else {
        out.push_back(static_cast<char>(0xF0 | ((codepoint >> 18) & 0xFF)));
        out.push_back(static_cast<char>(0x80 | ((codepoint >> 12) & 0x3F)));
        out.push_back(static_cast<char>(0x80 | ((codepoint >> 6) & 0x3F)));
        out.push_back(static_cast<char>(0x80 | (codepoint & 0x3F)));
      }
    }

    template <typename InputStream, typename Handler>
    void ParseString(InputStream& is, Handler& handler, bool isKey) {
      is.Take();  // opening quote
      std::string out;
      for (;;) {
        char c = is.Peek();
        if (c == '\\') {
          size_t escapeOffset = is.Tell();
          is.Take();
          char e = is.Peek();
          switch (e) {
            case '"': out.push_back('"'); is.Take(); break;
            case '\\': out.push_back('\\'); is.Take(); break;
            case '/': out.push_back('/'); is.Take(); break;
            case 'b': out.push_back('\b'); is.Take(); break;
            case 'f': out.push_back('\f'); is.Take(); break;
            case 'n': out.push_back('\n'); is.Take(); break;
            case 'r': out.push_back('\r'); is.Take(); break;
            case 't': out.push_back('\t'); is.Take(); break;
            case 'u': {
              is.Take();
              unsigned codepoint;
              if (!ParseHex4(is, codepoint)) {
                return;
              }
              if (codepoint >= 0xD800  &&  codepoint <= 0xDFFF) {
                if (codepoint <= 0xDBFF) {
                  if (!Consume(is, '\\')  ||  !Consume(is, 'u')) {
                    SetError(kParseErrorStringUnicodeSurrogateInvalid,
                             escapeOffset);
                    return;
                  }
                  unsigned codepoint2;
                  if (!ParseHex4(is, codepoint2)) {
                    return;
                  }
                  if (codepoint2 < 0xDC00  ||  codepoint2 > 0xDFFF) {
                    SetError(kParseErrorStringUnicodeSurrogateInvalid,
                             escapeOffset);
                    return;
                  }
                  codepoint = (((codepoint - 0xD800) << 10) |
                               (codepoint2 - 0xDC00)) + 0x10000;
                }
                else {
                  SetError(kParseErrorStringUnicodeSurrogateInvalid,
                           escapeOffset);
                  return;
                }
              }
              EncodeUTF8(out, codepoint);
              break;
            }
            default:
              SetError(kParseErrorStringEscapeInvalid, escapeOffset);
              return;
          }
        }
        else if (c == '"') {
          is.Take();
          break;
        }
        else if (static_cast<unsigned char>(c) < 0x20) {
          if (c == '\0') {
            SetError(kParseErrorStringMissQuotationMark, is.Tell());
          }
          else {
            SetError(kParseErrorStringInvalidEncoding, is.Tell());
          }
          return;
        }
        else {
          out.push_back(c);
          is.Take();
        }
      }
      bool ok = isKey
                  ? handler.Key(out.c_str(), static_cast<SizeType>(out.size()), true)
                  : handler.String(out.c_str(), static_cast<SizeType>(out.size()), true);
      if (!ok) {
        SetError(kParseErrorTermination, is.Tell());
      }
    }

    template <unsigned parseFlags, typename InputStream, typename Handler>
    void ParseObject(InputStream& is, Handler& handler, int depth) {
      is.Take();  // '{'
      if (!handler.StartObject()) {
        SetError(kParseErrorTermination, is.Tell());
        return;
      }
      SkipWhitespace(is);
      if (Consume(is, '}')) {
        if (!handler.EndObject(0)) {
          SetError(kParseErrorTermination, is.Tell());
        }
        return;
      }
      for (SizeType memberCount = 0;;) {
        if (is.Peek() != '"') {
          SetError(kParseErrorObjectMissName, is.Tell());
          return;
        }
        ParseString(is, handler, true);
        if (result_.IsError()) {
          return;
        }
        SkipWhitespace(is);
        if (!Consume(is, ':')) {
          SetError(kParseErrorObjectMissColon, is.Tell());
          return;
        }
        SkipWhitespace(is);
        ParseValue<parseFlags>(is, handler, depth + 1);
        if (result_.IsError()) {
          return;
        }
        SkipWhitespace(is);
        ++memberCount;
        switch (is.Peek()) {
          case ',':
            is.Take();
            SkipWhitespace(is);
            break;
          case '}':
            is.Take();
            if (!handler.EndObject(memberCount)) {
              SetError(kParseErrorTermination, is.Tell());
            }
            return;
          default:
            SetError(kParseErrorObjectMissCommaOrCurlyBracket, is.Tell());
            return;
        }
      }
    }

    template <unsigned parseFlags, typename InputStream, typename Handler>
    void ParseArray(InputStream& is, Handler& handler, int depth) {
      is.Take();  // '['
      if (!handler.StartArray()) {
        SetError(kParseErrorTermination, is.Tell());
        return;
      }
      SkipWhitespace(is);
      if (Consume(is, ']')) {
        if (!handler.EndArray(0)) {
          SetError(kParseErrorTermination, is.Tell());
        }
        return;
      }
      for (SizeType elementCount = 0;;) {
        ParseValue<parseFlags>(is, handler, depth + 1);
        if (result_.IsError()) {
          return;
        }
        ++elementCount;
        SkipWhitespace(is);
        if (Consume(is, ',')) {
          SkipWhitespace(is);
        }
        else if (Consume(is, ']')) {
          if (!handler.EndArray(elementCount)) {
            SetError(kParseErrorTermination, is.Tell());
          }
          return;
        }
        else {
          SetError(kParseErrorArrayMissCommaOrSquareBracket, is.Tell());
          return;
        }
      }
    }

    template <unsigned parseFlags, typename InputStream, typename Handler>
    void ParseNumber(InputStream& is, Handler& handler) {
      size_t startOffset = is.Tell();
      std::string text;
      bool minus = false;
      if (is.Peek() == '-') {
        minus = true;
        text.push_back(is.Take());
      }

      bool useDouble = false;
      bool overflow64 = false;
      uint64_t i64 = 0;
      double special = 0.0;
      bool isSpecial = false;

      char c = is.Peek();
      if (c == '0') {
        text.push_back(is.Take());
      }
      else if (c >= '1'  &&  c <= '9') {
        while (is.Peek() >= '0'  &&  is.Peek() <= '9') {
          char d = is.Take();
          text.push_back(d);
          unsigned digit = static_cast<unsigned>(d - '0');
          if (!overflow64) {
            if (i64 > (std::numeric_limits<uint64_t>::max() - digit) / 10) {
              overflow64 = true;
            }
            else {
              i64 = i64 * 10 + digit;
            }
          }
        }
      }
      else if ((parseFlags & kParseNanAndInfFlag)  &&  (c == 'I'  ||  c == 'N')) {
        if (c == 'N') {
          is.Take();
          if (Consume(is, 'a')  &&  Consume(is, 'N')) {
            special = std::numeric_limits<double>::quiet_NaN();
            isSpecial = true;
          }
        }
        else {
          is.Take();
          if (Consume(is, 'n')  &&  Consume(is, 'f')) {
            special = minus ? -std::numeric_limits<double>::infinity()
                            : std::numeric_limits<double>::infinity();
            isSpecial = true;
            if (is.Peek() == 'i') {
              if (!(Consume(is, 'i')  &&  Consume(is, 'n')  &&
                    Consume(is, 'i')  &&  Consume(is, 't')  &&
                    Consume(is, 'y'))) {
                isSpecial = false;
              }
            }
          }
        }
        if (!isSpecial) {
          SetError(kParseErrorValueInvalid, is.Tell());
          return;
        }
        if (!handler.Double(special)) {
          SetError(kParseErrorTermination, startOffset);
        }
        return;
      }
      else {
        SetError(kParseErrorValueInvalid, is.Tell());
        return;
      }

      if (is.Peek() == '.') {
        text.push_back(is.Take());
        if (!(is.Peek() >= '0'  &&  is.Peek() <= '9')) {
          SetError(kParseErrorNumberMissFraction, is.Tell());
          return;
        }
        while (is.Peek() >= '0'  &&  is.Peek() <= '9') {
          text.push_back(is.Take());
        }
        useDouble = true;
      }

      if (is.Peek() == 'e'  ||  is.Peek() == 'E') {
        text.push_back(is.Take());
        if (is.Peek() == '+'  ||  is.Peek() == '-') {
          text.push_back(is.Take());
        }
        if (!(is.Peek() >= '0'  &&  is.Peek() <= '9')) {
          SetError(kParseErrorNumberMissExponent, is.Tell());
          return;
        }
        while (is.Peek() >= '0'  &&  is.Peek() <= '9') {
          text.push_back(is.Take());
        }
        useDouble = true;
      }

      bool cont = true;
      if (!useDouble) {
        if (overflow64) {
          useDouble = true;
        }
        else if (minus  &&  i64 > static_cast<uint64_t>(9223372036854775808ULL)) {
          useDouble = true;
        }
      }

      if (useDouble) {
        double d = std::strtod(text.c_str(), nullptr);
        if (std::isinf(d)) {
          SetError(kParseErrorNumberTooBig, startOffset);
          return;
        }
        cont = handler.Double(d);
      }
      else if (minus) {
        if (i64 <= static_cast<uint64_t>(2147483648ULL)) {
          cont = handler.Int(static_cast<int>(-static_cast<int64_t>(i64)));
        }
        else {
          cont = handler.Int64(static_cast<int64_t>(~i64 + 1));
        }
      }
      else {
        if (i64 <= static_cast<uint64_t>(4294967295ULL)) {
          cont = handler.Uint(static_cast<unsigned>(i64));
        }
        else {
          cont = handler.Uint64(i64);
        }
      }
      if (!cont) {
        SetError(kParseErrorTermination, startOffset);
      }
    }

    ParseResult result_;
  };

  template <typename SE = UTF8<>, typename TE = UTF8<> >
  struct GenericReaderAlias {
    typedef Reader type;
  };
}

#endif
