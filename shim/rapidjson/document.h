// Stand-in for rapidjson/document.h (see rapidjson.h in this directory).
#ifndef VERIF_RAPIDJSON_SHIM_DOCUMENT_H_
#define VERIF_RAPIDJSON_SHIM_DOCUMENT_H_

#include "rapidjson/rapidjson.h"
#include "rapidjson/reader.h"

namespace rapidjson {

  class Value;

  struct Member;

  class Value {
  public:
    enum Kind { kNull, kFalse, kTrue, kInt64, kUint64, kDouble, kString,
                kArray, kObject };

    struct ArrayRange {
      const std::vector<Value>* v;
      std::vector<Value>::const_iterator begin() const { return v->begin(); }
      std::vector<Value>::const_iterator end() const { return v->end(); }
      SizeType Size() const { return static_cast<SizeType>(v->size()); }
    };

    struct ObjectRange;

    typedef std::vector<Member>::const_iterator ConstMemberIterator;
    typedef std::vector<Value>::const_iterator ConstValueIterator;

    Value() : kind_(kNull), i_(0), u_(0), d_(0.0) {}

    bool IsNull() const { return kind_ == kNull; }
    bool IsBool() const { return kind_ == kFalse  ||  kind_ == kTrue; }
    bool IsTrue() const { return kind_ == kTrue; }
    bool IsFalse() const { return kind_ == kFalse; }
    bool IsString() const { return kind_ == kString; }
    bool IsArray() const { return kind_ == kArray; }
    bool IsObject() const { return kind_ == kObject; }
    bool IsNumber() const {
      return kind_ == kInt64  ||  kind_ == kUint64  ||  kind_ == kDouble;
    }
    bool IsDouble() const { return kind_ == kDouble; }
    bool IsInt() const {
      return (kind_ == kInt64  &&  i_ >= -2147483648LL  &&  i_ <= 2147483647LL)  ||
             (kind_ == kUint64  &&  u_ <= 2147483647ULL);
    }
    bool IsUint() const {
      return (kind_ == kInt64  &&  i_ >= 0  &&  i_ <= 4294967295LL)  ||
             (kind_ == kUint64  &&  u_ <= 4294967295ULL);
    }
    bool IsInt64() const {
      return kind_ == kInt64  ||
             (kind_ == kUint64  &&  u_ <= 9223372036854775807ULL);
    }
    bool IsUint64() const {
      return kind_ == kUint64  ||  (kind_ == kInt64  &&  i_ >= 0);
    }

    bool GetBool() const { return kind_ == kTrue; }
    int GetInt() const { return static_cast<int>(GetInt64()); }
    unsigned GetUint() const { return static_cast<unsigned>(GetUint64()); }
    int64_t GetInt64() const {
      return kind_ == kInt64 ? i_ : static_cast<int64_t>(u_);
    }
    uint64_t GetUint64() const {
      return kind_ == kUint64 ? u_ : static_cast<uint64_t>(i_);
    }
    double GetDouble() const {
      if (kind_ == kDouble) { return d_; }
      if (kind_ == kInt64) { return static_cast<double>(i_); }
      return static_cast<double>(u_);
    }
    const char* GetString() const { return s_.c_str(); }
    SizeType GetStringLength() const { return static_cast<SizeType>(s_.size()); }

    SizeType Size() const { return static_cast<SizeType>(a_.size()); }
    bool Empty() const { return a_.empty(); }
    const Value& operator[](SizeType i) const { return a_[i]; }
    const Value& operator[](int i) const { return a_[static_cast<size_t>(i)]; }
    const Value& operator[](const char* name) const;
    const Value& operator[](const std::string& name) const {
      return (*this)[name.c_str()];
    }
    bool HasMember(const char* name) const;
    bool HasMember(const std::string& name) const {
      return HasMember(name.c_str());
    }
    ConstMemberIterator MemberBegin() const;
    ConstMemberIterator MemberEnd() const;
    ConstMemberIterator FindMember(const char* name) const;
    ConstMemberIterator FindMember(const std::string& name) const;
    SizeType MemberCount() const;
    ConstValueIterator Begin() const { return a_.begin(); }
    ConstValueIterator End() const { return a_.end(); }

    ArrayRange GetArray() const {
      ArrayRange out;
      out.v = &a_;
      return out;
    }
    ObjectRange GetObject() const;

    template <typename Handler>
    bool Accept(Handler& handler) const;

    bool operator==(const Value& rhs) const;
    bool operator!=(const Value& rhs) const { return !(*this == rhs); }

    // construction (used by the DOM-building handler)
    void SetNull() { Reset(); kind_ = kNull; }
    void SetBool(bool x) { Reset(); kind_ = x ? kTrue : kFalse; }
    void SetInt64(int64_t x) {
      Reset();
      if (x >= 0) { kind_ = kUint64; u_ = static_cast<uint64_t>(x); }
      else { kind_ = kInt64; i_ = x; }
    }
    void SetUint64(uint64_t x) { Reset(); kind_ = kUint64; u_ = x; }
    void SetDouble(double x) { Reset(); kind_ = kDouble; d_ = x; }
    void SetString(const char* x, SizeType length) {
      Reset(); kind_ = kString; s_ = std::string(x, length);
    }
    void SetArray() { Reset(); kind_ = kArray; }
    void SetObject() { Reset(); kind_ = kObject; }
    std::vector<Value>& array_() { return a_; }
    std::vector<Member>& object_() { return o_; }

  protected:
    void Reset();
    Kind kind_;
    int64_t i_;
    uint64_t u_;
    double d_;
    std::string s_;
    std::vector<Value> a_;
    std::vector<Member> o_;
  };

  struct Member {
    Value name;
    Value value;
  };

  struct Value::ObjectRange {
    const std::vector<Member>* v;
    std::vector<Member>::const_iterator begin() const { return v->begin(); }
    std::vector<Member>::const_iterator end() const { return v->end(); }
    SizeType MemberCount() const { return static_cast<SizeType>(v->size()); }
  };

  inline void Value::Reset() {
    i_ = 0; u_ = 0; d_ = 0.0; s_.clear(); a_.clear(); o_.clear();
  }

  inline Value::ObjectRange Value::GetObject() const {
    ObjectRange out;
    out.v = &o_;
    return out;
  }

  inline Value::ConstMemberIterator Value::MemberBegin() const {
    return o_.begin();
  }

  inline Value::ConstMemberIterator Value::MemberEnd() const {
    return o_.end();
  }

  inline SizeType Value::MemberCount() const {
    return static_cast<SizeType>(o_.size());
  }

  inline Value::ConstMemberIterator Value::FindMember(const char* name) const {
    size_t n = std::strlen(name);
    for (ConstMemberIterator it = o_.begin();  it != o_.end();  ++it) {
      if (it->name.s_.size() == n  &&
          std::memcmp(it->name.s_.data(), name, n) == 0) {
        return it;
      }
    }
    return o_.end();
  }

  inline Value::ConstMemberIterator Value::FindMember(const std::string& name) const {
    for (ConstMemberIterator it = o_.begin();  it != o_.end();  ++it) {
      if (it->name.s_ == name) {
        return it;
      }
    }
    return o_.end();
  }

  inline bool Value::HasMember(const char* name) const {
    return FindMember(name) != o_.end();
  }

  inline const Value& Value::operator[](const char* name) const {
    ConstMemberIterator it = FindMember(name);
    if (it != o_.end()) {
      return it->value;
    }
    static const Value nullvalue;
    return nullvalue;
  }

  template <typename Handler>
  bool Value::Accept(Handler& handler) const {
    switch (kind_) {
      case kNull: return handler.Null();
      case kFalse: return handler.Bool(false);
      case kTrue: return handler.Bool(true);
      case kInt64: return handler.Int64(i_);
      case kUint64: return handler.Uint64(u_);
      case kDouble: return handler.Double(d_);
      case kString:
        return handler.String(s_.c_str(), static_cast<SizeType>(s_.size()), true);
      case kArray:
        if (!handler.StartArray()) { return false; }
        for (size_t i = 0;  i < a_.size();  i++) {
          if (!a_[i].Accept(handler)) { return false; }
        }
        return handler.EndArray(static_cast<SizeType>(a_.size()));
      case kObject:
        if (!handler.StartObject()) { return false; }
        for (size_t i = 0;  i < o_.size();  i++) {
          if (!handler.Key(o_[i].name.s_.c_str(),
                           static_cast<SizeType>(o_[i].name.s_.size()),
                           true)) {
            return false;
          }
          if (!o_[i].value.Accept(handler)) { return false; }
        }
        return handler.EndObject(static_cast<SizeType>(o_.size()));
    }
    return false;
  }

  inline bool Value::operator==(const Value& rhs) const {
    if (IsNumber()  &&  rhs.IsNumber()) {
      if (IsDouble()  ||  rhs.IsDouble()) {
        double a = GetDouble();
        double b = rhs.GetDouble();
        return a >= b  &&  a <= b;
      }
      if (kind_ == rhs.kind_) {
        return kind_ == kInt64 ? i_ == rhs.i_ : u_ == rhs.u_;
      }
      return false;   // one negative, one non-negative
    }
    if (kind_ != rhs.kind_) {
      return false;
    }
    switch (kind_) {
      case kString:
        return s_ == rhs.s_;
      case kArray:
        if (a_.size() != rhs.a_.size()) { return false; }
        for (size_t i = 0;  i < a_.size();  i++) {
          if (!(a_[i] == rhs.a_[i])) { return false; }
        }
        return true;
      case kObject:
        if (o_.size() != rhs.o_.size()) { return false; }
        for (size_t i = 0;  i < o_.size();  i++) {
          ConstMemberIterator it = rhs.FindMember(o_[i].name.s_);
          if (it == rhs.o_.end()  ||  !(o_[i].value == it->value)) {
            return false;
          }
        }
        return true;
      default:
        return true;
    }
  }

  // DOM. Parse() never throws; a malformed text leaves a null document
  // with HasParseError() true, as RapidJSON does.
  class Document : public Value {
  public:
    Document() : Value(), result_() {}

    template <unsigned parseFlags>
    Document& Parse(const char* str) {
      SetNull();
      StringStream stream(str);
      Reader reader;
      Builder builder;
      result_ = reader.Parse<parseFlags>(stream, builder);
      if (!result_.IsError()  &&  builder.stack.size() == 1) {
        static_cast<Value&>(*this) = builder.stack[0];
      }
      return *this;
    }

    Document& Parse(const char* str) {
      return Parse<kParseDefaultFlags>(str);
    }

    bool HasParseError() const { return result_.IsError(); }
    ParseErrorCode GetParseError() const { return result_.Code(); }
    size_t GetErrorOffset() const { return result_.Offset(); }

  private:
    struct Builder {
      std::vector<Value> stack;
      std::vector<size_t> marks;
      bool Null() { stack.push_back(Value()); return true; }
      bool Bool(bool x) { Value v; v.SetBool(x); stack.push_back(v); return true; }
      bool Int(int x) { Value v; v.SetInt64(x); stack.push_back(v); return true; }
      bool Uint(unsigned x) { Value v; v.SetUint64(x); stack.push_back(v); return true; }
      bool Int64(int64_t x) { Value v; v.SetInt64(x); stack.push_back(v); return true; }
      bool Uint64(uint64_t x) { Value v; v.SetUint64(x); stack.push_back(v); return true; }
      bool Double(double x) { Value v; v.SetDouble(x); stack.push_back(v); return true; }
      bool String(const char* s, SizeType n, bool) {
        Value v; v.SetString(s, n); stack.push_back(v); return true;
      }
      bool Key(const char* s, SizeType n, bool copy) { return String(s, n, copy); }
      bool StartObject() { marks.push_back(stack.size()); return true; }
      bool StartArray() { marks.push_back(stack.size()); return true; }
      bool EndObject(SizeType) {
        size_t mark = marks.back();
        marks.pop_back();
        Value v;
        v.SetObject();
        for (size_t i = mark;  i + 1 < stack.size();  i += 2) {
          Member m;
          m.name = stack[i];
          m.value = stack[i + 1];
          v.object_().push_back(m);
        }
        stack.resize(mark);
        stack.push_back(v);
        return true;
      }
      bool EndArray(SizeType) {
        size_t mark = marks.back();
        marks.pop_back();
        Value v;
        v.SetArray();
        for (size_t i = mark;  i < stack.size();  i++) {
          v.array_().push_back(stack[i]);
        }
        stack.resize(mark);
        stack.push_back(v);
        return true;
      }
    };

    ParseResult result_;
  };
}

#endif
