// Stand-in for rapidjson/error/en.h (see rapidjson.h in this directory).
#ifndef VERIF_RAPIDJSON_SHIM_ERROR_EN_H_
#define VERIF_RAPIDJSON_SHIM_ERROR_EN_H_

#include "rapidjson/rapidjson.h"

namespace rapidjson {
  inline const char* GetParseError_En(ParseErrorCode code) {
    switch (code) {
      case kParseErrorNone: return "No error.";
      case kParseErrorDocumentEmpty: return "The document is empty.";
      case kParseErrorDocumentRootNotSingular: return "The document root must not be followed by other values.";
      case kParseErrorValueInvalid: return "Invalid value.";
      case kParseErrorObjectMissName: return "Missing a name for object member.";
      case kParseErrorObjectMissColon: return "Missing a colon after a name of object member.";
      case kParseErrorObjectMissCommaOrCurlyBracket: return "Missing a comma or '}' after an object member.";
      case kParseErrorArrayMissCommaOrSquareBracket: return "Missing a comma or ']' after an array element.";
      case kParseErrorStringUnicodeEscapeInvalidHex: return "Incorrect hex digit after \\u escape in string.";
      case kParseErrorStringUnicodeSurrogateInvalid: return "The surrogate pair in string is invalid.";
      case kParseErrorStringEscapeInvalid: return "Invalid escape character in string.";
      case kParseErrorStringMissQuotationMark: return "Missing a closing quotation mark in string.";
      case kParseErrorStringInvalidEncoding: return "Invalid encoding in string.";
      case kParseErrorNumberTooBig: return "Number too big to be stored in double.";
      case kParseErrorNumberMissFraction: return "Miss fraction part in number.";
      case kParseErrorNumberMissExponent: return "Miss exponent in number.";
      case kParseErrorTermination: return "Terminate parsing due to Handler error.";
      case kParseErrorUnspecificSyntaxError: return "Unspecific syntax error.";
    }
    return "Unknown error.";
  }
}

#endif
