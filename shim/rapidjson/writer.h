// Stand-in for rapidjson/writer.h (see rapidjson.h in this directory).
#ifndef VERIF_RAPIDJSON_SHIM_WRITER_H_
#define VERIF_RAPIDJSON_SHIM_WRITER_H_

#include "rapidjson/rapidjson.h"

namespace rapidjson {

  namespace shim_internal {
    // Shortest decimal digits that round-trip, as (digits, K) with
    // value = 0.d1d2d3... * 10^K  ->  here: digits * 10^k  (k = exponent of
    // the last digit), which is what RapidJSON's Grisu2 + Prettify consume.
    inline void shortest(double value, std::string& digits, int& k) {
      char buf[64];
      for (int precision = 0;  precision <= 17;  precision++) {
        std::snprintf(buf, sizeof(buf), "%.*e", precision, value);
        if (std::strtod(buf, nullptr) == value) {
          break;
        }
      }
      // buf is d.ddddde[+-]XX
      std::string s(buf);
      size_t epos = s.find('e');
      std::string mant = s.substr(0, epos);
      int exp10 = std::atoi(s.c_str() + epos + 1);
      digits.clear();
      for (size_t i = 0;  i < mant.size();  i++) {
        if (mant[i] >= '0'  &&  mant[i] <= '9') {
          digits.push_back(mant[i]);
        }
      }
      // strip trailing zeros (keep at least one digit)
      while (digits.size() > 1  &&  digits[digits.size() - 1] == '0') {
        digits.erase(digits.size() - 1);
      }
      k = exp10 - static_cast<int>(digits.size()) + 1;
    }

    // RapidJSON's Prettify(): choose between plain and exponent notation.
    inline std::string prettify(const std::string& digits_in, int k,
                                int maxDecimalPlaces) {
      std::string digits = digits_in;
      int length = static_cast<int>(digits.size());
      int kk = length + k;   // 10^(kk-1) <= v < 10^kk
      std::string out;
      if (0 <= k  &&  kk <= 21) {
        // 1234e7 -> 12340000000.0
        out = digits;
        out.append(static_cast<size_t>(k), '0');
        out.append(".0");
        return out;
      }
      else if (0 < kk  &&  kk <= 21) {
        // 1234e-2 -> 12.34
        out = digits.substr(0, static_cast<size_t>(kk)) + "." +
              digits.substr(static_cast<size_t>(kk));
        if (0 > k + maxDecimalPlaces) {
          // truncate (not round) to maxDecimalPlaces, drop trailing zeros
          // but keep at least one decimal
          // (RapidJSON's dtoa documents maxDecimalPlaces >= 1; for 0 its
          // release-build arithmetic still keeps one decimal: "3.5")
          size_t keep = static_cast<size_t>(kk + maxDecimalPlaces + 1);
          if (keep < static_cast<size_t>(kk + 2)) {
            keep = static_cast<size_t>(kk + 2);
          }
          out = out.substr(0, keep);
          while (out.size() > static_cast<size_t>(kk + 2)  &&
                 out[out.size() - 1] == '0') {
            out.erase(out.size() - 1);
          }
        }
        return out;
      }
      else if (-6 < kk  &&  kk <= 0) {
        // 1234e-6 -> 0.001234
        out = "0.";
        out.append(static_cast<size_t>(-kk), '0');
        out.append(digits);
        if (length - kk > maxDecimalPlaces) {
          out = out.substr(0, static_cast<size_t>(
                  maxDecimalPlaces >= 1 ? maxDecimalPlaces + 2 : 3));
          while (out.size() > 3  &&  out[out.size() - 1] == '0') {
            out.erase(out.size() - 1);
          }
          bool allzero = true;
          for (size_t i = 2;  i < out.size();  i++) {
            if (out[i] != '0') { allzero = false; }
          }
          if (allzero) {
            return "0.0";
          }
        }
        return out;
      }
      else if (kk < -maxDecimalPlaces) {
        return "0.0";
      }
      else if (length == 1) {
        // 1e30
        out = digits + "e" + std::to_string(kk - 1);
        return out;
      }
      else {
        // 1234e30 -> 1.234e33
        out = digits.substr(0, 1) + "." + digits.substr(1) + "e" +
              std::to_string(kk - 1);
        return out;
      }
    }
  }

  template <typename OutputStream,
            typename SourceEncoding = UTF8<>,
            typename TargetEncoding = UTF8<> >
  class Writer {
  public:
    typedef char Ch;
    static const int kDefaultMaxDecimalPlaces = 324;

    explicit Writer(OutputStream& os)
        : os_(&os), maxDecimalPlaces_(kDefaultMaxDecimalPlaces), hasRoot_(false) {}

    virtual ~Writer() {}

    int GetMaxDecimalPlaces() const { return maxDecimalPlaces_; }
    void SetMaxDecimalPlaces(int maxDecimalPlaces) {
      maxDecimalPlaces_ = maxDecimalPlaces;
    }

    bool IsComplete() const { return hasRoot_  &&  levels_.empty(); }

    bool Null() { Prefix(); PutStr("null"); return EndValue(true); }
    bool Bool(bool b) { Prefix(); PutStr(b ? "true" : "false"); return EndValue(true); }
    bool Int(int i) { return Int64(static_cast<int64_t>(i)); }
    bool Uint(unsigned u) { return Uint64(static_cast<uint64_t>(u)); }
    bool Int64(int64_t i) {
      Prefix();
      PutStr(std::to_string(i).c_str());
      return EndValue(true);
    }
    bool Uint64(uint64_t u) {
      Prefix();
      PutStr(std::to_string(u).c_str());
      return EndValue(true);
    }
    bool Double(double d) {
      Prefix();
      return EndValue(WriteDouble(d));
    }
    bool String(const Ch* str, SizeType length, bool copy = false) {
      (void)copy;
      Prefix();
      WriteString(str, length);
      return EndValue(true);
    }
    bool String(const Ch* str) {
      return String(str, static_cast<SizeType>(std::strlen(str)));
    }
    bool String(const std::string& str) {
      return String(str.data(), static_cast<SizeType>(str.size()));
    }
    bool Key(const Ch* str, SizeType length, bool copy = false) {
      return String(str, length, copy);
    }
    bool Key(const Ch* str) {
      return Key(str, static_cast<SizeType>(std::strlen(str)));
    }
    bool Key(const std::string& str) {
      return Key(str.data(), static_cast<SizeType>(str.size()));
    }
    bool RawNumber(const Ch* str, SizeType length, bool copy = false) {
      return String(str, length, copy);
    }
    bool StartObject() {
      Prefix();
      levels_.push_back(Level(false));
      os_->Put('{');
      return true;
    }
    bool EndObject(SizeType memberCount = 0) {
      (void)memberCount;
      levels_.pop_back();
      os_->Put('}');
      return EndValue(true);
    }
    bool StartArray() {
      Prefix();
      levels_.push_back(Level(true));
      os_->Put('[');
      return true;
    }
    bool EndArray(SizeType elementCount = 0) {
      (void)elementCount;
      levels_.pop_back();
      os_->Put(']');
      return EndValue(true);
    }
    void Flush() { os_->Flush(); }

  protected:
    struct Level {
      Level(bool inArray_) : valueCount(0), inArray(inArray_) {}
      size_t valueCount;
      bool inArray;
    };

    void PutStr(const char* s) {
      while (*s) {
        os_->Put(*s++);
      }
    }

    bool WriteDouble(double d) {
      if (std::isnan(d)  ||  std::isinf(d)) {
        return false;   // no kWriteNanAndInfFlag: writes nothing
      }
      if (d == 0.0) {
        if (std::signbit(d)) {
          os_->Put('-');
        }
        PutStr("0.0");
        return true;
      }
      if (d < 0) {
        os_->Put('-');
        d = -d;
      }
      std::string digits;
      int k;
      shim_internal::shortest(d, digits, k);
      PutStr(shim_internal::prettify(digits, k, maxDecimalPlaces_).c_str());
      return true;
    }

    void WriteString(const Ch* str, SizeType length) {
      static const char hexDigits[] = "0123456789ABCDEF";
      os_->Put('"');
      for (SizeType i = 0;  i < length;  i++) {
        unsigned char c = static_cast<unsigned char>(str[i]);
        if (c == '"') { os_->Put('\\'); os_->Put('"'); }
        else if (c == '\\') { os_->Put('\\'); os_->Put('\\'); }
        else if (c == '\b') { os_->Put('\\'); os_->Put('b'); }
        else if (c == '\f') { os_->Put('\\'); os_->Put('f'); }
        else if (c == '\n') { os_->Put('\\'); os_->Put('n'); }
        else if (c == '\r') { os_->Put('\\'); os_->Put('r'); }
        else if (c == '\t') { os_->Put('\\'); os_->Put('t'); }
        else if (c < 0x20) {
          os_->Put('\\'); os_->Put('u'); os_->Put('0'); os_->Put('0');
          os_->Put(hexDigits[c >> 4]);
          os_->Put(hexDigits[c & 0xF]);
        }
        else {
          os_->Put(static_cast<char>(c));
        }
      }
      os_->Put('"');
    }

    virtual void Prefix() {
      if (!levels_.empty()) {
        Level& level = levels_.back();
        if (level.valueCount > 0) {
          if (level.inArray) {
            os_->Put(',');
          }
          else {
            os_->Put((level.valueCount % 2 == 0) ? ',' : ':');
          }
        }
        level.valueCount++;
      }
      else {
        hasRoot_ = true;
      }
    }

    bool EndValue(bool ret) {
      if (levels_.empty()) {
        Flush();
      }
      return ret;
    }

    OutputStream* os_;
    int maxDecimalPlaces_;
    bool hasRoot_;
    std::vector<Level> levels_;
  };
}

#endif
