// Minimal stand-in for the subset of the RapidJSON API that libawkward uses.
// The real RapidJSON is a git submodule of the repository whose directory is
// empty in this sandbox and cannot be fetched. This file is NOT RapidJSON; it
// re-implements, from RapidJSON's documented behaviour, only what
// src/libawkward/{Content,util}.cpp, type/Type.cpp and io/json.cpp call.
#ifndef VERIF_RAPIDJSON_SHIM_RAPIDJSON_H_
#define VERIF_RAPIDJSON_SHIM_RAPIDJSON_H_

#include <cstddef>
#include <cstdint>
#include <cstdio>
#include <cstdlib>
#include <cstring>
#include <cmath>
#include <string>
#include <vector>
#include <limits>

#define RAPIDJSON_SHIM 1

namespace rapidjson {
  typedef unsigned SizeType;

  template <typename CharType = char>
  struct UTF8 {
    typedef CharType Ch;
  };

  enum ParseFlag {
    kParseNoFlags = 0,
    kParseInsituFlag = 1,
    kParseValidateEncodingFlag = 2,
    kParseIterativeFlag = 4,
    kParseStopWhenDoneFlag = 8,
    kParseFullPrecisionFlag = 16,
    kParseCommentsFlag = 32,
    kParseNumbersAsStringsFlag = 64,
    kParseTrailingCommasFlag = 128,
    kParseNanAndInfFlag = 256,
    kParseDefaultFlags = kParseNoFlags
  };

  enum ParseErrorCode {
    kParseErrorNone = 0,
    kParseErrorDocumentEmpty,
    kParseErrorDocumentRootNotSingular,
    kParseErrorValueInvalid,
    kParseErrorObjectMissName,
    kParseErrorObjectMissColon,
    kParseErrorObjectMissCommaOrCurlyBracket,
    kParseErrorArrayMissCommaOrSquareBracket,
    kParseErrorStringUnicodeEscapeInvalidHex,
    kParseErrorStringUnicodeSurrogateInvalid,
    kParseErrorStringEscapeInvalid,
    kParseErrorStringMissQuotationMark,
    kParseErrorStringInvalidEncoding,
    kParseErrorNumberTooBig,
    kParseErrorNumberMissFraction,
    kParseErrorNumberMissExponent,
    kParseErrorTermination,
    kParseErrorUnspecificSyntaxError
  };

  struct ParseResult {
    ParseResult() : code_(kParseErrorNone), offset_(0) {}
    ParseResult(ParseErrorCode code, size_t offset)
        : code_(code), offset_(offset) {}
    ParseErrorCode Code() const { return code_; }
    size_t Offset() const { return offset_; }
    operator bool() const { return code_ == kParseErrorNone; }
    bool IsError() const { return code_ != kParseErrorNone; }
    ParseErrorCode code_;
    size_t offset_;
  };

  // Read-only string stream.
  template <typename Encoding>
  struct GenericStringStream {
    typedef typename Encoding::Ch Ch;
    GenericStringStream(const Ch* src) : src_(src), head_(src) {}
    Ch Peek() const { return *src_; }
    Ch Take() { return *src_++; }
    size_t Tell() const { return static_cast<size_t>(src_ - head_); }
    const Ch* src_;
    const Ch* head_;
  };
  typedef GenericStringStream<UTF8<> > StringStream;
}

#endif
