// Stand-in for rapidjson/filereadstream.h (see rapidjson.h in this directory).
#ifndef VERIF_RAPIDJSON_SHIM_FILEREADSTREAM_H_
#define VERIF_RAPIDJSON_SHIM_FILEREADSTREAM_H_

#include "rapidjson/rapidjson.h"

namespace rapidjson {
  class FileReadStream {
  public:
    typedef char Ch;
    FileReadStream(std::FILE* fp, char* buffer, size_t bufferSize)
        : fp_(fp), buffer_(buffer), bufferSize_(bufferSize),
          bufferLast_(0), current_(buffer_), readCount_(0), count_(0),
          eof_(false) {
      Read();
    }
    Ch Peek() const { return *current_; }
    Ch Take() { Ch c = *current_; Read(); return c; }
    size_t Tell() const {
      return count_ + static_cast<size_t>(current_ - buffer_);
    }
  private:
    void Read() {
      if (current_ < bufferLast_) {
        ++current_;
      }
      else if (!eof_) {
        count_ += readCount_;
        readCount_ = std::fread(buffer_, 1, bufferSize_, fp_);
        bufferLast_ = buffer_ + readCount_ - 1;
        current_ = buffer_;
        if (readCount_ < bufferSize_) {
          buffer_[readCount_] = '\0';
          ++bufferLast_;
          eof_ = true;
        }
      }
    }
    std::FILE* fp_;
    Ch* buffer_;
    size_t bufferSize_;
    Ch* bufferLast_;
    Ch* current_;
    size_t readCount_;
    size_t count_;
    bool eof_;
  };
}

#endif
