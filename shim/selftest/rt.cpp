// reads length-prefixed JSON texts from stdin; for each: DOM parse with the stand-in, write compact + pretty,
// SAX parse with stop-when-done loop counting documents. Output one line per input (JSON-escaped by hand is avoided: use hex)
#include <cstdio>
#include <iostream>
#include <string>
#include <vector>
#include "rapidjson/document.h"
#include "rapidjson/reader.h"
#include "rapidjson/writer.h"
#include "rapidjson/prettywriter.h"
#include "rapidjson/stringbuffer.h"
namespace rj = rapidjson;
static std::string hex(const std::string& s) { static const char* d = "0123456789abcdef"; std::string o; for (unsigned char c : s) { o.push_back(d[c >> 4]); o.push_back(d[c & 15]); } return o; }
struct Count : rj::BaseReaderHandler<rj::UTF8<>, Count> { };
int main() {
  std::string line;
  while (std::getline(std::cin, line)) {
    // line is hex of the text
    std::string text;
    for (size_t i = 0; i + 1 < line.size(); i += 2) text.push_back((char)std::stoi(line.substr(i, 2), nullptr, 16));
    rj::Document doc;
    doc.Parse<rj::kParseNanAndInfFlag>(text.c_str());
    if (doc.HasParseError()) { std::cout << "ERR " << (int)doc.GetParseError() << " " << doc.GetErrorOffset(); }
    else {
      rj::StringBuffer b1; rj::Writer<rj::StringBuffer> w1(b1); doc.Accept(w1);
      rj::StringBuffer b2; rj::PrettyWriter<rj::StringBuffer> w2(b2); doc.Accept(w2);
      rj::Document again; again.Parse<rj::kParseNanAndInfFlag>(b1.GetString());
      std::cout << "OK " << hex(b1.GetString()) << " " << hex(b2.GetString()) << " " << (again == doc ? 1 : 0);
    }
    // multi-document SAX loop like do_parse
    rj::Reader reader; rj::StringStream ss(text.c_str()); Count h; int ndocs = 0; bool bad = false;
    while (ss.Peek() != 0) {
      size_t before = ss.Tell();
      bool ok = reader.Parse<rj::kParseStopWhenDoneFlag>(ss, h);
      if (ok) ndocs++;
      else { if (reader.GetParseErrorCode() == rj::kParseErrorDocumentEmpty && ss.Peek() == 0) break; bad = true; break; }
      if (ss.Tell() == before) { bad = true; break; }
    }
    std::cout << " | " << (bad ? -1 : ndocs) << "\n";
  }
}
