import json, subprocess, math, sys, os
import hypothesis
from hypothesis import given, settings, strategies as st, HealthCheck

def jsonvals():
    leaf = st.one_of(st.none(), st.booleans(), st.integers(-2**63, 2**64 - 1), st.integers(-5, 5),
                     st.floats(allow_nan=False, allow_infinity=False), st.floats(allow_nan=False, allow_infinity=False, width=32),
                     st.text(max_size=8), st.text(alphabet=st.characters(min_codepoint=0, max_codepoint=0x2ff), max_size=6))
    return st.recursive(leaf, lambda c: st.one_of(st.lists(c, max_size=4), st.dictionaries(st.text(max_size=4), c, max_size=3)), max_leaves=12)

texts = []
@hypothesis.seed(1)
@settings(max_examples=4000, deadline=None, database=None, suppress_health_check=list(HealthCheck))
@given(jsonvals(), st.booleans(), st.sampled_from([None, 0, 1, 3]), st.integers(0, 40), st.integers(0, 255), st.integers(0, 3))
def collect(v, ascii_, indent, cut, byte, mode):
    t = json.dumps(v, ensure_ascii=ascii_, indent=indent)
    if "\x00" in t: return
    b = t.encode("utf-8")
    if mode == 1 and len(b) > 1: b = b[: cut % len(b)]                       # truncation
    elif mode == 2 and len(b) > 0:                                             # corruption
        i = cut % len(b); b = b[:i] + bytes([byte or 1]) + b[i + 1:]
    elif mode == 3: b = b + b" \n " + json.dumps(v).encode() + b" "           # two documents
    if b"\x00" in b: return
    texts.append(b)
collect()
inp = "\n".join(t.hex() for t in texts) + "\n"
out = subprocess.run(["./rt"], input=inp.encode(), capture_output=True).stdout.decode().splitlines()
assert len(out) == len(texts), (len(out), len(texts))

def py_parse(b):
    try:
        s = b.decode("utf-8")
    except UnicodeDecodeError:
        return "UNDECODABLE", None
    try:
        return "OK", json.loads(s, parse_constant=lambda c: {"NaN": math.nan, "Infinity": math.inf, "-Infinity": -math.inf}[c])
    except ValueError:
        return "ERR", None

def py_ndocs(b):
    try: s = b.decode("utf-8")
    except UnicodeDecodeError: return None
    dec = json.JSONDecoder(); i = 0; n = 0
    while True:
        while i < len(s) and s[i] in " \t\r\n": i += 1
        if i >= len(s): return n
        try: _, i = dec.raw_decode(s, i); n += 1
        except ValueError: return -1

def same(a, b):
    if isinstance(a, float) or isinstance(b, float):
        if isinstance(a, bool) or isinstance(b, bool): return False
        if isinstance(a, (int, float)) and isinstance(b, (int, float)):
            return (math.isnan(a) and math.isnan(b)) or float(a) == float(b)
        return False
    if type(a) != type(b): return False
    if isinstance(a, list): return len(a) == len(b) and all(same(x, y) for x, y in zip(a, b))
    if isinstance(a, dict): return a.keys() == b.keys() and all(same(a[k], b[k]) for k in a)
    return a == b

stats = {"ok_agree": 0, "err_agree": 0, "undecodable": 0, "dup_keys_skipped": 0}
problems = []
for t, line in zip(texts, out):
    main, nd = line.split(" | ")
    st_, val = py_parse(t)
    if st_ == "UNDECODABLE": stats["undecodable"] += 1; continue
    if main.startswith("OK"):
        _, compact, pretty, eq = main.split(" ")
        c = bytes.fromhex(compact).decode("utf-8"); p = bytes.fromhex(pretty).decode("utf-8")
        if st_ != "OK": problems.append(("shim accepts, python rejects", t)); continue
        # python json accepts big ints exactly; the stand-in turns > uint64 / < int64 into doubles like RapidJSON
        try:
            cv = json.loads(c); pv = json.loads(p)
        except ValueError as e:
            problems.append(("shim output not JSON", t, c)); continue
        if not same(cv, pv): problems.append(("compact != pretty", t)); continue
        if not same(cv, val): problems.append(("value changed", t, c)); continue
        if eq != "1": problems.append(("reparse != doc", t)); continue
        stats["ok_agree"] += 1
    else:
        if st_ == "OK": problems.append(("python accepts, shim rejects", t, main)); continue
        stats["err_agree"] += 1
    pn = py_ndocs(t)
    if pn is not None and int(nd) != pn: problems.append(("ndocs", t, nd, pn))
print(len(texts), stats, len(problems), "problems")
seen = set()
for pr in problems:
    if pr[0] not in seen or len(seen) < 0:
        seen.add(pr[0]); print(pr[:4])
import collections; print(collections.Counter(p[0] for p in problems))
