"""C18, Python level (tier P): ak.virtual / ak.materialized / records with virtual fields, and ak.partitioned / ak.repartition /
PartitionedArray (src/awkward/partition.py), running unmodified on the akshim emulation of awkward._ext.

Both parts are twin comparisons, as the statement is phrased: the lazy (or partitioned) array and the eager, concatenated array get
the same high-level operation; outcome class and value (read through the independent evaluator, checks/pcommon.read) must agree.

part "pvirtual":   description -> eager ak.Array; the twin is ak.virtual(generate, form=?, length=?, cache=?, cache_key=?) at the root, or
                   a RecordArray one of whose fields is that virtual array (the documented ak.from_parquet/from_buffers(lazy) shape);
                   generator correct / raises on drawn calls / shorter than declared / other form than declared; cache "new" (dict),
                   None, a MutableMapping that never keeps, or one that evicts on a drawn schedule; 1..8 high-level operations,
                   possibly on the lazy result of an earlier step.
part "ppartition": a value cut into 1..4 pieces (empty ones included) with independent encodings -> ak.partitioned([...]); 1..8
                   operations incl. ak.repartition (int / list / None) and slices that become the next source.
"""
import json

import numpy as np
from hypothesis import strategies as st

from akgen import gen
from akmodel import core as M
from akshim import describe as D
from checks import pcommon as P
from vlib.common import Violation, HarnessError

VCFG = gen.Cfg(max_depth=3, leaf_dtypes=("int64", "float64", "bool"), zero_field_records=False, nan=False, unknown=False)
QCFG = gen.Cfg(max_depth=2, leaf_dtypes=("int64", "float64", "bool"), zero_field_records=False, nan=False, unknown=False, max_len=8)
LAZY_P = ("len", "type", "range1", "field")
NO_DATA_P = ("len", "type", "fields")


class GeneratorFailure(Exception):
    """what a failing generator callable raises"""


# ------------------------------------------------------------------------------------------------ strategies
def _field_names(T):
    T = M.strip_option(T)
    return [nm for nm, _ in T[1]] if T[0] == "record" and not T[2] else []


POSITIONAL = ["len", "type", "to_list", "to_list", "at", "at", "range", "range", "range", "index", "mask", "to_json", "fields", "field"]


def list_depth(T):
    """number of dimensions (the array itself counts) of a type made of lists, options and numbers only; None otherwise"""
    d = 1
    while True:
        T = M.strip_option(T)
        if T[0] in ("list", "regular"):
            d += 1
            T = T[1]
        elif T[0] == "prim":
            return d
        else:
            return None


@st.composite
def hl_step(draw, n, names, partitioned, positional_only=False, depth=None, sortable=True):
    kinds = (POSITIONAL + ([] if positional_only else ["num", "flatten", "sum", "add1", "is_none"])
             + (["repartition", "repartition", "partitions", "concat_self", "concat_self_len", "concat_self_at"] if partitioned
                else ["materialized", "range", "field"]))
    if partitioned and depth is not None and not positional_only:
        # operations whose partitioned implementation decides between "per partition" and "across partitions" by the axis: the
        # outermost axis spelled 0 and -depth, inner axes in both spellings (added after the seeded changes C03-e and C09-e were missed)
        # (sorting option-type data is C06's recorded finding argsort_with_missing: only option-free types are sorted here)
        kinds = kinds + ["pad_none"] * 3 + ["reduce_axis"] * 3 + ["num_axis"] + (["sort_axis"] * 5 if sortable else [])
    op = draw(st.sampled_from(kinds))
    b = st.one_of(st.none(), st.integers(-n - 2, n + 2))
    if op == "concat_self_at":
        return {"op": op, "i": draw(st.integers(-2 * n - 1, 2 * n))}
    if op == "pad_none":
        return {"op": op, "target": draw(st.integers(0, n + 2)), "axis": draw(st.sampled_from([0, -depth] + ([1, -1] if depth >= 2 else []))),
                "clip": draw(st.booleans())}
    if op == "reduce_axis":
        # the outermost axis only where nothing lies below it (reducing across lists is other properties' known findings)
        axes = [0, -1] if depth == 1 else [depth - 1, -1]
        return {"op": op, "name": draw(st.sampled_from(["sum", "max", "min", "count", "count_nonzero", "any", "all", "argmax", "argmin"])),
                "axis": draw(st.sampled_from(axes)), "keepdims": draw(st.booleans()), "mask_identity": draw(st.booleans())}
    if op == "num_axis":
        return {"op": op, "axis": draw(st.sampled_from([0, -depth] + ([1, 1 - depth] if depth >= 2 else [])))}
    if op == "sort_axis":
        # as for reducers: the outermost axis only where it is also the innermost (sorting across lists is other properties' known findings)
        axes = [0, -1] if depth == 1 else [depth - 1, -1]
        fn = draw(st.sampled_from(["sort", "argsort"]))
        if depth == 2 and fn == "sort":
            axes = [0, -2, -2, -2, 1, -1]     # sorting values (not positions) one level above the leaves has no recorded finding in C06
        return {"op": op, "fn": fn, "axis": draw(st.sampled_from(axes)), "ascending": draw(st.booleans())}
    if op == "at":
        return {"op": op, "i": draw(st.integers(-n - 1, n))}
    if op == "range":
        return {"op": op, "start": draw(b), "stop": draw(b), "step": draw(st.sampled_from([None, None, 1, 1, 2, 3, -1, -2]))}
    if op == "index":
        idx = draw(st.lists(st.integers(-n, n - 1) if n else st.just(0), min_size=0 if n else 0, max_size=5 if n else 0))
        dts = ["int64", "int64", "int32", "int8"] + (["uint8", "uint16", "uint32", "uint64"] if all(i >= 0 for i in idx) else [])
        return {"op": op, "index": idx, "dtype": draw(st.sampled_from(dts))}
    if op == "mask":
        return {"op": op, "mask": draw(st.lists(st.booleans(), min_size=n, max_size=n))}
    if op == "num":
        return {"op": op, "axis": 1}         # axis=0 is len() (and another property's known finding on records)
    if op == "flatten":
        return {"op": op, "axis": draw(st.sampled_from([None, 1, 1]))}
    if op == "sum":
        # reducing at an axis runs into other properties' known findings (non-local reduction, negative axis through records); without an
        # axis every reducer combines one result per partition (added after the seeded change C03-h - ak.max(axis=None) folding the pieces
        # with the wrong comparison - was missed)
        return {"op": op, "axis": None, "name": draw(st.sampled_from(["sum", "sum", "max", "min", "count", "count_nonzero", "any", "all"]))}
    if op == "field":
        return {"op": op, "name": draw(st.sampled_from(list(names) + ["nope"]))}
    if op == "repartition":
        how = draw(st.sampled_from(["int", "list", "list", "none"]))
        if how == "int":
            return {"op": op, "lengths": draw(st.integers(1, max(1, n + 1)))}
        if how == "none":
            return {"op": op, "lengths": None}
        k = draw(st.integers(1, 4))
        cuts = sorted(draw(st.lists(st.integers(0, n), min_size=k - 1, max_size=k - 1)))
        stops = cuts + [n]
        return {"op": op, "lengths": [b_ - a_ for a_, b_ in zip([0] + stops[:-1], stops)]}
    return {"op": op}


def _after(n, spec):
    """length of the result when it becomes the next source (range only)"""
    return len(range(n)[slice(spec["start"], spec["stop"], spec["step"])])


@st.composite
def pvirtual_cases(draw):
    T = draw(gen.types(VCFG))
    vals = draw(gen.values(T, VCFG))
    desc = draw(gen.encode(T, vals, VCFG))
    n = len(vals)
    gk = draw(st.sampled_from(["correct"] * 6 + ["raises"] * 3 + ["short", "wrong_form", "wrong_form"]))
    g = {"kind": gk}
    case = {"part": "pvirtual", "desc": desc, "where": draw(st.sampled_from(["root", "root", "field"])),
            "declare_form": draw(st.integers(0, 3)) > 0, "declare_length": draw(st.integers(0, 3)) > 0,
            "key": draw(st.sampled_from([None, None, "pk"])), "gen": g}
    if gk == "raises":
        g["fail_calls"] = sorted(set(draw(st.lists(st.integers(1, 5), min_size=1, max_size=3))))
    if gk == "short":
        g["delta"] = draw(st.integers(1, 2))
        case["declare_length"] = True
    if gk == "wrong_form":
        T2 = draw(gen.types(VCFG))
        if T2 == T or not gen.has_values(T2):
            T2 = ["list", T]
        g["wrong"] = gen.canonical(T2, [])
        case["declare_form"] = True
    ck = draw(st.sampled_from(["new", "new", "none", "none", "never_keeps", "schedule", "schedule", "schedule"]))
    case["cache"] = {"kind": ck}
    if ck == "schedule":
        case["cache"]["schedule"] = draw(st.lists(st.booleans(), min_size=1, max_size=24))
    names = _field_names(T) if case["where"] == "root" else ["x", "i"]
    steps = []
    lens = {-1: n}
    for j in range(draw(st.integers(1, 8))):
        src = draw(st.sampled_from(sorted(lens))) if draw(st.integers(0, 2)) == 0 else -1
        spec = draw(hl_step(lens[src], names if src == -1 else [], False))
        steps.append({"src": src, "spec": spec})
        if spec["op"] == "range":
            lens[j] = _after(lens[src], spec)
    case["steps"] = steps
    return case


@st.composite
def ppartition_cases(draw):
    T = draw(gen.types(QCFG))
    vals = draw(gen.values(T, QCFG))
    n = len(vals)
    k = draw(st.integers(1, 4))
    cuts = sorted(draw(st.lists(st.integers(0, n), min_size=k - 1, max_size=k - 1)))
    # the twin is the canonical encoding of the whole value.  Operations that look below the top level (reducers, flatten, ufuncs)
    # are only compared on canonically encoded pieces: how they treat unreachable buffer contents is another property's matter
    encoded = draw(st.integers(0, 2)) == 0
    pieces = []
    a = 0
    for b in cuts + [n]:
        pieces.append(draw(gen.encode(T, vals[a:b], QCFG)) if encoded else gen.canonical(T, vals[a:b]))
        a = b
    names = _field_names(T)
    steps = []
    lens = {-1: n}
    for j in range(draw(st.integers(1, 8))):
        src = draw(st.sampled_from(sorted(lens))) if draw(st.integers(0, 2)) == 0 else -1
        spec = draw(hl_step(lens[src], names, True, encoded, list_depth(T), "'option'" not in repr(T)))
        steps.append({"src": src, "spec": spec})
        if spec["op"] == "range":
            lens[j] = _after(lens[src], spec)
        elif spec["op"] == "repartition":
            lens[j] = lens[src]
        elif spec["op"] == "concat_self":
            lens[j] = 2 * lens[src]
    return {"part": "ppartition", "pieces": pieces, "encoded": encoded, "steps": steps}


# ------------------------------------------------------------------------------------------------ execution
def papply(A, x, spec):
    op = spec["op"]
    if op == "len":
        return len(x)
    if op == "type":
        return str(A.type(x))
    if op == "to_list":
        return x                      # the read of the result is the operation
    if op == "at":
        return x[spec["i"]]
    if op in ("range", "range1"):
        return x[slice(spec["start"], spec["stop"], spec["step"])]
    if op == "field":
        return x[spec["name"]]
    if op == "index":
        return x[np.array(spec["index"], dtype=np.dtype(spec.get("dtype", "int64")))]
    if op == "mask":
        return x[np.array(spec["mask"], dtype=np.bool_)]
    if op == "num":
        return A.num(x, axis=spec["axis"])
    if op == "flatten":
        return A.flatten(x, axis=spec["axis"])
    if op == "sum":
        return getattr(A, spec.get("name", "sum"))(x, axis=spec["axis"])
    if op == "add1":
        return x + 1
    if op == "is_none":
        return A.is_none(x)
    if op == "materialized":
        return A.materialized(x)
    if op == "to_json":
        return json.loads(A.to_json(x))
    if op == "fields":
        return A.fields(x)
    if op == "partitions":
        return sum(A.partitions(x) or [len(x)])       # the partition lengths add up to the length
    if op == "repartition":
        return A.repartition(x, spec["lengths"])
    # mergebool=False: with the default, concatenating unions of numbers and booleans turns the booleans into numbers in the eager array
    # (its union is simplified) and not in the partitioned one (partitions are only listed) - a matter of merging, not of partitioning
    if op == "concat_self":
        return A.concatenate([x, x], mergebool=False)
    if op == "concat_self_len":
        return len(A.concatenate([x, x], mergebool=False))
    if op == "concat_self_at":
        return A.concatenate([x, x], mergebool=False)[spec["i"]]
    if op == "pad_none":
        return A.pad_none(x, spec["target"], axis=spec["axis"], clip=spec["clip"])
    if op == "reduce_axis":
        return getattr(A, spec["name"])(x, axis=spec["axis"], keepdims=spec["keepdims"], mask_identity=spec["mask_identity"])
    if op == "num_axis":
        return A.num(x, axis=spec["axis"])
    if op == "sort_axis":
        return getattr(A, spec["fn"])(x, axis=spec["axis"], ascending=spec["ascending"], stable=True)
    raise HarnessError("unknown high-level op " + op)


def _outcome(fn):
    try:
        return P.outcome(fn)
    except TypeError as e:
        if "incompatible function arguments" in str(e) or "is not iterable" in str(e):
            return ("TypeError", str(e))      # what pybind11 raises for an argument list no overload accepts / a Record being iterated
        raise
    except NotImplementedError as e:
        if "not available in the /verif emulation" in str(e):
            return ("EmulationGap", str(e))   # e.g. ak.from_iter needs the ArrayBuilder emulation (another check's module): step skipped, counted
        raise


def pread(x, what):
    """value of a high-level result, read through the independent evaluator and cross-checked with ak.to_list.  Unlike pcommon.read a
    ValueError / RuntimeError raised while walking the result propagates: for a lazy result that is the deferred outcome of the operation"""
    A = P.ak()
    from akshim import layout as L
    lay = x
    if isinstance(x, (A.Array, A.Record)):
        lay = x.layout
    if isinstance(lay, A.partition.PartitionedArray):
        lay = lay.toContent()
    if not isinstance(lay, L.Content):
        return P.pyvalue(x)
    try:
        v = D.value_of(lay)[1]
    except M.Invalid as e:
        raise Violation("unreadable:" + what, "result of %s cannot be evaluated: %s" % (what, e))
    if isinstance(x, (A.Array, A.Record)):
        pv = P.pyvalue(A.to_list(x))
        if not M.same_value(pv, v):
            raise Violation("tolist:" + what, "ak.to_list of the result of %s differs from its buffers read directly" % what, expected=M.jsonable(v), observed=M.jsonable(pv))
    return v


def pattempt(fn, what):
    """(kind, message, value, result): the operation followed by a complete read of its result"""
    try:
        kind, res = _outcome(fn)
        if kind != "ok":
            return kind, res, None, None
        kind2, val = _outcome(lambda: pread(res, what))
        if kind2 != "ok":
            return kind2, val, None, None
        return "ok", None, val, res
    except GeneratorFailure as e:
        return "GeneratorFailure", str(e), None, None
    except Violation as v:              # pcommon.read: the result cannot be evaluated / to_list disagrees with the buffers
        return "Unreadable", "%s: %s" % (v.bucket, v.message), None, None


class PMapping(dict):
    """the MutableMapping handed to ak.virtual(cache=...)"""

    def __init__(self, kind, schedule, run):
        dict.__init__(self)
        self.kind, self.schedule, self.run, self.pos = kind, list(schedule or ()), run, 0

    def _evict_now(self):
        if self.kind != "schedule" or self.pos >= len(self.schedule):
            return False
        self.pos += 1
        return self.schedule[self.pos - 1]

    def __getitem__(self, key):
        if self.kind == "never_keeps":
            raise KeyError(key)
        if self._evict_now() and len(self):
            self.clear()
            self.run["evictions"] += 1
        return dict.__getitem__(self, key)

    def __setitem__(self, key, value):
        if self.kind == "never_keeps":
            return
        if self._evict_now():
            self.pop(key, None)
            self.run["evictions"] += 1
            return
        dict.__setitem__(self, key, value)


def run_pvirtual(case):
    A = P.ak()
    from akshim import virtual as V
    try:
        return _run_pvirtual(case, A, V)
    finally:
        V.clear_pending()


def _run_pvirtual(case, A, V):
    from akshim import layout as L
    desc, g, ck = case["desc"], case["gen"], case["cache"]["kind"]
    gk = g["kind"]
    T, vals = M.decode(desc)
    n = len(vals)
    run = {"calls": 0, "failures": 0, "evictions": 0, "quiet": False}

    def generate():
        if not run["quiet"]:
            run["calls"] += 1
            if gk == "raises" and run["calls"] in g["fail_calls"]:
                run["failures"] += 1
                raise GeneratorFailure("call %d" % run["calls"])
        return A.Array(D.build(desc))

    form = None
    if case["declare_form"]:
        form = json.loads(V.form_of(D.build(g["wrong"] if gk == "wrong_form" else desc)).tojson(False, False))
    length = None
    if case["declare_length"]:
        length = n + g["delta"] if gk == "short" else n
    mapping = None
    if ck == "new":
        cache = "new"
    elif ck == "none":
        cache = None
    else:
        mapping = cache = PMapping(ck, case["cache"].get("schedule"), run)
    label = "%s|%s|%s" % (case["where"], ck, gk)
    tags = ["part:pvirtual", "pcache:" + ck, "pgen:" + gk, "pwhere:" + case["where"],
            "pdeclared:%s%s" % ("F" if case["declare_form"] else "-", "L" if case["declare_length"] else "-")]

    def make():
        v = A.virtual(generate, form=form, length=length, cache=cache, cache_key=case["key"])
        if case["where"] == "root":
            return v
        idx = L.NumpyArray(np.arange(n if length is None else length, dtype=np.int64))
        return A.Array(L.RecordArray([v.layout, idx], ["x", "i"]))

    eager = A.Array(D.build(desc))
    if case["where"] == "field":
        eager = A.Array(L.RecordArray([eager.layout, L.NumpyArray(np.arange(n, dtype=np.int64))], ["x", "i"]))
    virt = None
    for _ in range(len(g.get("fail_calls", ())) + 2):
        try:
            virt = make()
            break
        except GeneratorFailure:
            V.clear_pending()
        except ValueError:
            if gk in ("short", "wrong_form") and run["calls"] > 0:
                return {"tags": tags + ["mismatch_detected_at_construction"], "nontrivial": False}
            raise
    if virt is None:
        raise Violation("phantom_failure:pconstruction", "the generator's exception keeps surfacing although no further generation fails")
    declared = case["declare_form"] and case["declare_length"]
    esrc, vsrc, lazy = {-1: eager}, {-1: virt}, {-1: declared}
    compared = detected = 0
    for j, st_ in enumerate(case["steps"]):
        src, spec = st_["src"], st_["spec"]
        op = spec["op"]
        if src not in esrc:
            tags.append("pstep:source_unavailable")
            continue
        what = "ak.virtual:" + op
        ek, emsg, ev, eres = pattempt(lambda: papply(A, esrc[src], spec), what)
        if ek not in ("ok", "ValueError", "IndexError", "TypeError", "KeyError", "AxisError"):
            tags.append("pstep_skipped:eager_" + ek)
            continue
        tags.append("pop:" + op)
        before = run["calls"]
        tries = 0
        while True:
            tries += 1
            during = {}

            def do():
                r = papply(A, vsrc[src], spec)
                during["calls"] = run["calls"] - before
                return r
            vk, vmsg, vv, vres = pattempt(do, what)
            if tries == 1:
                opcalls = during.get("calls", run["calls"] - before)
            if vk != "GeneratorFailure":
                break
            V.clear_pending()
            if gk != "raises" or tries > len(g["fail_calls"]) + 1:
                raise Violation("phantom_failure:p%s|%s" % (op, label), "the generator's exception surfaced although no generation failed in this attempt")
        V.clear_pending()
        if vk == "EmulationGap":
            tags.append("pstep_skipped:emulation_gap")
            continue
        islazy = op in LAZY_P or (op == "range" and spec["step"] in (None, 1))
        if lazy.get(src) and islazy and opcalls:
            raise Violation("lazy:p%s|%s" % (op, label), "%s on ak.virtual(..., form=, length=) invoked the generator %d time(s)" % (op, opcalls),
                            expected=0, observed=opcalls)
        if gk in ("short", "wrong_form"):
            ran = run["calls"] - before
            if ran > 0:
                if vk != "ValueError":
                    raise Violation("unenforced:p%s|%s" % (gk, op), "the generator ran %d time(s) returning an array that contradicts its declared %s, but %s ended in %s"
                                    % (ran, "form" if gk == "wrong_form" else "length", op, vk), expected="ValueError",
                                    observed=[vk, vmsg if vk != "ok" else M.jsonable(vv)])
                detected += 1
                tags.append("pmismatch_detected")
            elif case["where"] == "root" and vk == "ok" and op not in NO_DATA_P and not islazy:
                raise Violation("unenforced:p%s|%s" % (gk, op), "%s read data although the only array the generator makes contradicts its declaration and it did not run" % op,
                                expected="ValueError", observed=[vk, M.jsonable(vv)])
            continue
        if vk == "Unreadable":
            raise Violation("unevaluable:p%s|%s" % (op, label), "the virtual twin's result of %s cannot be read: %s" % (op, vmsg), observed=vmsg)
        if vk != ek and vk != "ok" and ek != "ok":
            tags.append("perror_class_differs")
            continue
        if vk != ek:
            raise Violation("errorclass:p%s|%s" % (op, label), "%s: eager twin gives %s, virtual twin gives %s" % (op, ek, vk),
                            expected=[ek, emsg if ek != "ok" else M.jsonable(ev)], observed=[vk, vmsg if vk != "ok" else M.jsonable(vv)])
        if vk != "ok":
            tags.append("poutcome:" + vk)
            continue
        if not M.same_value(ev, vv):
            raise Violation("value:p%s|%s" % (op, label), "%s differs between ak.virtual and the eager array" % op, expected=M.jsonable(ev), observed=M.jsonable(vv))
        compared += 1
        if op == "range" and isinstance(eres, A.Array) and isinstance(vres, A.Array):
            esrc[j], vsrc[j] = eres, vres
            lazy[j] = bool(lazy.get(src)) and spec["step"] in (None, 1)
    if mapping is not None:
        run["quiet"] = True
        for key, value in list(dict.items(mapping)):
            try:
                got = D.value_of(value)[1]
            except ValueError:
                if gk in ("short", "wrong_form"):
                    continue
                raise
            if not M.same_value(got, vals):
                raise Violation("cache:pstale|" + label, "the cache entry of ak.virtual is not the array its generator makes", expected=M.jsonable(vals), observed=M.jsonable(got))
    regenerated = run["calls"] >= 2
    tags += (["pregenerated"] if regenerated else []) + (["pevicted"] if run["evictions"] else []) + (["pgeneration_failed"] if run["failures"] else [])
    return {"tags": tags, "nontrivial": (regenerated and compared > 0) or detected > 0, "sample_class": "pvirtual:%s:%s" % (ck, gk),
            "counts": {"psteps_compared": compared, "pgenerator_calls": run["calls"]}}


def run_ppartition(case):
    A = P.ak()
    pieces = case["pieces"]
    T = M.decode(pieces[0])[0]
    vals = []
    stops = []
    for d in pieces:
        vals.extend(M.decode(d)[1])
        stops.append(len(vals))
    part = A.partitioned([A.Array(D.build(d)) for d in pieces])
    eager = A.Array(D.build(gen.canonical(T, vals)))
    tags = (["part:ppartition", "ppartitions:%d" % len(pieces), "ppieces:" + ("encoded" if case.get("encoded") else "canonical")]
            + (["pempty_partition"] if any(M.length_of(d) == 0 for d in pieces) else []))
    nonempty = sum(1 for d in pieces if M.length_of(d) > 0)
    if not isinstance(part.layout, A.partition.PartitionedArray):
        raise Violation("ppartition:construction", "ak.partitioned did not make a PartitionedArray", observed=type(part.layout).__name__)
    got = pread(part, "ak.partitioned")
    if not M.same_value(got, vals):
        raise Violation("ppartition:value|construction", "ak.partitioned differs from the concatenated value", expected=M.jsonable(vals), observed=M.jsonable(got))
    esrc, psrc = {-1: eager}, {-1: part}
    unordered_flatten = "'record'" in repr(T) or "'union'" in repr(T)
    compared = 0
    nontrivial = False
    for j, st_ in enumerate(case["steps"]):
        src, spec = st_["src"], st_["spec"]
        op = spec["op"]
        if src not in esrc:
            tags.append("pstep:source_unavailable")
            continue
        what = "ak.partitioned:" + op
        ek, emsg, ev, eres = pattempt(lambda: papply(A, esrc[src], spec), what)
        if ek not in ("ok", "ValueError", "IndexError", "TypeError", "KeyError", "AxisError"):
            tags.append("pstep_skipped:eager_" + ek)
            continue
        tags.append("qop:" + op)
        vk, vmsg, vv, vres = pattempt(lambda: papply(A, psrc[src], spec), what)
        if vk == "EmulationGap":
            tags.append("pstep_skipped:emulation_gap")
            continue
        if vk == "Unreadable":
            raise Violation("unevaluable:q%s" % op, "the partitioned twin's result of %s cannot be read: %s" % (op, vmsg), observed=vmsg)
        if vk != ek and vk != "ok" and ek != "ok":
            tags.append("perror_class_differs")
            continue
        if vk != ek:
            raise Violation("errorclass:q%s" % op, "%s: concatenated array gives %s, partitioned array gives %s" % (op, ek, vk),
                            expected=[ek, emsg if ek != "ok" else M.jsonable(ev)], observed=[vk, vmsg if vk != "ok" else M.jsonable(vv)])
        if vk != "ok":
            tags.append("poutcome:" + vk)
            continue
        if op == "flatten" and spec["axis"] is None and unordered_flatten and isinstance(ev, list) and isinstance(vv, list):
            # the order in which ak.flatten(axis=None) lists the fields of records / the contents of unions is not specified
            ev, vv = sorted(ev, key=repr), sorted(vv, key=repr)
        if op == "type":
            # the type string of a partitioned array after merging pieces is a matter of merge (regular dimensions become var, unions are
            # not simplified), not of the value the statement speaks about: both twins must answer, the strings are not compared
            tags.append("ptype_not_compared")
            compared += 1
            continue
        if not M.same_value(ev, vv):
            raise Violation("value:q%s" % op, "%s differs between the partitioned and the concatenated array" % op, expected=M.jsonable(ev), observed=M.jsonable(vv))
        compared += 1
        if op == "repartition" and spec["lengths"] is not None:
            lens = spec["lengths"]
            want = [x for x in ([lens] * (len(esrc[src]) // lens) + ([len(esrc[src]) % lens] if len(esrc[src]) % lens else []) if isinstance(lens, int) else lens) if x != 0]
            have = A.partitions(vres)
            if have is not None and [x for x in have if x != 0] != want and len(esrc[src]) > 0:
                raise Violation("ppartition:lengths|repartition", "ak.repartition(%r) gives other partition lengths" % (lens,), expected=want, observed=have)
        if nonempty > 1 and op in ("at", "range", "index", "mask", "sum", "num", "flatten", "add1", "to_json", "repartition", "to_list", "concat_self",
                                   "concat_self_len", "concat_self_at", "pad_none", "reduce_axis", "num_axis", "sort_axis"):
            nontrivial = True
        if op in ("range", "repartition", "concat_self") and isinstance(eres, A.Array) and isinstance(vres, A.Array):
            esrc[j], psrc[j] = eres, vres
    return {"tags": tags, "nontrivial": nontrivial and compared > 0, "sample_class": "ppartition:%d" % len(pieces), "counts": {"qsteps_compared": compared}}
