"""C09 - missing values: pad, fill and option-encoding conversions touch exactly the None positions (tier L)."""
from akgen import gen
from akmodel import core as M
from checks import modelbased

MANIFEST = {
    "technique": "model-based property testing (Hypothesis): pad/fill reference functions and option-encoding round trips vs rpad, rpad_and_clip, fillna and toIndexedOptionArray64/toByteMaskedArray/simplify on generated encodings",
    "level_text": "Generated-input exploration: arrays with options at any level in all five encodings (negative index, byte mask of either polarity with non-0/1 bytes, bit mask in both bit orders and polarities with lengths that are not multiples of 8 and arbitrary padding bits, unmasked) x target 0..5 x axis x clip; rpad/rpad_and_clip/fillna must equal the reference functions and every conversion between encodings must preserve the decoded value. Held on everything generated outside the recorded known findings.",
    "level_note": "Trusted: akmodel.ops (rpad/fillna), akmodel.decode (which states the five encodings' meaning independently of the C++), the /verif bridge. ak.pad_none/fill_none(axis)/is_none/mask are Python-level.",
}
RULE = ("case = (physical description with options, rpad|rpad_and_clip|fillna|convert, arguments); expected = reference function on the decoded value; "
        "non-trivial = the array holds >= 1 None and >= 1 non-None and the result is non-empty; distinct by hash of the case")
ASSUMPTIONS = ["Content::fillna fills the first option level on each path (ak.fill_none applies it level by level)"]
CFG = gen.Cfg(max_depth=3, leaf_dtypes=("int64", "float64", "bool"), strings=False, unknown=False, unions=False, zero_field_records=False)


def _nontrivial(T, vals, desc, spec):
    s = repr(vals)
    return "None" in s


modelbased.install(globals(), "C09", ["rpad", "rpad_and_clip", "fillna", "optconvert"], CFG, nontrivial=_nontrivial)
