"""C09 - missing values: pad, fill and option-encoding conversions touch exactly the None positions (tier L)."""
from akgen import gen
from akmodel import core as M
from checks import modelbased

MANIFEST = {
    "technique": "model-based property testing (Hypothesis): pad/fill reference functions and option-encoding round trips vs rpad, rpad_and_clip, fillna and toIndexedOptionArray64/toByteMaskedArray/simplify on generated encodings",
    "level_text": "Generated-input exploration: arrays with options at any level in all five encodings (negative index, byte mask of either polarity with non-0/1 bytes, bit mask in both bit orders and polarities with lengths that are not multiples of 8 and arbitrary padding bits, unmasked) x target 0..5 x axis x clip; rpad/rpad_and_clip/fillna must equal the reference functions and every conversion between encodings must preserve the decoded value. Held on everything generated outside the recorded known findings.",
    "level_note": "Trusted: akmodel.ops (rpad/fillna), akmodel.decode (which states the five encodings' meaning independently of the C++), the /verif bridge. The Python-level part (ak.mask with a flat mask and either polarity, ak.is_none, ak.fill_none at axis 0 / None, ak.pad_none at axis 0 / 1) runs on the akshim emulation of awkward._ext; deeper axes of these functions are covered through the tier-L operations only. The Python-level part fills with numbers and with ak.Record values taken from positions 0-2 of an array of records.",
}
RULE = ("case = (physical description with options, rpad|rpad_and_clip|fillna|convert, arguments); expected = reference function on the decoded value; "
        "non-trivial = the array holds >= 1 None and >= 1 non-None and the result is non-empty; distinct by hash of the case")
ASSUMPTIONS = ["Content::fillna fills the first option level on each path (ak.fill_none applies it level by level)"]
CFG = gen.Cfg(max_depth=3, leaf_dtypes=("int64", "float64", "bool"), strings=False, unknown=False, unions=False, zero_field_records=False)


def _nontrivial(T, vals, desc, spec):
    s = repr(vals)
    return "None" in s


modelbased.install(globals(), "C09", ["rpad", "rpad_and_clip", "fillna", "optconvert"], CFG, nontrivial=_nontrivial)


# ---- Python-level part: ak.mask / ak.is_none / ak.fill_none / ak.pad_none on the tier-P emulation (added after the seeded change
# C09-c - ByteMaskedArray::simplify_optiontype forgetting IndexedOptionArray32 contents, reached through ak.mask - was missed by the
# tier-L part, whose inputs are valid layouts and therefore never have an option directly inside an option)
from hypothesis import strategies as st  # noqa: E402

from checks import pcommon as P  # noqa: E402
from vlib.common import Violation  # noqa: E402

_l9_strategy, _l9_run_case, _l9_case_label, _l9_pre_exclude, _l9_setup = strategy, run_case, case_label, pre_exclude, setup  # noqa: F821
P9CFG = gen.Cfg(max_depth=2, leaf_dtypes=("int64", "float64"), records=False, unions=False, strings=False, unknown=False, numpy_nd=False,
                max_len=5, max_list=3)


@st.composite
def _p9_cases(draw):
    T = draw(gen.types(P9CFG))
    vals = draw(gen.values(T, P9CFG))
    desc = draw(gen.encode(T, vals, P9CFG))
    fn = draw(st.sampled_from(["mask", "mask", "is_none", "fill_none", "pad_none"]))
    case = {"part": "P", "fn": fn, "desc": desc}
    if fn == "mask":
        case["m"] = [draw(st.booleans()) for _ in vals]
        case["valid_when"] = draw(st.booleans())
        case["then"] = draw(st.sampled_from(["none", "is_none", "fill_none"]))
    elif fn == "fill_none":
        # numbers, and a record taken from position k of an array of records (added after the seeded change C09-h - fill_none using record 0
        # of that array instead of the given one - was missed)
        case["value"] = draw(st.sampled_from([0, -1, 2.5, {"rec": 0}, {"rec": 1}, {"rec": 2}]))
        case["axis"] = draw(st.sampled_from([0, None]))
    elif fn == "pad_none":
        case["target"] = draw(st.integers(0, 4))
        case["clip"] = draw(st.booleans())
        case["axis"] = draw(st.sampled_from([0, 1]))
    return case


def strategy(tier):  # noqa: F811
    return st.one_of(_l9_strategy(tier), _l9_strategy(tier), _l9_strategy(tier), _l9_strategy(tier), _l9_strategy(tier), _p9_cases())


def case_label(case):  # noqa: F811
    return ("P:" + case["fn"]) if case.get("part") == "P" else _l9_case_label(case)


def pre_exclude(case):  # noqa: F811
    return None if case.get("part") == "P" else _l9_pre_exclude(case)


def setup(flavour, tier):  # noqa: F811
    _l9_setup(flavour, tier)
    P.ak()


def _fill_all(v, x):
    if v is None:
        return x
    if isinstance(v, list):
        return [_fill_all(e, x) for e in v]
    return v


def _p9_run(case):
    A = P.ak()
    buffers = []
    a = P.harray(case["desc"], buffers)
    snaps = P.snapshot(buffers)
    T, V = M.decode(case["desc"])
    fn = case["fn"]
    tags = ["P:" + fn]
    islist = M.strip_option(T)[0] in ("list", "regular")
    if fn == "mask":
        import numpy as np
        m, vw = case["m"], case["valid_when"]
        expected = [v if (b == vw) else None for v, b in zip(V, m)]
        kind, res = P.outcome(lambda: A.mask(a, np.array(m, dtype=np.bool_), valid_when=vw))
        if kind == "ok" and case["then"] == "is_none":
            expected = [v is None for v in expected]
            kind, res = P.outcome(lambda: A.is_none(res))
            tags.append("then:is_none")
        elif kind == "ok" and case["then"] == "fill_none":
            expected = [(-7 if v is None else v) for v in expected]
            kind, res = P.outcome(lambda: A.fill_none(res, -7, axis=0))
            tags.append("then:fill_none")
    elif fn == "is_none":
        expected = [v is None for v in V]
        kind, res = P.outcome(lambda: A.is_none(a))
    elif fn == "fill_none":
        x = case["value"]
        xv = x
        if isinstance(x, dict):
            xv = A.Array([{"q": 10}, {"q": 20}, {"q": 30}])[x["rec"]]
            x = {"q": 10 * (x["rec"] + 1)}
            tags.append("value:record")
        expected = _fill_all(V, x) if case["axis"] is None else [(x if v is None else v) for v in V]
        kind, res = P.outcome(lambda: A.fill_none(a, xv, axis=case["axis"]))
    else:
        t, clip, axis = case["target"], case["clip"], case["axis"]
        if axis == 0:
            expected = (V[:t] if clip else list(V)) + [None] * max(0, t - len(V))
        else:
            if not islist:
                return {"discarded": "pad_none(axis=1) on an array without lists"}
            expected = [None if v is None else ((v[:t] if clip else list(v)) + [None] * max(0, t - len(v))) for v in V]
        kind, res = P.outcome(lambda: A.pad_none(a, t, axis=axis, clip=clip))
        tags.append("axis:%d" % axis)
    P.check_purity(buffers, snaps, fn)
    if kind != "ok":
        raise Violation("refused:P:" + fn, "ak.%s raised %s: %s" % (fn, kind, str(res)[:300]), expected=M.jsonable(expected))
    _, got = P.read(res, fn)
    if not M.same_value(got, expected):
        raise Violation("value:P:" + fn, "ak.%s differs from the reference" % fn, expected=M.jsonable(expected), observed=M.jsonable(got))
    feats = gen.features(case["desc"]) & {"IndexedOptionArray32", "IndexedOptionArray64", "ByteMaskedArray", "BitMaskedArray", "UnmaskedArray"}
    return {"tags": tags + sorted(feats), "nontrivial": bool(V) and ("None" in repr(expected) or "True" in repr(expected) or fn in ("fill_none",)), "sample_class": "P:" + fn}


def run_case(case):  # noqa: F811
    if case.get("part") == "P":
        return _p9_run(case)
    return _l9_run_case(case)
