"""C05 - flatten, num, local_index obey the list-structure laws (tier L; unflatten / axis=None are Python-level)."""
from akgen import gen
from akmodel import core as M
from checks import modelbased

MANIFEST = {
    "technique": "model-based property testing (Hypothesis): list-structure reference functions on nested Python values vs num / offsets_and_flattened / localindex on generated physical encodings",
    "level_text": "Generated-input exploration: arrays of every node class (records and unions above and below the axis, options, regular and variable lists, 32/U32/64-bit indexes, non-zero offsets, gaps, permuted ListArrays) x every axis (both signs, in and out of range); num, flatten and localindex read back through an independent evaluator must equal direct reference functions on the decoded value, which also pins 'only the addressed level changes'. Held on everything generated outside the recorded known findings.",
    "level_note": "Trusted: akmodel.ops (num/flatten/localindex), akmodel.decode, the /verif bridge. ak.unflatten, ak.ravel and flatten(axis=None) live in the Python layer and are checked only if tier P is available (see C04/C16 notes).",
}
RULE = ("case = (physical description, one of num/flatten/localindex, axis); expected = akmodel.ops on the decoded value (error for an axis beyond the depth); "
        "non-trivial = result non-empty and (axis >= 2 or negative, or an empty/missing list at the axis, or a non-canonical node); distinct by hash of the case")
ASSUMPTIONS = ["records are transparent for axes; a negative axis on branches of different depth is resolved per branch, as the docstrings describe"]
CFG = gen.Cfg(max_depth=3, leaf_dtypes=("int64", "float64", "bool"), strings=False, unknown=False, zero_field_records=False)


def _nontrivial(T, vals, desc, spec):
    return spec["axis"] >= 2 or spec["axis"] < 0 or gen.noncanonical(desc)


modelbased.install(globals(), "C05", ["num", "flatten", "localindex"], CFG, nontrivial=_nontrivial)
