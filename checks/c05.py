"""C05 - flatten, num, local_index obey the list-structure laws (tier L; unflatten / axis=None are Python-level)."""
from akgen import gen
from akmodel import core as M
from checks import modelbased

MANIFEST = {
    "technique": "model-based property testing (Hypothesis): list-structure reference functions on nested Python values vs num / offsets_and_flattened / localindex on generated physical encodings",
    "level_text": "Generated-input exploration: arrays of every node class (records and unions above and below the axis, options, regular and variable lists, 32/U32/64-bit indexes, non-zero offsets, gaps, permuted ListArrays) x every axis (both signs, in and out of range); num, flatten and localindex read back through an independent evaluator must equal direct reference functions on the decoded value, which also pins 'only the addressed level changes'. Held on everything generated outside the recorded known findings.",
    "level_note": "Trusted: akmodel.ops (num/flatten/localindex), akmodel.decode, the /verif bridge. The Python-level part (ak.flatten at axis 0, 1 and None, ak.ravel, ak.num and ak.local_index at axis 1, unflatten(flatten(x), num(x)) at axis 1; no records or unions) runs on the akshim emulation of awkward._ext.",
}
RULE = ("case = (physical description, one of num/flatten/localindex, axis); expected = akmodel.ops on the decoded value (error for an axis beyond the depth); "
        "non-trivial = result non-empty and (axis >= 2 or negative, or an empty/missing list at the axis, or a non-canonical node); distinct by hash of the case")
ASSUMPTIONS = ["records are transparent for axes; a negative axis on branches of different depth is resolved per branch, as the docstrings describe"]
CFG = gen.Cfg(max_depth=3, leaf_dtypes=("int64", "float64", "bool"), strings=False, unknown=False, zero_field_records=False)


def _nontrivial(T, vals, desc, spec):
    return spec["axis"] >= 2 or spec["axis"] < 0 or gen.noncanonical(desc)


modelbased.install(globals(), "C05", ["num", "flatten", "localindex"], CFG, nontrivial=_nontrivial)


# ---- Python-level part: ak.flatten (axis 0, 1, None), ak.ravel, ak.num, ak.local_index and the ak.unflatten round trip on the
# tier-P emulation (added after the seeded change C05-c - ak.flatten(axis=0) no longer removing missing entries below an
# IndexedArray - was missed: the tier-L part above reaches the C++ methods only)
from hypothesis import strategies as st  # noqa: E402
import numpy as np  # noqa: E402

from checks import pcommon as P  # noqa: E402
from vlib.common import Violation  # noqa: E402

_l5_strategy, _l5_run_case, _l5_case_label, _l5_pre_exclude, _l5_setup = strategy, run_case, case_label, pre_exclude, setup  # noqa: F821
P5CFG = gen.Cfg(max_depth=3, leaf_dtypes=("int64", "float64"), records=False, unions=False, strings=False, unknown=False, numpy_nd=False,
                max_len=5, max_list=3)


@st.composite
def _p5_cases(draw):
    T = draw(gen.types(P5CFG))
    vals = draw(gen.values(T, P5CFG))
    fn = draw(st.sampled_from(["flatten0", "flatten0", "flatten0_union", "flatten1", "flatten_none", "ravel", "num1", "local_index1", "unflatten", "unflatten_axis1",
                               "unflatten_axis1", "unflatten_split", "unflatten_split"]))
    if fn == "unflatten_split":
        # unflatten(y, counts, axis=1) applied directly to a generated encoding of lists (possibly missing), the counts cutting every list into
        # pieces of at least one element: the pieces, in order, are the expected value
        X = draw(st.sampled_from([["prim", "int64"], ["prim", "float64"]]))
        T2 = ["list", X]
        if draw(st.integers(0, 2)) > 0:
            T2 = ["option", T2]
        vals2 = draw(gen.values(T2, P5CFG))
        counts, pieces = [], []
        for y in vals2:
            if y is None:
                pieces.append(None)
                continue
            out, i = [], 0
            while i < len(y):
                k = draw(st.integers(1, len(y) - i))
                out.append(y[i:i + k])
                counts.append(k)
                i += k
            pieces.append(out)
        return {"part": "P", "fn": fn, "desc": draw(gen.encode(T2, vals2, P5CFG)), "counts": counts, "pieces": pieces}
    if fn == "unflatten_axis1":
        # unflatten(flatten(x, axis=2), the lengths of the lists at axis 2, axis=1) == x for lists of lists of lists without missing or empty
        # lists at the innermost split level (added after the seeded change C05-f - unflatten at axis > 0 below a reordering option node -
        # was missed: only axis=0 round trips were generated)
        X = draw(st.sampled_from([["prim", "int64"], ["prim", "float64"], ["option", ["prim", "int64"]]]))
        T3 = ["list", ["list", X]]
        if draw(st.booleans()):
            T3 = ["option", T3]

        def inner():
            return [draw(gen.value(X, P5CFG)) for _ in range(draw(st.integers(1, 3)))]

        def middle():
            if T3[0] == "option" and draw(st.integers(0, 4)) == 0:
                return None
            return [inner() for _ in range(draw(st.integers(0, 3)))]
        vals3 = [middle() for _ in range(draw(st.integers(0, 5)))]
        return {"part": "P", "fn": fn, "desc": draw(gen.encode(T3, vals3, P5CFG))}
    if fn == "flatten0_union":
        # a union whose members carry the missing values themselves (valid: only option directly inside option/indexed is not), seen
        # through a reordering IndexedArray - the encoding the generator's type-directed unions never produce
        TA, TB = ["option", ["list", ["prim", "int64"]]], ["option", ["prim", "float64"]]
        va, vb = draw(gen.values(TA, P5CFG)), draw(gen.values(TB, P5CFG))
        tags = list(draw(st.permutations([0] * len(va) + [1] * len(vb))))
        index, c = [], [0, 0]
        for t in tags:
            index.append(c[t])
            c[t] += 1
        u = {"class": "UnionArray8_64", "tags": tags, "index": index, "contents": [draw(gen.encode(TA, va, P5CFG)), draw(gen.encode(TB, vb, P5CFG))]}
        n = len(tags)
        if n and draw(st.booleans()):
            u = {"class": draw(st.sampled_from(["IndexedArray32", "IndexedArrayU32", "IndexedArray64"])),
                 "index": draw(st.lists(st.integers(0, n - 1), max_size=n + 2)), "content": u}
        return {"part": "P", "fn": "flatten0", "desc": u}
    return {"part": "P", "fn": fn, "desc": draw(gen.encode(T, vals, P5CFG))}


def strategy(tier):  # noqa: F811
    return st.one_of(_l5_strategy(tier), _l5_strategy(tier), _l5_strategy(tier), _l5_strategy(tier), _l5_strategy(tier), _p5_cases())


def case_label(case):  # noqa: F811
    return ("P:" + case["fn"]) if case.get("part") == "P" else _l5_case_label(case)


def pre_exclude(case):  # noqa: F811
    return None if case.get("part") == "P" else _l5_pre_exclude(case)


def setup(flavour, tier):  # noqa: F811
    _l5_setup(flavour, tier)
    P.ak()


def _leaves(v, out):
    if v is None:
        return out
    if isinstance(v, list):
        for e in v:
            _leaves(e, out)
    else:
        out.append(v)
    return out


def _p5_run(case):
    A = P.ak()
    buffers = []
    a = P.harray(case["desc"], buffers)
    snaps = P.snapshot(buffers)
    T, V = M.decode(case["desc"])
    fn = case["fn"]
    islist = M.strip_option(T)[0] in ("list", "regular")
    if fn == "unflatten_split":
        expected = case["pieces"]
        kind, res = P.outcome(lambda: A.unflatten(a, np.array(case["counts"], dtype=np.int64), axis=1))
    elif fn == "unflatten_axis1":
        expected = V
        counts = np.array([len(z) for y in V if y is not None for z in y], dtype=np.int64)
        kind, res = P.outcome(lambda: A.unflatten(A.flatten(a, axis=2), counts, axis=1))
    elif fn == "flatten0":
        expected = [v for v in V if v is not None]
        kind, res = P.outcome(lambda: A.flatten(a, axis=0))
    elif fn in ("flatten_none", "ravel"):
        expected = _leaves(V, [])
        kind, res = P.outcome((lambda: A.flatten(a, axis=None)) if fn == "flatten_none" else (lambda: A.ravel(a)))
    else:
        if not islist:
            return {"discarded": "axis=1 operations on an array without lists"}
        if fn == "flatten1":
            expected = [e for v in V if v is not None for e in v]
            kind, res = P.outcome(lambda: A.flatten(a, axis=1))
        elif fn == "num1":
            expected = [None if v is None else len(v) for v in V]
            kind, res = P.outcome(lambda: A.num(a, axis=1))
        elif fn == "local_index1":
            expected = [None if v is None else list(range(len(v))) for v in V]
            kind, res = P.outcome(lambda: A.local_index(a, axis=1))
        else:
            if any(v is None for v in V):
                return {"discarded": "unflatten(flatten(x), num(x)) is stated for arrays without missing lists at that level"}
            expected = V
            kind, res = P.outcome(lambda: A.unflatten(A.flatten(a, axis=1), A.num(a, axis=1)))
    P.check_purity(buffers, snaps, fn)
    if kind != "ok":
        raise Violation("refused:P:" + fn, "ak.%s raised %s: %s" % (fn, kind, str(res)[:300]), expected=M.jsonable(expected))
    _, got = P.read(res, fn)
    if not M.same_value(got, expected):
        raise Violation("value:P:" + fn, "ak.%s differs from the reference" % fn, expected=M.jsonable(expected), observed=M.jsonable(got))
    return {"tags": ["P:" + fn], "nontrivial": bool(V) and gen.noncanonical(case["desc"]), "sample_class": "P:" + fn}


def run_case(case):  # noqa: F811
    if case.get("part") == "P":
        return _p5_run(case)
    return _l5_run_case(case)
