"""Predicates for the findings recorded in /verif/known_findings.jsonl.

A predicate sees (case, violation dict).  Violations of the model-based and metamorphic checks carry a bucket
'<kind>:<op>|<region>' where <region> is checks.modelcheck.region(): depth (dN), axis position (inner / outerK),
irregularities (empty_below, empty_at_or_above, missing_list, none_leaf) and type features (rec, union, regular, str,
unknown).  Predicates are therefore statements about *where* a defect lives, written narrowly enough that a failure
outside that region still fails the run.

CRASH_EXCLUSIONS lists the regions whose known defect kills the process: those cases are not executed (counted as
excluded_by_finding in the evidence) so that campaigns continue behind them.
"""
import re

from akmodel import core as M

PREDICATES = {}
CRASH_EXCLUSIONS = []   # list of (name, fn(spec, desc) -> bool)


def known(name):
    def deco(fn):
        PREDICATES[name] = fn
        return fn
    return deco


def crash_exclusion(name):
    def deco(fn):
        CRASH_EXCLUSIONS.append((name, fn))
        return fn
    return deco


def pre_exclude(spec, desc):
    for name, fn in CRASH_EXCLUSIONS:
        try:
            if fn(spec, desc):
                return name
        except M.Invalid:
            pass
    return None


def _bucket(vio):
    return vio.get("bucket", "")


def _parts(vio):
    """(kind, op, set of region parts)"""
    b = _bucket(vio)
    kind = b.split(":")[0]
    rest = b[len(kind) + 1:]
    op, _, reg = rest.partition("|")
    reg = reg.split("#")[0]
    return kind, op, set(reg.split("+")) if reg else set()


def _levels_below_axis(parts):
    d = [int(p[1:]) for p in parts if re.fullmatch(r"d\d+", p)]
    a = [int(p[5:]) for p in parts if re.fullmatch(r"outer\d+", p)]
    if not d or not a:
        return None
    return d[0] - 1 - a[0]


def region_of(spec, desc):
    from checks.modelcheck import region
    T, vals = M.decode(desc)
    return set(region(T, vals, spec).split("+"))


# ------------------------------------------------------------------ reducers at a non-innermost axis
@known("reduce_nonlocal_deep")
def _(case, vio):
    kind, op, parts = _parts(vio)
    lb = _levels_below_axis(parts)
    return op.startswith("reduce") and lb is not None and lb >= 2


@crash_exclusion("reduce_nonlocal_deep")
def _(spec, desc):
    if spec["op"] != "reduce":
        return False
    lb = _levels_below_axis(region_of(spec, desc))
    return lb is not None and lb >= 2


@known("reduce_nonlocal_irregular")
def _(case, vio):
    kind, op, parts = _parts(vio)
    lb = _levels_below_axis(parts)
    return (op.startswith("reduce") and lb == 1 and bool(parts & {"empty_below", "empty_at_or_above", "missing_list", "regular"})
            and kind in ("value", "refused", "closure", "crash", "errorclass"))


@known("argminmax_positions_nonlocal")
def _(case, vio):
    kind, op, parts = _parts(vio)
    lb = _levels_below_axis(parts)
    return op in ("reduce:argmin", "reduce:argmax") and lb is not None and lb >= 1 and kind in ("value", "errorclass")


# ------------------------------------------------------------------ structural helpers on descriptions
def descs_of(case):
    return [case[k] for k in ("desc", "a", "b") if k in case]


def any_node(d, pred):
    if pred(d):
        return True
    if "content" in d and any_node(d["content"], pred):
        return True
    return any(any_node(c, pred) for c in d.get("contents", []))


def has_nd_zero(d):
    return any_node(d, lambda n: n["class"] == "NumpyArray" and len(n["shape"]) > 1 and 0 in n["shape"][1:])


@known("num_axis0_recordarray")
def _(case, vio):
    kind, op, parts = _parts(vio)
    return op == "num" and kind in ("value", "resultkind") and any(d["class"] == "RecordArray" for d in descs_of(case)) and case["spec"].get("axis") is not None


@known("negative_axis_through_records")
def _(case, vio):
    kind, op, parts = _parts(vio)
    ax = case["spec"].get("axis")
    return ax is not None and ax < 0 and bool(parts & {"rec", "union"})


def masked_over_record(d):
    return any_node(d, lambda n: n["class"] in ("UnmaskedArray", "ByteMaskedArray", "BitMaskedArray") and n["content"]["class"] == "RecordArray")


@known("masked_lazy_carry")
def _(case, vio):
    return vio.get("clause") == "C11-closure" and "contains IndexedArray64" in vio.get("message", "") and \
        any(masked_over_record(d) for d in descs_of(case))


@known("fillna_unmasked_descends")
def _(case, vio):
    kind, op, parts = _parts(vio)
    return op == "fillna" and kind == "value" and any(any_node(d, lambda n: n["class"] == "UnmaskedArray") for d in descs_of(case))


@known("string_internals_exposed")
def _(case, vio):
    return vio.get("clause") == "C11-closure" and ("must be directly inside" in vio.get("message", "") or "must directly contain" in vio.get("message", "")
                                                   or "must be one-dimensional" in vio.get("message", ""))


@known("argsort_with_missing")
def _(case, vio):
    kind, op, parts = _parts(vio)
    opt = any(any_node(d, lambda n: n["class"].startswith(("IndexedOption", "ByteMasked", "BitMasked", "Unmasked"))) for d in descs_of(case))
    return op in ("argsort", "sort") and (bool(parts & {"none_leaf", "missing_list"}) or opt) and kind in ("value", "closure", "refused", "errorclass")


@known("sort_nonlocal_deep")
def _(case, vio):
    kind, op, parts = _parts(vio)
    lb = _levels_below_axis(parts)
    return op in ("sort", "argsort") and lb is not None and lb >= 2 and kind in ("crash", "value", "closure", "refused", "errorclass")


@crash_exclusion("sort_nonlocal_deep")
def _(spec, desc):
    if spec["op"] not in ("sort", "argsort"):
        return False
    lb = _levels_below_axis(region_of(spec, desc))
    return lb is not None and lb >= 2


@known("argsort_positions_nonlocal")
def _(case, vio):
    kind, op, parts = _parts(vio)
    lb = _levels_below_axis(parts)
    return op == "argsort" and lb is not None and lb >= 1 and kind in ("value", "errorclass")


def has_zero_field_record(d):
    return any_node(d, lambda n: n["class"] == "RecordArray" and len(n["contents"]) == 0)


@known("zero_field_records")
def _(case, vio):
    return any(has_zero_field_record(d) for d in descs_of(case))


def empty_advanced(spec):
    if spec.get("op", "getitem") != "getitem":
        return False
    for it in spec.get("items", []):
        if it.get("k") == "array" and _size(it["data"]) == 0:
            return True
        if it.get("k") == "mask" and not _any_true(it["data"]):
            return True
    return False


def _size(x):
    if isinstance(x, list):
        return sum(_size(e) for e in x) if x and isinstance(x[0], list) else len(x)
    return 1


def _any_true(x):
    if isinstance(x, list):
        return any(_any_true(e) for e in x)
    return bool(x)


@known("empty_advanced_index")
def _(case, vio):
    return empty_advanced(case.get("spec", {})) or empty_advanced({"items": case.get("items", [])})


@known("sort_records")
def _(case, vio):
    kind, op, parts = _parts(vio)
    return op in ("sort", "argsort") and "rec" in parts
