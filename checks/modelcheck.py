"""Generic 'reference model vs library' runner used by C01, C03, C05, C06, C07, C09."""
import numpy as np

from akmodel import core as M
from akmodel import ops as MO
from akshim import layout as L
from checks import ops
from checks.common import run_checked, classpath, plain
from vlib.common import Violation, HarnessError


def model_eval(T, vals, spec, rootclass=""):
    """('value', v) | ('error', msg) | ('unsupported', why)"""
    op = spec["op"]
    try:
        if op == "num":
            return ("value", MO.num(T, vals, spec["axis"])[1])
        if op == "flatten":
            return ("value", MO.flatten(T, vals, spec["axis"])[1])
        if op == "localindex":
            return ("value", MO.localindex(T, vals, spec["axis"])[1])
        if op == "rpad":
            return ("value", MO.rpad(T, vals, spec["target"], spec["axis"], False)[1])
        if op == "rpad_and_clip":
            return ("value", MO.rpad(T, vals, spec["target"], spec["axis"], True)[1])
        if op == "combinations":
            return ("value", MO.combinations(T, vals, spec["n"], spec["replacement"], spec["axis"])[1])
        if op == "reduce":
            return ("value", MO.reduce(T, vals, spec["name"], spec["axis"], spec["mask"], spec["keepdims"])[1])
        if op in ("sort", "argsort"):
            mn, mx = M.minmax_depth(T)
            a = spec["axis"] if spec["axis"] >= 0 else mx + spec["axis"]
            if ("'string'" in repr(T) or "'bytes'" in repr(T)) and a != mx - 1 and 0 <= a < mx:
                # documented refusal: "array with strings can only be sorted with axis=-1"
                return ("unsupported", "strings sorted at a non-innermost axis (the library documents a refusal)")
            return ("value", MO.sort(T, vals, spec["axis"], spec["ascending"], op == "argsort")[1])
        if op == "fillna":
            v = spec["value"]
            vt = M.prim("float64") if isinstance(v, float) else M.prim("int64")
            return ("value", MO.fillna(T, vals, v, vt)[1])
        if op == "optconvert":
            how = spec["how"]
            isopt = T[0] == "option"
            hasmask = rootclass.startswith(("Indexed", "ByteMasked", "BitMasked", "Unmasked"))
            if how == "bytemask" and hasmask:
                return ("value", [v is None for v in vals])
            if how == "project" and isopt:
                return ("value", [v for v in vals if v is not None])
            return ("value", vals)
    except MO.ModelError as e:
        return ("error", str(e))
    except MO.Unsupported as e:
        return ("unsupported", str(e))
    raise HarnessError("no model for " + op)


def oplabel(spec):
    return spec["op"] + (":" + spec["name"] if spec["op"] == "reduce" else "")


def compare_with_model(desc, spec, strict_bool=True):
    """returns (outcome tag, nonempty) ; raises Violation on disagreement"""
    T, vals = M.decode(desc)
    kind, expected = model_eval(T, vals, spec, desc["class"])
    if kind == "unsupported":
        return "unsupported:" + expected, False
    op = oplabel(spec) + "|" + region(T, vals, spec)
    try:
        lk, res, tv = run_checked(desc, spec)
    except Violation as v:
        kind_, _, rest = v.bucket.partition(":")
        detail = rest.split(":", 1)[1] if ":" in rest else ""
        v.bucket = "%s:%s" % (kind_, op) + ("#" + detail if detail else "")
        raise
    if kind == "error":
        if lk == "ok":
            raise Violation("accepted:" + op, "%s should be an error (%s) but returned data" % (op, expected),
                            expected="error: " + expected, observed=M.jsonable(tv[1]) if tv else plain(res))
        return "error_agreed", False
    if lk != "ok":
        raise Violation("refused:" + op, "%s raised %s on an input the documented semantics accept: %s" % (op, lk, str(res)[:300]),
                        expected=M.jsonable(expected), observed=[lk, str(res)[:300]])
    got = tv[1] if tv is not None else plain(res)
    if spec["op"] == "fillna":
        strict_bool = False      # Content::fillna merges bool with the numeric fill value (True -> 1); values are compared numerically
    if spec["op"] == "argsort" and not spec["stable"] and not M.same_value(got, expected):
        # unstable: any order among equal elements is right; the positions must realise the sorted values
        if _argsort_realises(T, vals, spec, got):
            return "value_agreed_modulo_ties", True
    if not M.same_value(got, expected, strict_bool=strict_bool):
        raise Violation("value:" + op, "%s differs from the reference model" % op, expected=M.jsonable(expected), observed=M.jsonable(got))
    return "value_agreed", (expected is not None and expected != [])


# ------------------------------------------------------------------ semantic regions (used in bucket names and known findings)
def _walk_lists(T, vals, lvl, visit):
    """visit(lvl, T, list_or_None) for every list value (the array itself is level 0)"""
    k = T[0]
    if k == "option":
        for v in vals:
            if v is None:
                visit(lvl, T, None)
        _walk_lists(T[1], [v for v in vals if v is not None], lvl, visit)
    elif k in ("list", "regular"):
        for v in vals:
            visit(lvl + 1, T, v)
        _walk_lists(T[1], [x for v in vals for x in v], lvl + 1, visit)
    elif k == "record":
        for i, (nm, ft) in enumerate(T[1]):
            _walk_lists(ft, [v[i] if T[2] else v[nm] for v in vals], lvl, visit)
    elif k == "union":
        from akgen.gen import member_of
        for m, mt in enumerate(T[1]):
            _walk_lists(mt, [v for v in vals if member_of(T, v) == m], lvl, visit)


def region(T, vals, spec):
    """coarse semantic region of an axis-operation case: depth, axis position, irregularities next to the axis"""
    mn, mx = M.minmax_depth(T)
    ax = spec.get("axis")
    parts = []
    parts.append("d%d" % mx if mn == mx else "dmixed")
    if ax is not None:
        a = ax if ax >= 0 else mx + ax
        if a == mx - 1:
            parts.append("inner")
        elif 0 <= a < mx - 1:
            parts.append("outer%d" % a)
        else:
            parts.append("axisoob")
        info = {"empty_below": False, "missing_list": False, "none_leaf": False, "empty_at_or_above": False}

        def visit(lvl, TT, v):
            if v is None:
                if M.strip_option(TT)[0] in ("list", "regular"):
                    info["missing_list"] = True
                else:
                    info["none_leaf"] = True
            elif len(v) == 0:
                if lvl > a:
                    info["empty_below"] = True
                else:
                    info["empty_at_or_above"] = True
        _walk_lists(T, vals, 0, visit)
        if len(vals) == 0:
            info["empty_at_or_above"] = True
        for k in sorted(info):
            if info[k]:
                parts.append(k)
    r = repr(T)
    if "'record'" in r:
        parts.append("rec")
    if "'union'" in r:
        parts.append("union")
    if "'regular'" in r:
        parts.append("regular")
    if "'string'" in r or "'bytes'" in r:
        parts.append("str")
    if "'unknown'" in r:
        parts.append("unknown")
    return "+".join(parts)


def _coords(v, prefix, out):
    if isinstance(v, list):
        for i, e in enumerate(v):
            _coords(e, prefix + (i,), out)
    else:
        out[prefix] = v


def _argsort_realises(T, vals, spec, positions):
    """do the returned positions, applied group by group along the axis, give exactly the sorted values?"""
    try:
        mn, mx = M.minmax_depth(T)
        a = spec["axis"] if spec["axis"] >= 0 else mx + spec["axis"]
        S = MO.sort(T, vals, spec["axis"], spec["ascending"], False)[1]
        X, P, Sd = {}, {}, {}
        _coords(vals, (), X)
        _coords(positions, (), P)
        _coords(S, (), Sd)
        if set(P) != set(Sd):
            return False
        groups = {}
        for c, p in P.items():
            if len(c) <= a:
                # a missing list above the leaves: must be missing in both
                if not (p is None and Sd[c] is None):
                    return False
                continue
            if not isinstance(p, int) or isinstance(p, bool):
                return False
            c2 = c[:a] + (p,) + c[a + 1:]
            if c2 not in X or not M.same_value(X[c2], Sd[c]):
                return False
            groups.setdefault(c[:a] + c[a + 1:], []).append(p)
        return all(len(set(g)) == len(g) for g in groups.values())
    except Exception:  # noqa: B902
        return False
