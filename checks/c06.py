"""C06 - sort/argsort order every list along the axis without moving data between lists (tier L)."""
from akgen import gen
from akmodel import core as M
from checks import modelbased

MANIFEST = {
    "technique": "model-based property testing (Hypothesis): grouped stable-sort reference model (NaN first, missing last, coordinates for argsort) vs sort/argsort on generated physical encodings",
    "level_text": "Generated-input exploration: numeric/bool/NaN-containing arrays and string lists with duplicates, None leaves, empty lists, all list/option encodings x axis x ascending x stable; sort must equal the reference grouped sort (a two-directional check: ordered AND a permutation of each group, since the expected output is the sorted multiset itself) and argsort must equal the stable positions when stable=True; with stable=False argsort is checked for realising the sort output. Held on everything generated outside the recorded known findings.",
    "level_note": "Trusted: akmodel.ops.sort, akmodel.decode, the /verif bridge. Missing lists at the sorted axis are outside the reference model (discarded, counted).",
}
RULE = ("case = (physical description, sort|argsort, axis, ascending, stable); expected = akmodel.ops.sort on the decoded value; "
        "non-trivial = a sorted group has >= 2 elements and the result is non-empty; distinct by hash of the case")
ASSUMPTIONS = ["NaN sorts first in both directions (the library's convention named in the statement); missing values last"]
CFG = gen.Cfg(max_depth=3, leaf_dtypes=("int64", "float64", "bool", "int32", "uint8"), records=False, unions=False, strings=True, unknown=False, nan=True,
              tuples=False, bytes_=True)


def _nontrivial(T, vals, desc, spec):
    return True


modelbased.install(globals(), "C06", ["sort", "argsort"], CFG, nontrivial=_nontrivial)
