"""C06 - sort/argsort order every list along the axis without moving data between lists (tier L)."""
from akgen import gen
from akmodel import core as M
from checks import modelbased

MANIFEST = {
    "technique": "model-based property testing (Hypothesis): grouped stable-sort reference model (NaN first, missing last, coordinates for argsort) vs sort/argsort on generated physical encodings",
    "level_text": "Generated-input exploration: numeric/bool/NaN-containing arrays and string lists with duplicates, None leaves, empty lists, all list/option encodings x axis x ascending x stable; sort must equal the reference grouped sort (a two-directional check: ordered AND a permutation of each group, since the expected output is the sorted multiset itself) and argsort must equal the stable positions when stable=True; with stable=False argsort is checked for realising the sort output. Held on everything generated outside the recorded known findings.",
    "level_note": "Trusted: akmodel.ops.sort, akmodel.decode, the /verif bridge. Missing lists at the sorted axis are outside the reference model (discarded, counted). Besides the type-directed cases there are two added families: groups of 17-48 elements over a 3-4-value alphabet (stability beyond libstdc++'s insertion-sort threshold) and every numeric leaf dtype with values at the ends of its range.",
}
RULE = ("case = (physical description, sort|argsort, axis, ascending, stable); expected = akmodel.ops.sort on the decoded value; "
        "non-trivial = a sorted group has >= 2 elements and the result is non-empty; distinct by hash of the case")
ASSUMPTIONS = ["NaN sorts first in both directions (the library's convention named in the statement); missing values last"]
CFG = gen.Cfg(max_depth=3, leaf_dtypes=("int64", "float64", "bool", "int32", "uint8"), records=False, unions=False, strings=True, unknown=False, nan=True,
              tuples=False, bytes_=True)


def _nontrivial(T, vals, desc, spec):
    return True


modelbased.install(globals(), "C06", ["sort", "argsort"], CFG, nontrivial=_nontrivial)


# ---- long groups with many ties (added after the seeded change C06-a was missed: libstdc++'s std::sort is an insertion
# sort - hence stable - for ranges of at most 16 elements, so instability only shows in groups longer than that)
from hypothesis import strategies as st  # noqa: E402

_short_strategy = strategy  # noqa: F821  (installed by modelbased.install)


@st.composite
def _long_groups(draw):
    dt = draw(st.sampled_from(["int64", "float64", "int32", "bool"]))
    nested = draw(st.booleans())
    T = ["list", M.prim(dt)] if nested else M.prim(dt)
    alphabet = [False, True] if dt == "bool" else ([0.0, 1.5, -2.0, float("nan")] if dt == "float64" else [0, 1, 2, 3])

    def long_list():
        return [draw(st.sampled_from(alphabet)) for _ in range(draw(st.integers(17, 48)))]
    if nested:
        vals = [long_list() if draw(st.integers(0, 2)) else [draw(st.sampled_from(alphabet)) for _ in range(draw(st.integers(0, 3)))]
                for _ in range(draw(st.integers(1, 3)))]
        axis = draw(st.sampled_from([1, -1, 0]))
    else:
        vals = long_list()
        axis = draw(st.sampled_from([0, -1]))
    cfg = gen.Cfg(max_depth=2, leaf_dtypes=(dt,), nan=True)
    desc = draw(gen.encode(T, vals, cfg)) if draw(st.booleans()) else gen.canonical(T, vals)
    return {"desc": desc, "spec": {"op": draw(st.sampled_from(["argsort", "argsort", "sort"])), "axis": axis, "ascending": draw(st.booleans()),
                                   "stable": draw(st.sampled_from([True, True, False]))}}


WIDE_DTYPES = ("int8", "int16", "int32", "int64", "uint8", "uint16", "uint32", "uint64", "float32", "float64")


@st.composite
def _all_dtypes(draw):
    """every numeric leaf dtype with values at and next to the ends of its range (added after the seeded change C06-d - uint32 leaves
    sorted through the int32 instantiation - was missed: values >= 2^31 in a uint32 leaf were never generated)"""
    dt = draw(st.sampled_from(WIDE_DTYPES))
    cfg = gen.Cfg(max_depth=2, leaf_dtypes=(dt,), nan=True, extremes=True, records=False, unions=False, strings=False, unknown=False, tuples=False,
                  max_len=6, max_list=5)
    T = draw(st.sampled_from([M.prim(dt), ["list", M.prim(dt)], ["list", M.prim(dt)], ["list", ["option", M.prim(dt)]], ["list", ["list", M.prim(dt)]]]))
    vals = draw(gen.values(T, cfg))
    depth = 1 + repr(T).count("'list'")
    desc = draw(gen.encode(T, vals, cfg)) if draw(st.booleans()) else gen.canonical(T, vals)
    return {"desc": desc, "spec": {"op": draw(st.sampled_from(["argsort", "sort", "sort"])), "axis": draw(st.sampled_from([-1, depth - 1])),
                                   "ascending": draw(st.booleans()), "stable": draw(st.sampled_from([True, True, False]))}}


def strategy(tier):  # noqa: F811
    return st.one_of(_short_strategy(tier), _short_strategy(tier), _short_strategy(tier), _short_strategy(tier), _short_strategy(tier),
                     _short_strategy(tier), _all_dtypes(), _long_groups())
