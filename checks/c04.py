"""C04 - ufuncs apply element-wise after NumPy-right / tree-left broadcasting (tier P)."""
import operator

import numpy as np
from hypothesis import strategies as st

from akgen import gen
from akmodel import core as M
from akmodel import broadcast as B
from checks import known as K
from checks import pcommon as P
from vlib.common import Violation, HarnessError

ID = "C04"
MANIFEST = {
    "technique": "model-based property testing (Hypothesis): broadcasting reference model (tree-left family) and NumPy itself (all-regular family) vs the real Python layer (_util.broadcast_and_apply, array_ufunc, ak.broadcast_arrays) running on libawkward built from /repo",
    "level_text": "Generated-input exploration at the Python level: operand tuples derived from one deep generated value (the value under a second physical encoding, a prefix of its list structure with one element per list at some level, the same with an explicit length-1 regular dimension, Python scalars, and deliberately incompatible operands with one list length changed), all list/option encodings, options at any level, unions, records (broadcast_arrays); functions + - * negative abs < == maximum logical_and as ufunc calls and as Python operators, and ak.broadcast_arrays. The result read back through an independent evaluator must equal a pure-Python broadcasting model with the leaf function applied by NumPy scalars; mismatched lengths must raise; all-regular operand tuples are compared with NumPy directly (values and error/no error). Held on everything generated.",
    "level_note": "Trusted: akmodel.broadcast, akmodel.decode, and the akshim emulation of the pybind11 module awkward._ext (the binding cannot be compiled in this sandbox; src/awkward/*.py runs unmodified on the emulation). Operand shapes about which neither the documentation nor the property says anything (an operand that ends in regular dimensions cut inside a run of trailing regular dimensions of the deeper one) are discarded and counted.",
}
RULE = ("case = (function, 1-3 operands: descriptions or scalars); expected = akmodel.broadcast with NumPy scalar arithmetic per leaf, or NumPy on all-regular tuples; "
        "non-trivial = >= 2 array operands that differ in list depth or in physical encoding, or an option/union present, and the result is non-empty or an error is expected; distinct by hash of the case")
ASSUMPTIONS = ["leaf values are small integers / dyadic rationals so every result is exact",
               "Python scalars enter as int64 / float64 (the library wraps them with numpy.array([x]))",
               "ufuncs are not applied to records (the library documents that as unsupported without behaviors); records are exercised through ak.broadcast_arrays"]
PLAN = {
    "quick": [{"flavour": "plain", "cases": 8000}, {"flavour": "san", "cases": 800}],
    "thorough": [{"flavour": "plain", "cases": 300000}, {"flavour": "san", "cases": 40000}],
}
WALL_CAP = {"quick": 900, "thorough": 3300}
FORK_EACH = False
KNOWN = dict(K.PREDICATES)


def _mixed_region(case):
    """'var_below' / 'regular_nd' / None: see known finding broadcast_leaf_meets_regular"""
    if case.get("family") != "var":
        return None
    types, nd = [], False
    for op in case["operands"]:
        if op["k"] == "scalar":
            types.append(["list", M.prim(op["dtype"])])     # enters as a length-1 array, repeated at the top level
            continue
        T, _ = M.decode(op["desc"])
        types.append(["list", T])
        nd = nd or "numpy_nd" in gen.features(op["desc"])
    r = B.leaf_meets_regular(types, True)
    if r == "var_below":
        return r
    if r == "regular_below" and nd:
        return "regular_nd"
    return None


def _known_leaf_meets_regular(case, vio):
    kind = vio.get("bucket", "").split(":")[0]
    return kind in ("refused", "value") and _mixed_region(case) is not None


KNOWN["broadcast_leaf_meets_regular"] = _known_leaf_meets_regular

BINARY = ["add", "subtract", "multiply", "less", "equal", "maximum", "logical_and"]
UNARY = ["negative", "absolute"]
OPERATORS = {"add": operator.add, "subtract": operator.sub, "multiply": operator.mul, "less": operator.lt, "equal": operator.eq,
             "negative": operator.neg, "absolute": abs}
NUM = ("int64", "float64", "int32")
CFG_U = gen.Cfg(max_depth=3, leaf_dtypes=NUM, records=False, unions=True, strings=False, unknown=False, top_list=True, zero_field_records=False,
                max_len=4, max_list=3)
CFG_R = gen.Cfg(max_depth=3, leaf_dtypes=NUM, records=True, unions=False, strings=False, unknown=False, top_list=True, zero_field_records=False,
                max_len=4, max_list=3)


def setup(flavour, tier):
    P.ak()


# ------------------------------------------------------------------------------------------------ generation
def spine(T):
    """list kinds along the pure list path below the array level: ['list' | 'regular', ...]"""
    out = []
    while True:
        T = M.strip_option(T)
        if T[0] in ("list", "regular"):
            out.append(T[0])
            T = T[1]
        else:
            return out


def cut(draw, T, v, k, dt, reg1):
    """a value with the structure of v down to k list levels and one fresh scalar (or [scalar], for a size-1 regular
    dimension, when reg1) per position there; missing positions stay missing"""
    if T[0] == "option":
        if v is None:
            return None
        T = T[1]
    if k == 0:
        x = draw(gen.leaf_strategy(dt, CFG_U))
        return [x] if reg1 else x
    assert T[0] in ("list", "regular"), T
    return [cut(draw, T[1], e, k - 1, dt, reg1) for e in v]


def cut_type(T, k, dt, reg1):
    opt = T[0] == "option"
    if opt:
        T = T[1]
    if k == 0:
        out = ["regular", M.prim(dt), 1] if reg1 else M.prim(dt)
    elif T[0] == "list":
        out = ["list", cut_type(T[1], k - 1, dt, reg1)]
    else:
        out = ["regular", cut_type(T[1], k - 1, dt, reg1), T[2]]
    return M.option_of(out) if opt else out


@st.composite
def var_family(draw, records):
    cfg = CFG_R if records else CFG_U
    T = draw(gen.types(cfg))
    AT = T            # item type of the deep array: top_list guarantees at least one list level
    vals = draw(gen.values(T, cfg))
    if not records and draw(st.integers(0, 11)) == 0:
        # two operands whose lists START at the same places but one interior list of the second is one element shorter
        # (a ListArray with a gap): must raise like any other length mismatch.  Added after the seeded change C04-b, which
        # let such an operand take the "same offsets" shortcut, was missed.
        d1 = gen.canonical(T, vals)
        if d1["class"] == "ListOffsetArray64" and len(d1["offsets"]) >= 3:
            offs = d1["offsets"]
            cand = [i for i in range(len(offs) - 2) if offs[i + 1] - offs[i] >= 1]
            if cand:
                i = draw(st.sampled_from(cand))
                stops = list(offs[1:])
                stops[i] -= 1
                d2 = {"class": "ListArray64", "starts": list(offs[:-1]), "stops": stops, "content": d1["content"]}
                pair = [{"k": "array", "desc": d1}, {"k": "array", "desc": d2}]
                return (pair if draw(st.booleans()) else pair[::-1]), True
    sp = spine(["list", T])          # level 0 is the array itself
    d = len(sp)
    nops = draw(st.sampled_from([1, 2, 2, 2, 3]))
    ops = [{"k": "array", "desc": draw(gen.encode(T, vals, cfg))}]
    incompatible = False
    for _ in range(nops - 1):
        how = draw(st.sampled_from(["same", "prefix", "prefix", "prefix", "reg1", "scalar", "bad"]))
        dt = draw(st.sampled_from(NUM))
        if how == "scalar":
            x = draw(gen.leaf_strategy(dt if dt != "int32" else "int64", cfg))
            ops.append({"k": "scalar", "dtype": "float64" if isinstance(x, float) else "int64", "value": x})
            continue
        if how == "same":
            ops.append({"k": "array", "desc": draw(gen.encode(T, vals, cfg))})
            continue
        k = draw(st.integers(1, d)) if how != "bad" else d
        reg1 = how == "reg1" and k < d
        pv = cut(draw, ["list", T], vals, k, dt, reg1)
        PT = cut_type(["list", T], k, dt, reg1)
        if how == "bad":
            # change one list length somewhere (if there is a var list to change)
            pv2, changed = _perturb(draw, PT, pv)
            if changed:
                pv = pv2
                incompatible = True
        ops.append({"k": "array", "desc": draw(gen.encode(PT[1], pv, cfg)), "cut": k, "reg1": reg1})
    return ops, incompatible


def _perturb(draw, PT, pv):
    """append a duplicate element to one non-empty variable-length list below the top level"""
    paths = []

    def walk(T, v, path, top):
        if v is None:
            return
        T = M.strip_option(T)
        if T[0] == "list":
            if not top and len(v) > 0:
                paths.append(path)
            for i, e in enumerate(v):
                walk(T[1], e, path + [i], False)
        elif T[0] == "regular":
            for i, e in enumerate(v):
                walk(T[1], e, path + [i], False)
    walk(PT, pv, [], True)
    if not paths:
        return pv, False
    path = draw(st.sampled_from(paths))
    import copy
    out = copy.deepcopy(pv)
    node = out
    for i in path:
        node = node[i]
    node.append(copy.deepcopy(node[-1]))
    return out, True


@st.composite
def numpy_family(draw):
    nops = draw(st.sampled_from([1, 2, 2, 3]))
    ndim = draw(st.integers(1, 3))
    full = [draw(st.sampled_from([1, 2, 3])) for _ in range(ndim)]
    ops = []
    for i in range(nops):
        if i > 0 and draw(st.integers(0, 5)) == 0:
            x = draw(gen.leaf_strategy("int64", CFG_U))
            ops.append({"k": "scalar", "dtype": "int64", "value": x})
            continue
        nd = ndim if i == 0 else draw(st.integers(1, ndim))
        shape = []
        for j in range(ndim - nd, ndim):
            r = draw(st.integers(0, 9))
            shape.append(1 if r < 2 else (full[j] + 1 if r == 9 else full[j]))
        dt = draw(st.sampled_from(NUM))
        T = M.prim(dt)
        for n in reversed(shape[1:]):
            T = ["regular", T, n]
        flat = [draw(gen.leaf_strategy(dt, CFG_U)) for _ in range(int(np.prod(shape)))]
        vals = np.array(flat, dtype=dt).reshape(shape).tolist()
        ops.append({"k": "array", "desc": draw(gen.encode(T, vals, gen.Cfg(leaf_dtypes=NUM, indexed=False))), "shape": shape, "dtype": dt})
    return ops


@st.composite
def strategy_(draw):
    fam = draw(st.sampled_from(["var", "var", "var", "numpy", "barrays"]))
    if fam == "numpy":
        ops = draw(numpy_family())
        narr = len(ops)
        fn = draw(st.sampled_from(BINARY if narr >= 2 else UNARY)) if narr <= 2 else "broadcast_arrays"
        if draw(st.integers(0, 4)) == 0:
            fn = "broadcast_arrays"
        return {"family": "numpy", "fn": fn, "operands": ops[:2] if fn in BINARY else (ops[:1] if fn in UNARY else ops), "as_operator": draw(st.booleans())}
    ops, incompatible = draw(var_family(records=(fam == "barrays")))
    if fam == "barrays":
        fn = "broadcast_arrays"
    elif len(ops) == 1:
        fn = draw(st.sampled_from(UNARY))
    elif len(ops) == 2:
        fn = draw(st.sampled_from(BINARY))
    else:
        fn = "broadcast_arrays"
    return {"family": "var", "fn": fn, "operands": ops, "as_operator": draw(st.booleans()), "made_incompatible": incompatible}


def strategy(tier):
    return strategy_()


def case_label(case):
    return case["fn"] + "|" + case["family"]


# ------------------------------------------------------------------------------------------------ execution
def _np_leaf(fn):
    f = getattr(np, fn)

    def leaf(cur):
        args = [np.dtype(T[1]).type(v) for T, v in cur]
        return f(*args).item()
    return leaf


def _regular_tail_cut(model_ops):
    """an operand whose own trailing dimensions are regular, cut inside a run of trailing regular dimensions of a deeper
    operand: neither the tree-left nor the right-alignment clause of the documentation covers it"""
    spines = [spine(["list", op[1]]) for op in model_ops if op[0] == "array"]
    if len(spines) < 2:
        return False
    deep = max(spines, key=len)
    for sp in spines:
        if len(sp) < len(deep) and len(sp) >= 2 and sp[-1] == "regular" and all(k == "regular" for k in deep[len(sp):]):
            return True
    return False


def run_case(case):
    A = P.ak()
    fn = case["fn"]
    buffers = []
    real = []
    model_ops = []
    for op in case["operands"]:
        if op["k"] == "scalar":
            real.append(op["value"])
            model_ops.append(("scalar", op["dtype"], op["value"]))
        else:
            real.append(P.harray(op["desc"], buffers))
            T, v = M.decode(op["desc"])
            model_ops.append(("array", T, v))
    snaps = P.snapshot(buffers)
    arrays = [m for m in model_ops if m[0] == "array"]
    tags = ["fn:" + fn, "family:" + case["family"], "operands:%d" % len(real)]

    # ---- expected
    expected = None
    exp_error = None
    if case["family"] == "numpy":
        nps = [np.array(m[2], dtype=m[1][1] if m[1][0] == "prim" else _leafdt(m[1])) if m[0] == "array" else np.array(m[2]).astype(m[1])[()] for m in model_ops]
        try:
            if fn == "broadcast_arrays":
                expected = [x.tolist() for x in np.broadcast_arrays(*nps)]
            else:
                expected = getattr(np, fn)(*nps).tolist()
        except ValueError as e:
            exp_error = str(e)
        except TypeError as e:
            return {"discarded": "numpy itself refuses this dtype combination: " + str(e)[:60]}
    else:
        if all(B.all_regular(m[1]) for m in arrays) and len(arrays) > 1:
            return {"discarded": "all operands regular in the tree-left family"}
        if _regular_tail_cut(model_ops):
            return {"discarded": "operand cut inside a run of trailing regular dimensions (undocumented combination)"}
        try:
            if fn == "broadcast_arrays":
                expected = [B.broadcast(model_ops, (lambda i: lambda cur: cur[i][1])(i)) for i in range(len(model_ops))]
            else:
                if any("'record'" in repr(m[1]) for m in arrays):
                    return {"discarded": "ufunc on records"}
                expected = B.broadcast(model_ops, _np_leaf(fn))
        except B.BroadcastError as e:
            exp_error = str(e)
        except B.OutOfModel as e:
            return {"discarded": "out of model: " + str(e)}
        except TypeError as e:
            return {"discarded": "numpy itself refuses this dtype combination: " + str(e)[:60]}

    # ---- observed
    def call():
        if fn == "broadcast_arrays":
            return A.broadcast_arrays(*real)
        if case.get("as_operator") and fn in OPERATORS and any(not isinstance(x, (int, float)) for x in real[:1]):
            return OPERATORS[fn](*real)
        return getattr(np, fn)(*real)
    kind, res = P.outcome(call)
    P.check_purity(buffers, snaps, fn)
    bucket = fn + "|" + case["family"]
    if exp_error is not None:
        if kind == "ok":
            got = [P.read(r, fn)[1] for r in res] if fn == "broadcast_arrays" else P.read(res, fn)[1]
            raise Violation("accepted:" + bucket, "%s should raise (%s) but returned data" % (fn, exp_error), expected="error: " + exp_error,
                            observed=M.jsonable(got))
        return {"tags": tags + ["error_agreed"], "nontrivial": len(arrays) >= 2, "sample_class": "error"}
    if kind != "ok":
        raise Violation("refused:" + bucket, "%s raised %s on broadcast-compatible operands: %s" % (fn, kind, str(res)[:300]),
                        expected=M.jsonable(expected), observed=[kind, str(res)[:300]])
    if fn == "broadcast_arrays":
        if len(res) != len(real):
            raise Violation("value:" + bucket, "broadcast_arrays returned %d arrays for %d operands" % (len(res), len(real)))
        for i, (r, e) in enumerate(zip(res, expected)):
            _, got = P.read(r, fn)
            if not M.same_value(got, e):
                raise Violation("value:" + bucket, "output %d of broadcast_arrays differs from the model" % i, expected=M.jsonable(e), observed=M.jsonable(got))
        nonempty = any(e not in ([], None) for e in expected)
    else:
        _, got = P.read(res, fn)
        if not M.same_value(got, expected):
            raise Violation("value:" + bucket, "%s differs from the %s" % (fn, "NumPy result" if case["family"] == "numpy" else "broadcasting model"),
                            expected=M.jsonable(expected), observed=M.jsonable(got))
        nonempty = expected not in ([], None)
    feats = set()
    for op in case["operands"]:
        if op["k"] == "array":
            feats |= gen.features(op["desc"])
    depths = set(len(spine(["list", m[1]])) for m in arrays)
    r = repr([m[1] for m in arrays])
    nt = nonempty and ((len(arrays) >= 2 and (len(depths) > 1 or any(gen.noncanonical(op["desc"]) for op in case["operands"] if op["k"] == "array")))
                       or "'option'" in r or "'union'" in r)
    tags += ["value_agreed"] + sorted(feats & {"offsets0!=0", "listarray_out_of_order", "width32", "ByteMaskedArray", "BitMaskedArray", "UnmaskedArray",
                                               "numpy_nd", "RecordArray", "UnionArray8_64", "IndexedOptionArray64", "RegularArray"})
    if len(depths) > 1:
        tags.append("different_depths")
    if any(op.get("reg1") for op in case["operands"]):
        tags.append("regular_size1")
    return {"tags": tags, "nontrivial": bool(nt), "sample_class": fn + "/" + case["family"]}


def _leafdt(T):
    while T[0] != "prim":
        T = T[1]
    return T[1]
