"""C10 - record fields: projection commutes with positional slices, unzip(zip(f)) == f, with_field changes only the named
field, records convert to dicts/tuples in declaration order (tier L: Content::getitem_field(s)/setitem_field/keys/...;
tier P: a["x"], a.x, ak.zip / ak.unzip / ak.with_field / ak.to_list on the awkward._ext emulation)."""
import numpy as np
from hypothesis import strategies as st

from akgen import gen
from akmodel import core as M
from akmodel import fields as FM
from akmodel import slicing as S
from akshim import describe as D
from akshim import layout as L
from checks import c01
from checks import known as K
from checks import ops
from checks import pcommon as P
from checks.common import closure_kind
from vlib.common import Violation, HarnessError

ID = "C10"
MANIFEST = {
    "technique": "model-based property testing (Hypothesis): record-field reference model (projection, zip/unzip, with_field, dict conversion) and the level-by-level slicing model vs Content::getitem_field(s)/getitem/setitem_field/keys/field through the C bridge and vs a['x'], a.x, ak.zip, ak.unzip, ak.with_field, ak.to_list of /repo's Python layer on the awkward._ext emulation, on generated record-bearing physical encodings; ASan/UBSan twin",
    "level_text": "Generated-input exploration. (a) record-bearing arrays (named records and tuples with 0-3 fields, nested records, contents longer than the record length, explicit lengths, __record__ names) under 0-3 wrappers (variable and regular lists, every option encoding, IndexedArray of every width, unions with a second record or a non-record member) x a field, a nested field path or a list of fields x a positional slice tuple (integers, ranges with steps, integer arrays, masks, ellipsis, newaxis, missing-value and jagged indexes, all confined to the list levels above the record): a[field] must equal the model's projection (values and declaration order of the kept fields), and a[field][slice], a[slice][field] and a[slice + (field,)] must all equal the model's slice of the projection (or all raise for an out-of-range index), through Content::getitem and through ak.Array.__getitem__/__getattr__. keys/haskey/fieldindex/key/field(i)/fields agree with the declared fields. (b) ak.unzip(ak.zip(columns)) for 1-3 columns of equal list structure (depth 0-2, any encodings, leaf types numbers/strings/options/records) given as dict or tuple, with_name/depth_limit variants: same values and the same item types as the columns; the zipped records are dicts in the given key order (tuples for a tuple). (c) ak.with_field(base, what, where), ak.Array.__setitem__ and RecordArray::setitem_field for where in {existing name, new name, None}, what a scalar or an array that has base's list structure down to some level (possibly deeper structure below the record): reading the field gives `what` broadcast to the records, all other fields, the number and positions of records, missing records, the record name and the enclosing lists are unchanged, key order is old fields then the new one. (d) ak.to_list / ak.to_list of single records: dicts in declaration order, tuples for unnamed fields. Held on everything generated outside the recorded known findings.",
    "level_note": "Trusted: akmodel.fields, akmodel.slicing (self-validated against NumPy in C01), akmodel.decode, the /verif bridge and the awkward._ext emulation (a re-statement of the pybind11 binding, which cannot be compiled here: the binding's translation of a Python index into a Slice is modelled, not tested). Not exercised: with_field on unions; positional items that reach below the record level (they apply to every field, so a too-shallow sibling field decides the outcome and commutation is not claimed); right_broadcast variants of ak.zip; behaviors. with_field / __setitem__ also take `where` as a one-element list or tuple and as a path below an outer record; the keys of the result are compared with 'the other fields, then the new one'.",
}
RULE = ("case = one of: (record-bearing description, field path or field list, positional slice items, api in {layout, ak.Array}); "
        "(1-3 column descriptions of equal list structure, names or tuple, with_name, depth_limit); "
        "(record-bearing description, where, replacement description or scalar, api in {ak.with_field, ak.Array.__setitem__, setitem_field}); "
        "(record-bearing description) for dict conversion. Expected = akmodel.fields / akmodel.slicing on the decoded values. "
        "non-trivial = the record sits below >= 1 wrapper (list/option/union/indexed) or has contents longer than its length, it has >= 2 fields "
        "(zip: >= 2 columns), and the result is non-empty; distinct by hash of the case")
ASSUMPTIONS = ["positional items stay within the list levels above the record (below it they apply to every field and commutation is not claimed)",
               "a field missing from some member of a union is refused by the library; such names are not generated",
               "ak.zip stops at the deepest level all columns share; columns have equal list depth and no option-type lists, so unzip returns them unchanged",
               "regular and variable-length list types are compared as 'list' (broadcasting may turn one into the other)"]
PLAN = {
    "quick": [{"flavour": "plain", "cases": 12000}, {"flavour": "san", "cases": 2000}],
    "thorough": [{"flavour": "plain", "cases": 180000}, {"flavour": "san", "cases": 40000}],
}
WALL_CAP = {"quick": 900, "thorough": 3300}
FORK_EACH = False
KNOWN = {}
for _name in ("zero_field_records", "string_internals_exposed", "masked_lazy_carry"):
    KNOWN[_name] = K.PREDICATES[_name]

LEAVES = ("int64", "float64", "bool", "int32", "uint8")
CFGF = gen.Cfg(max_depth=1, leaf_dtypes=LEAVES, unions=False, unknown=False, records=False, max_len=4, max_list=3)       # field types
CFGX = gen.Cfg(max_depth=2, leaf_dtypes=LEAVES, unions=False, unknown=False, max_len=5, max_list=3)                      # encodings


def setup(flavour, tier):
    P.ak()


def known(name):
    def deco(fn):
        KNOWN[name] = fn
        return fn
    return deco


# ------------------------------------------------------------------------------------------------ generation
@st.composite
def record_types(draw, nested=True, min_fields=0):
    istuple = draw(st.integers(0, 3)) == 0
    n = draw(st.sampled_from([0, 1, 2, 2, 2, 3, 3]))
    n = max(n, min_fields)
    names = [str(i) for i in range(n)] if istuple else list(draw(st.permutations(["x", "y", "z", "w"])))[:n]
    fields = []
    for nm in names:
        if nested and draw(st.integers(0, 5)) == 0:
            fields.append([nm, draw(record_types(nested=False, min_fields=1))])
        else:
            fields.append([nm, draw(gen.types(CFGF, top=False))])
    return ["record", fields, istuple, draw(st.sampled_from([None, None, "Point", "Vec"]))]


@st.composite
def wrapped(draw, R, allow_union=True, allow_option=True):
    """the record type under 0-3 wrappers; returns the array's item type"""
    T = R
    k = draw(st.sampled_from([0, 1, 1, 1, 2, 2, 3]))
    for _ in range(k):
        kinds = ["list", "list", "list", "regular"]
        if allow_option:
            kinds.append("option")
        if allow_union:
            kinds.append("union")
        w = draw(st.sampled_from(kinds))
        if w == "list":
            T = ["list", T]
        elif w == "regular":
            T = ["regular", T, draw(st.sampled_from([1, 2, 2, 3]))]
        elif w == "option":
            T = M.option_of(T)
        elif w == "union" and "union" not in repr(T) and T[0] != "option":
            other = draw(st.sampled_from(["prim", "record", "record"]))
            if other == "prim" or R[2] or not R[1]:
                O = ["prim", "int64"] if T[0] != "prim" else ["string"]
            else:
                # a second record sharing the first field name (so that a common key exists), different record name
                O = ["record", [[R[1][0][0], ["prim", "float64"]], ["q", ["prim", "bool"]]], False, "Other"]
                for wrap in _wrappers_of(T):
                    O = [wrap[0], O] + wrap[1:]
            T = ["union", [T, O]] if gen.mergekey(T) != gen.mergekey(O) else T
    return T


def _wrappers_of(T):
    """list wrappers of T outermost first, as [kind, *extra] (so that a sibling union member can have the same depth)"""
    out = []
    while T[0] in ("list", "regular"):
        out.append([T[0]] + T[2:])
        T = T[1]
    return list(reversed(out))


@st.composite
def record_array(draw, allow_union=True, allow_option=True, min_fields=0, min_len=0, bare=False):
    R = draw(record_types(min_fields=min_fields))
    T = R if bare else draw(wrapped(R, allow_union, allow_option))
    vals = draw(gen.values(T, CFGX))
    if len(vals) < min_len:
        vals = vals + draw(gen.values(T, CFGX, n=min_len - len(vals)))
    if bare:
        desc = draw(gen.encode(T, vals, CFGX, allow_indexed=False))     # a RecordArray node itself (setitem_field, field(i))
    else:
        desc = gen.canonical(T, vals) if draw(st.integers(0, 5)) == 0 else draw(gen.encode(T, vals, CFGX))
    return T, vals, desc


def positional_depth(T):
    """(number of pure list levels above the first record/union/leaf, their regular sizes)"""
    sizes = []
    while True:
        T = M.strip_option(T)
        if T[0] == "list":
            sizes.append(None)
        elif T[0] == "regular":
            sizes.append(T[2])
        else:
            return sizes, T
        T = T[1]


@st.composite
def project_case(draw):
    T, vals, desc = draw(record_array())
    keys = FM.keys(T)
    if not keys:
        what = {"k": "none"}
    else:
        r = draw(st.integers(0, 5))
        if r <= 2:
            path = [draw(st.sampled_from(keys))]
            try:
                sub = FM.keys(FM.project_type(T, path[0]))
            except FM.NoRecord:
                sub = []
            if sub and draw(st.booleans()):
                path.append(draw(st.sampled_from(sub)))
            what = {"k": "path", "names": path}
        elif r <= 4:
            m = draw(st.integers(1, len(keys)))
            what = {"k": "fields", "names": list(draw(st.permutations(keys)))[:m]}
        else:
            what = {"k": "path", "names": [draw(st.sampled_from(keys))]}
    sizes, under = positional_depth(T)
    if "union" in repr(T):
        n = len(vals)
        items = [draw(st.sampled_from([{"k": "range", "start": None, "stop": None, "step": None},
                                       {"k": "range", "start": draw(st.integers(-n - 1, n + 1)), "stop": draw(st.one_of(st.none(), st.integers(-n - 1, n + 1))), "step": None},
                                       {"k": "at", "i": draw(st.integers(-n, max(n - 1, 0)))}]))]
    else:
        # c01's slice generator, on a type whose record is replaced by a string leaf, so that items stop above the record
        Tpos = _with_leaf(T)
        items = [it for it in draw(c01.slice_items(Tpos, _stub_values(T, vals))) if it["k"] not in ("field", "fields")]
        if not items or K.empty_advanced({"items": items}):
            # (an empty advanced index is C01's known finding empty_advanced_index: not a field matter, not generated here)
            items = [{"k": "range", "start": None, "stop": None, "step": None}]
    return {"mode": "project", "desc": desc, "what": what, "items": items, "api": draw(st.sampled_from(["layout", "layout", "array", "attr"]))}


def _with_leaf(T):
    k = T[0]
    if k in ("list", "regular"):
        return [k, _with_leaf(T[1])] + T[2:]
    if k == "option":
        return ["option", _with_leaf(T[1])]
    return ["string"]


def _stub_values(T, v):
    """the value with everything at and below the record level replaced by a string (only list structure and None matter)"""
    def walk(T, x):
        if x is None:
            return None
        k = T[0]
        if k == "option":
            return walk(T[1], x)
        if k in ("list", "regular"):
            return [walk(T[1], y) for y in x]
        return "r"
    return [walk(T, x) for x in v]


@st.composite
def leaf_column_type(draw):
    r = draw(st.integers(0, 6))
    if r <= 2:
        return ["prim", draw(st.sampled_from(LEAVES))]
    if r == 3:
        return ["string"]
    if r == 4:
        return ["option", ["prim", draw(st.sampled_from(LEAVES))]]
    if r == 5:
        return draw(record_types(nested=False, min_fields=1))
    return ["bytes"]


@st.composite
def zip_case(draw):
    ncol = draw(st.sampled_from([1, 2, 2, 3]))
    depth = draw(st.sampled_from([0, 1, 1, 2]))
    n = draw(st.sampled_from([0, 1, 2, 3, 4]))
    # the shared skeleton: nested list lengths down to `depth`
    def skeleton(d):
        if d == 0:
            return None
        return [skeleton(d - 1) for _ in range(draw(st.sampled_from([0, 1, 2, 2, 3])))]
    skel = [skeleton(depth) for _ in range(n)]
    cols = []
    for _ in range(ncol):
        E = draw(leaf_column_type())

        def fill(s):
            if s is None:
                return draw(gen.value(E, CFGX))
            return [fill(x) for x in s]
        vals = [fill(s) for s in skel]
        T = E
        for _ in range(depth):
            T = ["list", T]
        cols.append(gen.canonical(T, vals) if draw(st.integers(0, 4)) == 0 else draw(gen.encode(T, vals, CFGX)))
    astuple = draw(st.integers(0, 2)) == 0
    names = None if astuple else list(draw(st.permutations(["x", "y", "z", "w"])))[:ncol]
    return {"mode": "zip", "columns": cols, "names": names, "with_name": draw(st.sampled_from([None, None, "Point"])),
            "depth_limit": draw(st.sampled_from([None, None, None, depth + 1]))}


@st.composite
def withfield_case(draw):
    T, vals, desc = draw(record_array(allow_union=False, bare=draw(st.integers(0, 3)) == 0))
    R = FM.record_type(T)
    names = FM.names_of(R)
    where = draw(st.sampled_from((names or [None]) + ["new", "new", None]))
    sizes, under = positional_depth(T)
    depth = 1 + len(sizes)                      # number of list levels incl. the array itself
    optional_above = "option" in repr(_with_leaf(T))
    kind = draw(st.sampled_from(["scalar", "full", "full", "full", "partial"]))
    api = "with_field"
    if kind == "scalar":
        what = {"k": "scalar", "value": draw(st.sampled_from([0, 7, -3, 2.5, True]))}
    else:
        level = depth if kind == "full" else draw(st.integers(1, depth))
        if any(sz is not None for sz in sizes):
            level = depth      # a shallower value meets a regular dimension: NumPy's right-alignment, not tree-left broadcasting (C04's matter)
        E = draw(st.sampled_from([["prim", "int64"], ["prim", "float64"], ["prim", "bool"], ["string"], ["list", ["prim", "int64"]]]))
        if level < depth and E[0] == "list":
            E = ["prim", "int64"]     # lists in a shallower value would be aligned with base's lists, not attached as values
        if level == depth and not optional_above and draw(st.integers(0, 3)) == 0:
            E = ["option", ["prim", "int64"]]

        def fill(T, x, lv):
            """a value for `what` following base's lists down to `lv` levels (None where base has a missing list/record)"""
            T = M.strip_option(T) if x is not None else T
            if x is None:
                return draw(gen.value(E, CFGX)) if lv == 0 else ([] if True else None)
            if lv == 0:
                return draw(gen.value(E, CFGX))
            return [fill(T[1], y, lv - 1) for y in x]
        wv = [fill(T, x, level - 1) for x in vals]
        WT = E
        for _ in range(level - 1):
            WT = ["list", WT]
        if optional_above:
            # a missing list in base has no counterpart in `what`: keep `what` full-depth only where no list is missing
            if any(_has_missing_list(T, x) for x in vals):
                what = {"k": "scalar", "value": 1}
                wv = None
        if wv is not None:
            what = {"k": "array", "level": level, "desc": gen.canonical(WT, wv) if draw(st.booleans()) else draw(gen.encode(WT, wv, CFGX))}
            if desc["class"] == "RecordArray" and level == 1 and where is not None and where not in names and draw(st.booleans()):
                api = "setitem_field"
            if desc["class"] == "RecordArray" and level == 1 and where is None and draw(st.booleans()):
                api = "setitem_field"
    if api == "with_field" and where is not None and draw(st.integers(0, 3)) == 0:
        api = "setitem"           # ak.Array.__setitem__(name, value): documented to be ak.with_field applied in place
    path = None
    if api in ("with_field", "setitem") and where is not None and draw(st.integers(0, 2)) == 0:
        # `where` spelled as a path: a one-element list / tuple, or ["a", where] with the generated array as field "a" of an outer record
        path = draw(st.sampled_from(["list1", "tuple1", "nested", "nested"]))
    return {"mode": "with_field", "desc": desc, "where": where, "what": what, "api": api, "path": path}


def _has_missing_list(T, x):
    """does the value have a None where the type has option[list] above the record?"""
    if T[0] == "option":
        inner = M.strip_option(T)
        if x is None:
            return inner[0] in ("list", "regular")
        return _has_missing_list(inner, x)
    if T[0] in ("list", "regular"):
        return any(_has_missing_list(T[1], y) for y in x)
    return False


@st.composite
def todict_case(draw):
    T, vals, desc = draw(record_array())
    return {"mode": "todict", "desc": desc}


def strategy(tier):
    return st.one_of(project_case(), project_case(), project_case(), project_case(), zip_case(), zip_case(), withfield_case(), withfield_case(),
                     withfield_case(), todict_case())


# ------------------------------------------------------------------------------------------------ labels
def family(d):
    cls = d["class"]
    if cls.startswith("IndexedOption") or cls in ("ByteMaskedArray", "BitMaskedArray", "UnmaskedArray"):
        return "option"
    if cls.startswith("Indexed"):
        return "indexed"
    if cls.startswith("Union"):
        return "union"
    if cls == "RecordArray":
        return "record"
    if cls == "RegularArray":
        return "regular"
    if cls.startswith("List"):
        return "list"
    return "leaf"


def wrappers_above_record(d):
    """families of the nodes above the first RecordArray (outermost first)"""
    out = []
    while d is not None and d["class"] != "RecordArray":
        out.append(family(d))
        d = d.get("content") or (d.get("contents") or [None])[0]
    return out


def case_label(case):
    m = case["mode"]
    if m == "project":
        return "project:%s|%s|%s" % (case["what"]["k"], case["api"], "+".join(sorted(set(wrappers_above_record(case["desc"])))) or "bare")
    if m == "zip":
        return "zip|%s" % ("tuple" if case["names"] is None else "dict")
    if m == "with_field":
        return "with_field|%s|%s|%s" % (case["api"], case["what"]["k"], "+".join(sorted(set(wrappers_above_record(case["desc"])))) or "bare")
    return "todict|" + ("+".join(sorted(set(wrappers_above_record(case["desc"])))) or "bare")


def pre_exclude(case):
    return None


def descs_of(case):
    if case["mode"] == "zip":
        return list(case["columns"])
    out = [case["desc"]]
    if case["mode"] == "with_field" and case["what"]["k"] == "array":
        out.append(case["what"]["desc"])
    return out


def _kind(vio):
    return vio.get("bucket", "").split(":")[0]


def longer_contents(d):
    """a RecordArray one of whose contents is longer than the record length"""
    def hit(n):
        if n["class"] != "RecordArray" or not n["contents"]:
            return False
        lens = [_desc_len(c) for c in n["contents"]]
        length = n.get("length")
        if length is None:
            length = min(lens)
        return any(x > length for x in lens)
    return K.any_node(d, hit)


def _desc_len(d):
    return len(M.decode(d)[1])


# ------------------------------------------------------------------------------------------------ helpers
class Run(object):
    def __init__(self, descs, label):
        self.label = label
        self.buffers = []
        self.layouts = [D.build(d, self.buffers) for d in descs]
        self.snaps = [b.tobytes() for b in self.buffers]

    def purity(self):
        for b, s in zip(self.buffers, self.snaps):
            if b.tobytes() != s:
                raise Violation("purity:" + self.label, "an input buffer was modified", clause="C12-purity")

    def call(self, what, fn):
        kind, res = P.outcome(fn)
        if kind == "OtherNativeError":
            raise Violation("exception:%s#%s" % (self.label, what), "non-documented C++ exception in %s: %s" % (what, str(res)[:200]), clause="C12-exception")
        return kind, res

    def read(self, res, what):
        """(T, value) of a layout / Record / ak.Array / ak.Record / scalar"""
        A = P.ak()
        if isinstance(res, (A.Array, A.Record)):
            res = res.layout
        if isinstance(res, L.Record):
            T, v = self.read(res.array, what)
            return T, v[res.at]
        if isinstance(res, L.NumpyArray) and (res.parameters or {}).get("__array__") in ("char", "byte"):
            # one string taken out of a string array: the high level presents it as str / bytes
            raw = bytes(np.asarray(res).tobytes())
            return None, (raw if res.parameters["__array__"] == "byte" else raw.decode("utf-8", "surrogateescape"))
        if isinstance(res, L.Content):
            n = ops.outcome(lambda: len(res))
            if n[0] != "ok":
                raise Violation("closure:%s#%s:negative_length" % (self.label, what), "result of %s reports a negative length" % what, clause="C11-closure")
            err = res.validityerror()
            if err is not None:
                raise Violation("closure:%s#%s:%s" % (self.label, what, closure_kind(err)), "result of %s on a valid array is invalid: %s" % (what, err[:300]),
                                clause="C11-closure")
            try:
                return D.value_of(res)
            except ValueError as e:
                if "__len__() should return >= 0" not in str(e):
                    raise
                raise Violation("closure:%s#%s:negative_length" % (self.label, what), "a node inside the result of %s reports a negative length" % what,
                                clause="C11-closure")
            except M.Invalid as e:
                raise Violation("closure:%s#%s:unevaluable" % (self.label, what), "result of %s cannot be evaluated: %s" % (what, e), clause="C11-closure")
        return None, P.pyvalue(res)


def norm_type(T):
    """item type with regular dimensions read as lists (broadcasting and slicing may turn one into the other)"""
    k = T[0]
    if k in ("list", "regular"):
        return ["list", norm_type(T[1])]
    if k == "option":
        return ["option", norm_type(T[1])]
    if k == "record":
        return ["record", [[n, norm_type(t)] for n, t in T[1]], T[2], T[3]]
    if k == "union":
        return ["union", [norm_type(t) for t in T[1]]]
    return list(T)


def same(a, b):
    return M.same_value(a, b, strict_bool=True, key_order=True)


# ------------------------------------------------------------------------------------------------ (a) projection
def project_value(v, what):
    if what["k"] == "path":
        for nm in what["names"]:
            v = FM.project(v, nm)
        return v
    return FM.project_many(v, what["names"])


def apply_field(x, what, api):
    """a[field...] the way the api spells it; x is a layout (api layout) or an ak.Array / ak.Record"""
    if what["k"] == "fields":
        return x[list(what["names"])]
    for nm in what["names"]:
        if api == "attr" and nm.isidentifier() and not hasattr(type(x), nm):
            x = getattr(x, nm)
        else:
            x = x[nm]
    return x


def run_project(case):
    desc, what, items, api = case["desc"], case["what"], case["items"], case["api"]
    T, vals = M.decode(desc)
    label = case_label(case)
    run = Run([desc], label)
    lay = run.layouts[0]
    A = P.ak()
    tags = ["mode:project", "what:" + what["k"], "api:" + api, "items:" + c01.item_kinds(items)]
    keys = FM.keys(T)
    # ---- the key inventory (tier L)
    k1 = run.call("keys", lambda: lay.keys())
    if k1[0] != "ok" or list(k1[1]) != keys:
        raise Violation("keys:" + label, "keys() differs from the declared field names (common to all union members, declaration order)",
                        expected=keys, observed=list(k1[1]) if k1[0] == "ok" else list(k1))
    nf = run.call("numfields", lambda: lay.numfields)[1]
    if nf != FM.numfields(T):
        raise Violation("keys:" + label + "#numfields", "numfields differs from the number of declared fields", expected=FM.numfields(T), observed=nf)
    for i, nm in enumerate(keys):
        if T[0] == "record":
            got = (run.call("haskey", lambda: lay.haskey(nm))[1], run.call("fieldindex", lambda: lay.fieldindex(nm))[1], run.call("key", lambda: lay.key(i))[1])
            if got != (True, i, nm):
                raise Violation("keys:" + label + "#fieldindex", "haskey/fieldindex/key disagree with the declaration order", expected=[True, i, nm], observed=list(got))
            if desc["class"] != "RecordArray":
                continue
            f = run.call("field", lambda: lay.field(i))
            if f[0] != "ok":
                raise Violation("refused:" + label + "#field", "field(%d) raised %s" % (i, f[0]), observed=list(f))
            fv = run.read(f[1], "field")[1]
            if not same(fv[:len(vals)], FM.project(vals, nm)):
                raise Violation("value:" + label + "#field", "field(i) trimmed to the record length differs from the projection of that field",
                                expected=M.jsonable(FM.project(vals, nm)), observed=M.jsonable(fv[:len(vals)]))
    if what["k"] == "none":
        run.purity()
        return {"tags": tags + ["no_keys"], "nontrivial": False, "sample_class": "project:none"}
    # ---- a[field] against the model
    x0 = lay if api == "layout" else A.Array(lay)
    expected_proj = project_value(vals, what)
    p = run.call("getitem_field", lambda: apply_field(x0, what, api))
    if p[0] != "ok":
        raise Violation("refused:" + label + "#field", "projecting declared field(s) %r raised %s: %s" % (what["names"], p[0], str(p[1])[:300]), observed=list(p))
    Tp, Vp = run.read(p[1], "getitem_field")
    if not same(Vp, expected_proj):
        raise Violation("value:" + label + "#field", "a[field] differs from the field's values (or the kept fields are not in the requested order)",
                        expected=M.jsonable(expected_proj), observed=M.jsonable(Vp))
    # ---- commutation with the positional slice
    sizes, under = positional_depth(T)
    depth = 1 + len(sizes)
    try:
        if "union" in repr(T):
            sl = ops.realise_slice_item(items[0])
            expected = ("value", project_value(vals[sl] if not isinstance(sl, int) else [vals[sl]], what))
            if isinstance(sl, int):
                expected = ("value", expected[1][0])
        elif items and items[0]["k"] == "jagged":
            if K.any_node(desc, lambda n: n["class"] == "NumpyArray" and len(n["shape"]) > 1):
                raise S.Refuse("jagged index on a multidimensional NumpyArray")
            expected = ("value", project_value(S.jagged(vals, items[0]["data"]), what))
        else:
            expected = ("value", _project_any(S.getitem(vals, items, depth, [len(vals)] + sizes), what))
    except IndexError as e:
        expected = ("error", str(e))
    except S.Refuse as e:
        expected = ("refuse", str(e))
    tags.append("expected:" + expected[0])
    where = c01.realise(items, run.buffers)
    tup = where if isinstance(where, tuple) else (where,)
    forms = {
        "field_then_slice": lambda: apply_field(x0, what, api)[where],
        "slice_then_field": lambda: _field_of(x0[where], what, api),
    }
    if what["k"] == "fields" or len(what["names"]) == 1:
        last = list(what["names"]) if what["k"] == "fields" else what["names"][0]
        forms["field_inside_slice"] = lambda: x0[tup + (last,)]
    outcomes = {}
    for name, fn in forms.items():
        kind, res = run.call(name, fn)
        outcomes[name] = (kind, run.read(res, name)[1] if kind == "ok" else str(res)[:200])
    run.purity()
    if expected[0] == "refuse":
        return {"tags": tags, "nontrivial": False, "sample_class": "project:refuse"}
    for name, (kind, got) in outcomes.items():
        if expected[0] == "error" and kind == "ok":
            raise Violation("accepted:%s#%s" % (label, name), "an out-of-range index returned data in %s (%s)" % (name, expected[1]),
                            expected="error", observed=M.jsonable(got))
        if expected[0] == "value" and kind != "ok":
            raise Violation("refused:%s#%s" % (label, name), "%s raised %s on a declared field and an in-range positional slice: %s" % (name, kind, got),
                            expected=M.jsonable(expected[1]), observed=[kind, got])
        if expected[0] == "value" and not same(got, expected[1]):
            raise Violation("commute:%s#%s" % (label, name), "%s differs from the slice of the projected field" % name,
                            expected=M.jsonable(expected[1]), observed=M.jsonable(got))
    wr = wrappers_above_record(desc)
    nontrivial = expected[0] == "value" and expected[1] not in ([], None) and FM.numfields(T) >= 2 and (len(wr) >= 1 or longer_contents(desc))
    return {"tags": tags + ["wrapper:" + w for w in sorted(set(wr))] + (["longer_contents"] if longer_contents(desc) else []) +
            ["fields:%d" % FM.numfields(T)], "nontrivial": bool(nontrivial), "sample_class": "project:" + what["k"]}


def _project_any(v, what):
    """projection of a slicing result that may be a single record / scalar"""
    return project_value(v, what)


def _field_of(x, what, api):
    A = P.ak()
    if x is None:
        return None            # a missing record: its projection is missing
    if isinstance(x, (L.Content, A.Array, A.Record)):
        return apply_field(x, what, api if not isinstance(x, L.Content) else "layout")
    raise HarnessError("a positional slice above the record level returned %r" % (type(x).__name__,))


# ------------------------------------------------------------------------------------------------ (b) zip / unzip
def run_zip(case):
    cols, names = case["columns"], case["names"]
    decoded = [M.decode(d) for d in cols]
    label = case_label(case)
    run = Run(cols, label)
    A = P.ak()
    arrays = [A.Array(x) for x in run.layouts]
    arg = dict(zip(names, arrays)) if names is not None else tuple(arrays)
    kw = {}
    if case["with_name"] is not None:
        kw["with_name"] = case["with_name"]
    if case["depth_limit"] is not None:
        kw["depth_limit"] = case["depth_limit"]
    z = run.call("zip", lambda: A.zip(arg, **kw))
    if z[0] != "ok":
        raise Violation("refused:" + label + "#zip", "ak.zip of columns with equal structure raised %s: %s" % (z[0], str(z[1])[:300]), observed=list(z))
    Tz, Vz = run.read(z[1], "zip")
    # the zipped records: dicts in key order / tuples, at the deepest level
    depth = _list_depth(decoded[0][0])

    def build(level, parts):
        if level == 0:
            return tuple(parts) if names is None else dict(zip(names, parts))
        return [build(level - 1, [p[i] for p in parts]) for i in range(len(parts[0]))]
    # the level at which the records are made is the library's choice (deepest shared level; strings count as leaves or
    # not): any level is accepted, the records must hold the corresponding elements in the given key order
    candidates = [build(lv, [v for _, v in decoded]) for lv in range(0, depth + 2)]
    hit = [lv for lv, e in zip(range(0, depth + 2), candidates) if same(Vz, e)]
    if not hit:
        raise Violation("value:" + label + "#zip", "ak.zip does not give records of corresponding elements in the given key order (at any list level)",
                        expected=M.jsonable(candidates[-1]), observed=M.jsonable(Vz))
    ziplevel = hit[-1]
    R = Tz
    while R[0] in ("list", "regular", "option"):
        R = R[1]
    if R[0] != "record" or bool(R[2]) != (names is None) or R[3] != case["with_name"]:
        raise Violation("type:" + label + "#zip", "ak.zip did not produce the record/tuple type asked for (names, with_name)",
                        expected={"tuple": names is None, "name": case["with_name"]}, observed={"type": Tz})
    u = run.call("unzip", lambda: A.unzip(z[1]))
    if u[0] != "ok" or not isinstance(u[1], tuple) or len(u[1]) != len(cols):
        raise Violation("refused:" + label + "#unzip", "ak.unzip did not return one array per field", observed=[u[0], str(u[1])[:200]])
    for i, part in enumerate(u[1]):
        Tu, Vu = run.read(part, "unzip")
        if not same(Vu, decoded[i][1]):
            raise Violation("value:" + label + "#unzip", "unzip(zip(fields))[%d] differs from the original field" % i,
                            expected=M.jsonable(decoded[i][1]), observed=M.jsonable(Vu))
        if norm_type(Tu) != norm_type(decoded[i][0]):
            raise Violation("type:" + label + "#unzip", "unzip(zip(fields))[%d] has another type than the original field" % i,
                            expected={"type": decoded[i][0]}, observed={"type": Tu})
    run.purity()
    classes = set(d["class"] for d in cols)
    nontrivial = len(cols) >= 2 and len(Vz) > 0 and (depth >= 1 or len(classes) > 1)
    return {"tags": ["mode:zip", "columns:%d" % len(cols), "depth:%d" % depth, "records_at_level:%d_of_%d" % (ziplevel, depth + 1), "tuple" if names is None else "dict", "with_name:%s" % case["with_name"],
                     "depth_limit:%s" % case["depth_limit"]] + sorted("class:" + c for c in classes),
            "nontrivial": bool(nontrivial), "sample_class": "zip:" + ("tuple" if names is None else "dict")}


def _list_depth(T):
    d = 0
    while T[0] in ("list", "regular"):
        d += 1
        T = T[1]
    return d


# ------------------------------------------------------------------------------------------------ (c) with_field
def with_field_expected(T, vals, where, what):
    """(expected type skeleton, expected values): `what` broadcast into the records, other fields untouched"""
    R = FM.record_type(T)
    names, istuple = FM.names_of(R), bool(R[2])

    def rec(r, w):
        newnames, out = FM.with_field([r], names, istuple, where, [w])
        return out[0]

    def walk(T, x, w, wlevels):
        """x: base value at this node; w: the part of `what` for it; wlevels: list levels `what` still has"""
        if x is None:
            return None
        if T[0] == "option":
            return walk(T[1], x, w, wlevels)
        if T[0] in ("list", "regular"):
            if wlevels > 0:
                return [walk(T[1], y, w[i], wlevels - 1) for i, y in enumerate(x)]
            return [walk(T[1], y, w, 0) for y in x]
        return rec(x, w)
    if what["k"] == "scalar":
        return [walk(T, x, what["value"], 0) for x in vals]
    WT, wv = M.decode(what["desc"])
    return [walk(T, x, wv[i], what["level"] - 1) for i, x in enumerate(vals)]


def run_with_field(case):
    desc, where, what, api = case["desc"], case["where"], case["what"], case["api"]
    T, vals = M.decode(desc)
    label = case_label(case)
    descs = [desc] + ([what["desc"]] if what["k"] == "array" else [])
    run = Run(descs, label)
    lay = run.layouts[0]
    A = P.ak()
    R = FM.record_type(T)
    if R is None:
        raise HarnessError("withfield_case generated a base without a record")
    expected = with_field_expected(T, vals, where, what)
    w = run.layouts[1] if what["k"] == "array" else what["value"]
    if api == "setitem_field":
        r = run.call("setitem_field", lambda: lay.setitem_field(where, w))
    elif api == "setitem":
        wa = A.Array(w) if what["k"] == "array" else w
        arr = A.Array(lay)

        def assign():
            arr[where] = wa
            return arr
        r = run.call("setitem", assign)
        if not same(D.value_of(lay)[1], vals):
            raise Violation("purity:" + label + "#layout", "ak.Array.__setitem__ changed the layout it was built from", clause="C12-purity")
    else:
        wa = A.Array(w) if what["k"] == "array" else w
        r = run.call("with_field", lambda: A.with_field(A.Array(lay), wa, where))
    path = case.get("path")
    if path is not None:
        r = _with_field_path(run, A, lay, wa, where, path, api, vals, expected, label)
    if r[0] != "ok":
        raise Violation("refused:" + label, "%s raised %s for a value that broadcasts into the record structure: %s" % (api, r[0], str(r[1])[:300]), observed=list(r))
    Tr, Vr = run.read(r[1], api)
    if not same(Vr, expected):
        raise Violation("value:" + label, "after %s the new field is not the broadcast value, or another field / the record positions / the key order changed" % api,
                        expected=M.jsonable(expected), observed=M.jsonable(Vr))
    Rr = FM.record_type(Tr)
    if Rr is None or Rr[3] != R[3]:
        raise Violation("type:" + label + "#name", "the record name changed", expected={"name": R[3]}, observed={"type": Tr})
    # reading the field back
    newname = where if where is not None else str(len([n for n in FM.names_of(R)]))
    if where is None and R[2]:
        newname = str(len(R[1]))
    g = run.call("getitem_field", lambda: r[1][newname])
    if g[0] != "ok":
        raise Violation("refused:" + label + "#read", "reading the new field %r raised %s: %s" % (newname, g[0], str(g[1])[:200]), observed=list(g))
    Vg = run.read(g[1], "getitem_field")[1]
    if not same(Vg, FM.project(expected, newname)):
        raise Violation("value:" + label + "#read", "reading the new field does not give the broadcast value",
                        expected=M.jsonable(FM.project(expected, newname)), observed=M.jsonable(Vg))
    # the declared keys: every other field once, in their old order, then the new one
    oldnames = FM.names_of(R)
    expkeys = None if (R[2] and where is None) else [n for n in oldnames if n != where] + [newname]
    ks = run.call("keys", lambda: (r[1].layout if isinstance(r[1], A.Array) else r[1]).keys())
    if ks[0] == "ok" and expkeys is not None and list(ks[1]) != expkeys:
        raise Violation("type:" + label + "#keys", "the keys of the result are not the other fields followed by the new one",
                        expected=expkeys, observed=list(ks[1]))
    run.purity()
    wr = wrappers_above_record(desc)
    nrec = _count_records(T, vals)
    nontrivial = nrec > 0 and len(R[1]) >= 2 and (len(wr) >= 1 or longer_contents(desc))
    return {"tags": ["mode:with_field", "api:" + api, "path:" + str(path), "what:" + what["k"] + (":level%d" % what["level"] if what["k"] == "array" else ""),
                     "where:" + ("none" if where is None else ("existing" if where in FM.names_of(R) else "new")), "tuple" if R[2] else "named",
                     "fields:%d" % len(R[1])] + ["wrapper:" + x for x in sorted(set(wr))] + (["longer_contents"] if longer_contents(desc) else []),
            "nontrivial": bool(nontrivial), "sample_class": "with_field:" + what["k"]}


def _with_field_path(run, A, lay, wa, where, path, api, vals, expected, label):
    """the same assignment with `where` spelled as a path; returns ("ok", the array that has the fields of the generated record)"""
    if path in ("list1", "tuple1"):
        wh = [where] if path == "list1" else (where,)
        if api == "setitem" and path == "tuple1":
            arr = A.Array(lay)

            def assign():
                arr[wh] = wa
                return arr
            return run.call("setitem", assign)
        return run.call("with_field", lambda: A.with_field(A.Array(lay), wa, wh))
    n = len(lay)
    outer = A.Array(L.RecordArray([L.NumpyArray(np.arange(n, dtype=np.int64)), lay], ["p", "a"]))
    if api == "setitem":
        def assign():
            outer["a", where] = wa
            return outer
        r = run.call("setitem", assign)
    else:
        r = run.call("with_field", lambda: A.with_field(outer, wa, ["a", where]))
    if r[0] != "ok":
        return r
    Vo = run.read(r[1], api)[1]
    expo = [{"p": i, "a": e} for i, e in enumerate(expected)]
    if not same(Vo, expo):
        raise Violation("value:" + label + "#outer", "after %s with the path ['a', %r] the outer records are not {p: unchanged, a: the updated records}" % (api, where),
                        expected=M.jsonable(expo), observed=M.jsonable(Vo))
    return run.call("getitem_field", lambda: r[1]["a"])


def _count_records(T, vals):
    def walk(T, x):
        if x is None:
            return 0
        if T[0] == "option":
            return walk(T[1], x)
        if T[0] in ("list", "regular"):
            return sum(walk(T[1], y) for y in x)
        return 1
    return sum(walk(T, x) for x in vals)


# ------------------------------------------------------------------------------------------------ (d) dict conversion
def run_todict(case):
    desc = case["desc"]
    T, vals = M.decode(desc)
    label = case_label(case)
    run = Run([desc], label)
    A = P.ak()
    arr = A.Array(run.layouts[0])
    t = run.call("to_list", lambda: A.to_list(arr))
    if t[0] != "ok":
        raise Violation("refused:" + label, "ak.to_list raised %s: %s" % (t[0], str(t[1])[:300]), observed=list(t))
    got = P.pyvalue(t[1])
    if not same(got, vals):
        raise Violation("value:" + label, "ak.to_list does not give dicts in declaration order (tuples for unnamed fields) with the fields' values",
                        expected=M.jsonable(vals), observed=M.jsonable(got))
    tags = ["mode:todict"]
    if T[0] == "record" and len(vals) > 0:
        i = len(vals) // 2
        rec = run.call("getitem_at", lambda: arr[i])
        if rec[0] != "ok" or not isinstance(rec[1], A.Record):
            raise Violation("resultkind:" + label, "array[i] of a record array is not an ak.Record", observed=[rec[0], type(rec[1]).__name__])
        one = P.pyvalue(A.to_list(rec[1]))
        if not same(one, vals[i]):
            raise Violation("value:" + label + "#record", "ak.to_list of a single record differs from the record's fields in declaration order",
                            expected=M.jsonable(vals[i]), observed=M.jsonable(one))
        fl = list(A.fields(rec[1]))
        if fl != FM.names_of(T):
            raise Violation("keys:" + label + "#record", "ak.fields of a record differs from the declaration order", expected=FM.names_of(T), observed=fl)
        tags.append("single_record")
    run.purity()
    wr = wrappers_above_record(desc)
    nontrivial = _count_records_any(vals) > 0 and FM.numfields(T) >= 2 and (len(wr) >= 1 or longer_contents(desc))
    return {"tags": tags + ["wrapper:" + w for w in sorted(set(wr))], "nontrivial": bool(nontrivial), "sample_class": "todict"}


def _count_records_any(v):
    if isinstance(v, (dict, tuple)):
        return 1
    if isinstance(v, list):
        return sum(_count_records_any(x) for x in v)
    return 0


def run_case(case):
    m = case["mode"]
    if m == "project":
        return run_project(case)
    if m == "zip":
        return run_zip(case)
    if m == "with_field":
        return run_with_field(case)
    if m == "todict":
        return run_todict(case)
    raise HarnessError("unknown mode %r" % (m,))
