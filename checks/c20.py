"""C20 - Numba-compiled code sees the same values as interpreted Python (tier P + numba JIT)."""
import sys

import numpy as np
from hypothesis import strategies as st

from akgen import gen
from akmodel import core as M
from checks import known as K
from checks import pcommon as P
from vlib.common import Violation, HarnessError

ID = "C20"
MANIFEST = {
    "technique": "differential property testing (Hypothesis): a library of access programs compiled with numba.njit vs the same functions interpreted (.py_func) on the same generated array, both vs the generated value; reference counts before/after repeated calls",
    "level_text": "Generated-input exploration: a fixed menu of array types, one or more per layout node class (NumpyArray, RegularArray, ListOffsetArray32/U32/64, ListArray32/64, IndexedArray, IndexedOptionArray32/64, ByteMaskedArray, BitMaskedArray, UnmaskedArray, RecordArray with and without field names, UnionArray, VirtualArray, partitioned arrays), each filled with generated values under generated physical details (offset origins, gaps, unreachable content, mask bytes and bit padding, partition boundaries); a fixed library of access programs (len, nested iteration with early exit, integer / range / field indexing incl. negative and out-of-range indexes, attribute access, 'in', numpy.asarray of numeric leaves, 'is None' tests, ArrayBuilder calls, returning arguments and sub-arrays) is compiled once per type and run on every generated array. Each compiled result must equal the interpreter's result for the same function and array, and both must equal the result computed on the generated nested-list value; arguments come back unchanged; sys.getrefcount of the argument and of its layout is the same before and after repeated calls. Held on everything generated.",
    "level_note": "Trusted: the akshim emulation of the pybind11 module awkward._ext (so the reference counting of real pybind objects is not observed: the layout objects whose counts are compared are the emulation's), numba 0.67 / llvmlite with one harness-side adaptation (numba.core.cgutils.pointer_add restored to its historical integer-address form, see DESIGN.md C20), akmodel.decode. A program that the connector refuses to compile for a node class (TypingError) is counted as unsupported, not as a violation. Array types also cover uint8/16/32/64, int8, int32 and float32 leaves (eager and virtual) with values at the ends of their ranges, and the programs include slicing a slice, indexing and iterating a slice, and passing raw leaves to builder.real.",
}
RULE = ("case = (menu entry = array type + encoding classes, generated value and physical details, program, integer arguments); expected = the program run on the nested-list value; "
        "non-trivial = the array is non-empty and the program touches at least one element (or an error is expected); distinct by hash of the case")
ASSUMPTIONS = ["values are small integers / dyadic rationals, so sums are exact in any order",
               "an out-of-range index must raise in both modes (the exception classes differ between interpreter and compiled code and are not compared)"]
PLAN = {
    # a case costs a compilation (~0.5-1 s) the first time its (program, type) pair is seen in a worker: ~260 pairs exist
    "quick": [{"flavour": "plain", "cases": 1600}],
    "thorough": [{"flavour": "plain", "cases": 60000}, {"flavour": "san", "cases": 3200}],
}
WALL_CAP = {"quick": 1200, "thorough": 3300}
FORK_EACH = False
KNOWN = dict(K.PREDICATES)

I64, F64 = M.prim("int64"), M.prim("float64")


def _cfg(lists=("ListOffsetArray64",), opts=("IndexedOptionArray64",), dt=("int64",), **kw):
    base = dict(max_depth=3, leaf_dtypes=dt, records=True, unions=True, options=True, strings=False, unknown=False, regular=True, indexed=False,
                numpy_nd=False, strided=False, list_encodings=lists, option_encodings=opts, zero_field_records=False, max_len=5, max_list=4)
    base.update(kw)
    return gen.Cfg(**base)


# name -> (item type, cfg, wrapper, shape class)
MENU = {
    "numpy_int": (I64, _cfg(), None, "S"),
    "numpy_float": (F64, _cfg(dt=("float64",)), None, "S"),
    "indexed_int": (I64, _cfg(indexed=True), None, "S"),
    # every other numeric leaf width, with values at the ends of its range (class N: no sums - they would not be exact)
    "numpy_uint8": (M.prim("uint8"), _cfg(dt=("uint8",), extremes=True), None, "N"),
    "numpy_uint16": (M.prim("uint16"), _cfg(dt=("uint16",), extremes=True), None, "N"),
    "numpy_uint32": (M.prim("uint32"), _cfg(dt=("uint32",), extremes=True), None, "N"),
    "numpy_uint64": (M.prim("uint64"), _cfg(dt=("uint64",), extremes=True), None, "N"),
    "numpy_int8": (M.prim("int8"), _cfg(dt=("int8",), extremes=True), None, "N"),
    "numpy_int32": (M.prim("int32"), _cfg(dt=("int32",), extremes=True), None, "N"),
    "numpy_float32": (M.prim("float32"), _cfg(dt=("float32",)), None, "N"),
    "opt_indexed64": (M.option_of(I64), _cfg(), None, "S"),
    "opt_indexed32": (M.option_of(I64), _cfg(opts=("IndexedOptionArray32",)), None, "S"),
    "opt_bytemask": (M.option_of(I64), _cfg(opts=("ByteMaskedArray",)), None, "S"),
    "opt_bitmask": (M.option_of(F64), _cfg(opts=("BitMaskedArray",), dt=("float64",)), None, "S"),
    "opt_unmasked": (M.option_of(I64), _cfg(opts=("UnmaskedArray",)), None, "S"),
    "list_offsets64": (["list", F64], _cfg(dt=("float64",)), None, "L"),
    "list_offsets32": (["list", I64], _cfg(lists=("ListOffsetArray32",)), None, "L"),
    "list_offsetsU32": (["list", I64], _cfg(lists=("ListOffsetArrayU32",)), None, "L"),
    "list_array32": (["list", F64], _cfg(lists=("ListArray32",), dt=("float64",)), None, "L"),
    "list_array64": (["list", I64], _cfg(lists=("ListArray64",)), None, "L"),
    "regular2": (["regular", I64, 2], _cfg(), None, "L"),
    "list_list": (["list", ["list", I64]], _cfg(lists=("ListOffsetArray64", "ListArray32")), None, "LL"),
    "list_opt": (["list", M.option_of(I64)], _cfg(opts=("IndexedOptionArray64", "ByteMaskedArray")), None, "L"),
    "opt_list": (M.option_of(["list", I64]), _cfg(opts=("IndexedOptionArray64",)), None, "L"),
    "record": (["record", [["x", I64], ["y", ["list", F64]]], False, None], _cfg(dt=("int64", "float64")), None, "R"),
    "record_named": (["record", [["x", I64], ["y", ["list", F64]]], False, "Point"], _cfg(dt=("int64", "float64")), None, "R"),
    "tuple": (["record", [["0", I64], ["1", F64]], True, None], _cfg(dt=("int64", "float64")), None, "T"),
    "list_record": (["list", ["record", [["x", I64], ["y", ["list", F64]]], False, None]], _cfg(dt=("int64", "float64")), None, "LR"),
    "union": (["union", [I64, ["list", I64]]], _cfg(), None, "U"),
    "virtual_list": (["list", F64], _cfg(dt=("float64",)), "virtual", "L"),
    "virtual_numpy": (I64, _cfg(), "virtual", "S"),
    "virtual_uint32": (M.prim("uint32"), _cfg(dt=("uint32",), extremes=True), "virtual", "N"),
    "virtual_uint8": (M.prim("uint8"), _cfg(dt=("uint8",), extremes=True), "virtual", "N"),
    "virtual_float32": (M.prim("float32"), _cfg(dt=("float32",)), "virtual", "N"),
    "partitioned_list": (["list", I64], _cfg(), "partitioned", "L"),
    "partitioned_opt": (M.option_of(I64), _cfg(opts=("ByteMaskedArray",)), "partitioned", "S"),
}


# ------------------------------------------------------------------------------------------------ programs
# Every program is an ordinary Python function; it is run (1) compiled, (2) interpreted on the same ak.Array and
# (3) - through `model`, by default the function itself - on the nested-list value.
def p_len(x):
    return len(x)


def p_return_arg(x):
    return x


def p_getitem_at(x, i):
    return x[i]


def p_getitem_range(x, i, j):
    return x[i:j]


def p_range_then_at(x, i, j, k):
    return x[i:j][k]


def p_range_then_len(x, i, j):
    return len(x[i:j])


def p_range_then_sum(x, i, j):
    out = 0.0
    k = 1.0
    for y in x[i:j]:
        if y is not None:
            out += k * y
        k += 1.0
    return out


def p_range_then_lens(x, i, j):
    out = 0
    k = 1
    for sub in x[i:j]:
        if sub is not None:
            out += k * len(sub)
        k += 1
    return out


def p_range_range(x, i, j, k, m):
    return x[i:j][k:m]


def p_sum_skipnone(x):
    out = 0.0
    for y in x:
        if y is not None:
            out += y
    return out


def p_count_none(x):
    n = 0
    for y in x:
        if y is None:
            n += 1
    return n


def p_contains(x, i):
    return i in x


def p_asarray(x):
    return np.asarray(x)


def p_first_negative(x):
    k = 0
    for y in x:
        if y is not None and y < 0:
            return k
        k += 1
    return -1


def p_sum2(x):
    out = 0.0
    for sub in x:
        if sub is not None:
            for y in sub:
                if y is not None:
                    out += y
    return out


def p_lens(x):
    out = 0
    k = 1
    for sub in x:
        if sub is not None:
            out += k * len(sub)
        k += 1
    return out


def p_getitem2(x, i, j):
    return x[i][j]


def p_asarray_inner(x, i):
    return np.asarray(x[i])


def p_first_nonempty(x):
    k = 0
    for sub in x:
        if sub is not None and len(sub) > 0:
            return k
        k += 1
    return -1


def p_sum3(x):
    out = 0.0
    for a in x:
        for b in a:
            for y in b:
                out += y
    return out


def p_rec_fields(x):
    out = 0.0
    for e in x:
        out += e.x + 2 * len(e.y)
    return out


def m_rec_fields(x):
    out = 0.0
    for e in x:
        out += e["x"] + 2 * len(e["y"])
    return out


def p_getfield_x(x):
    return x.x


def p_getfield_y(x):
    return x["y"]


def m_getfield_x(x):
    return [e["x"] for e in x]


def m_getfield_y(x):
    return [e["y"] for e in x]


def p_rec_y_inner(x, i, j):
    return x[i].y[j]


def m_rec_y_inner(x, i, j):
    return x[i]["y"][j]


def p_tuple_fields(x):
    out = 0.0
    for e in x:
        out += e["0"] + 2 * e["1"]
    return out


def m_tuple_fields(x):
    out = 0.0
    for e in x:
        out += e[0] + 2 * e[1]
    return out


def p_listrec(x):
    out = 0.0
    for sub in x:
        for e in sub:
            out += e.x
    return out


def m_listrec(x):
    out = 0.0
    for sub in x:
        for e in sub:
            out += e["x"]
    return out


def b_flat(builder, x):
    for y in x:
        if y is None:
            builder.null()
        else:
            builder.real(y + 0.0)      # arithmetic unwraps numba's Optional type
    return builder


def b_real_raw(builder, x):
    for y in x:
        builder.real(y)
    return builder


def mb_real_raw(x):
    return [float(y) for y in x]


def mb_flat(x):
    return [None if y is None else float(y) for y in x]


def b_lists(builder, x):
    for sub in x:
        if sub is None:
            builder.null()
        else:
            builder.begin_list()
            for y in sub:
                if y is None:
                    builder.null()
                else:
                    builder.integer(int(y + 0))
            builder.end_list()
    return builder


def mb_lists(x):
    return [None if sub is None else [None if y is None else int(y) for y in sub] for sub in x]


def b_records(builder, x):
    for e in x:
        builder.begin_record()
        builder.field("a").integer(e.x)
        builder.field("n").integer(len(e.y))
        builder.end_record()
    return builder


def mb_records(x):
    return [{"a": e["x"], "n": len(e["y"])} for e in x]


def b_append(builder, x, i):
    builder.append(x, i)
    builder.append(x, i)
    return builder


def mb_append(x, i):
    if not -len(x) <= i < len(x):
        raise IndexError(i)
    return [x[i], x[i]]


# name -> (function, shape classes, argument kinds, model function or None, is_builder)
PROGRAMS = {
    "len": (p_len, "S L LL R T LR U N", [], None, False),
    "return_arg": (p_return_arg, "S L LL R T LR U", [], None, False),
    "getitem_at": (p_getitem_at, "S L LL R T LR U N", ["i"], None, False),
    "getitem_range": (p_getitem_range, "S L LL R T LR U N", ["r", "r"], None, False),
    "range_then_at": (p_range_then_at, "S L LL R T LR", ["r", "r", "j"], None, False),
    "range_then_len": (p_range_then_len, "S L LL R T LR U", ["r", "r"], None, False),
    "range_then_sum": (p_range_then_sum, "S", ["r", "r"], None, False),
    "range_then_lens": (p_range_then_lens, "L LL", ["r", "r"], None, False),
    "range_range": (p_range_range, "S L LL R T LR U", ["r", "r", "r", "r"], None, False),
    "sum_skipnone": (p_sum_skipnone, "S", [], None, False),
    "count_none": (p_count_none, "S L", [], None, False),
    "contains": (p_contains, "S", ["v"], None, False),
    "asarray": (p_asarray, "S N", [], None, False),
    "first_negative": (p_first_negative, "S", [], None, False),
    "sum2": (p_sum2, "L", [], None, False),
    "lens": (p_lens, "L LL", [], None, False),
    "getitem2": (p_getitem2, "L LL", ["i", "j"], None, False),
    "asarray_inner": (p_asarray_inner, "L", ["i"], None, False),
    "first_nonempty": (p_first_nonempty, "L LL", [], None, False),
    "sum3": (p_sum3, "LL", [], None, False),
    "rec_fields": (p_rec_fields, "R", [], m_rec_fields, False),
    "getfield_x": (p_getfield_x, "R", [], m_getfield_x, False),
    "getfield_y": (p_getfield_y, "R", [], m_getfield_y, False),
    "rec_y_inner": (p_rec_y_inner, "R", ["i", "j"], m_rec_y_inner, False),
    "tuple_fields": (p_tuple_fields, "T", [], m_tuple_fields, False),
    "listrec": (p_listrec, "LR", [], m_listrec, False),
    "b_flat": (b_flat, "S", [], mb_flat, True),
    "b_real_raw": (b_real_raw, "N", [], mb_real_raw, True),
    "b_lists": (b_lists, "L", [], mb_lists, True),
    "b_records": (b_records, "R", [], mb_records, True),
    "b_append": (b_append, "S L R T", ["i"], mb_append, True),
}
_JIT = {}


def setup(flavour, tier):
    P.ak()


def _jit(name):
    if name not in _JIT:
        import numba
        _JIT[name] = numba.njit(PROGRAMS[name][0])
    return _JIT[name]


# ------------------------------------------------------------------------------------------------ generation
@st.composite
def strategy_(draw):
    mname = draw(st.sampled_from(sorted(MENU)))
    T, cfg, wrapper, shape = MENU[mname]
    progs = sorted(p for p, spec in PROGRAMS.items() if shape in spec[1].split())
    pname = draw(st.sampled_from(progs))
    vals = draw(gen.values(T, cfg))
    n = len(vals)
    case = {"menu": mname, "prog": pname}
    if wrapper == "partitioned":
        k = draw(st.integers(1, 3))
        cuts = sorted(draw(st.integers(0, n)) for _ in range(k - 1))
        bounds = [0] + cuts + [n]
        case["parts"] = [draw(gen.encode(T, vals[lo:hi], cfg)) for lo, hi in zip(bounds[:-1], bounds[1:])]
    else:
        case["desc"] = draw(gen.encode(T, vals, cfg))
    args = []
    for kind in PROGRAMS[pname][2]:
        if kind == "i":
            args.append(draw(st.integers(-n - 1, n)))
        elif kind == "j":
            args.append(draw(st.integers(-4, 3)))
        elif kind == "r":
            args.append(draw(st.integers(-n - 2, n + 2)))
        else:
            args.append(draw(st.integers(-9, 9)))
    case["args"] = args
    return case


def strategy(tier):
    return strategy_()


def case_label(case):
    return case["prog"] + "|" + case["menu"]


# ------------------------------------------------------------------------------------------------ execution
def _norm(x, what):
    A = P.ak()
    if isinstance(x, (A.Array, A.Record)):
        return P.read(x, what)[1]
    if isinstance(x, np.ndarray):
        return x.tolist()
    if isinstance(x, tuple):
        return tuple(_norm(e, what) for e in x)
    return P.pyvalue(x)


def _build(case, buffers):
    A = P.ak()
    from akshim import describe as D
    T, cfg, wrapper, shape = MENU[case["menu"]]
    if wrapper == "partitioned":
        lays = [D.build(d, buffers) for d in case["parts"]]
        V = []
        for d in case["parts"]:
            V.extend(M.decode(d)[1])
        return A.Array(A.partition.IrregularlyPartitionedArray(lays)), V
    lay = D.build(case["desc"], buffers)
    V = M.decode(case["desc"])[1]
    if wrapper == "virtual":
        gen_ = A.layout.ArrayGenerator(lambda: lay, form=lay.form, length=len(lay))
        return A.Array(A.layout.VirtualArray(gen_)), V
    return A.Array(lay), V


def _run(fn, is_builder, a, args):
    A = P.ak()
    if is_builder:
        b = A.ArrayBuilder()
        out = fn(b, a, *args)
        return out.snapshot()
    return fn(a, *args)


def run_case(case):
    A = P.ak()
    import numba
    fn, _, _, model, is_builder = PROGRAMS[case["prog"]]
    args = list(case["args"])
    buffers = []
    a, V = _build(case, buffers)
    snaps = P.snapshot(buffers)
    what = case["prog"] + "|" + case["menu"]
    tags = ["prog:" + case["prog"], "menu:" + case["menu"]]

    # (3) expected, on the nested-list value
    try:
        expected = ("ok", (model or fn)(V, *args))
        if isinstance(expected[1], np.ndarray):
            expected = ("ok", expected[1].tolist())
        if case["prog"] == "return_arg":
            expected = ("ok", V)
    except (IndexError, KeyError, TypeError, ValueError):
        expected = ("error", None)
    if case["prog"] in ("asarray", "asarray_inner") and expected[0] == "ok" and (expected[1] is None or any(y is None for y in (expected[1] if isinstance(expected[1], list) else []))):
        return {"discarded": "numpy.asarray of option-type data (documented as unsupported in compiled code)"}

    # (2) interpreted
    try:
        interp = ("ok", _norm(_run(fn, is_builder, a, args), what + ":interpreted"))
    except (ValueError, IndexError, KeyError, TypeError, AttributeError) as e:
        interp = ("error", type(e).__name__ + ": " + str(e)[:120])

    # (1) compiled
    jf = _jit(case["prog"])
    rc_a, rc_l = sys.getrefcount(a), sys.getrefcount(a.layout)
    try:
        compiled = ("ok", _norm(_run(jf, is_builder, a, args), what + ":compiled"))
    except numba.core.errors.TypingError as e:
        return {"discarded": "the connector does not compile %s for %s" % (case["prog"], case["menu"]), "tags": tags}
    except (ValueError, IndexError, KeyError, TypeError) as e:
        if "union types cannot be accessed in Numba" in str(e):
            return {"discarded": "the connector refuses element access on union types (its own, explicit TypeError)", "tags": tags}
        if "wrong number or types of arguments for ArrayBuilder.append" in str(e) and MENU[case["menu"]][2] == "partitioned":
            return {"discarded": "ArrayBuilder.append of a partitioned array is not offered in compiled code (typing error)", "tags": tags}
        compiled = ("error", type(e).__name__ + ": " + str(e)[:120])
    P.check_purity(buffers, snaps, what)

    if compiled[0] != interp[0] or (compiled[0] == "ok" and not M.same_value(compiled[1], interp[1])):
        raise Violation("differs:" + what, "compiled and interpreted %s disagree" % case["prog"], expected=M.jsonable(interp), observed=M.jsonable(compiled))
    if compiled[0] != expected[0] or (compiled[0] == "ok" and not M.same_value(compiled[1], expected[1])):
        raise Violation("value:" + what, "%s (compiled and interpreted alike) differs from the same program on the nested-list value" % case["prog"],
                        expected=M.jsonable(expected), observed=M.jsonable(compiled))

    # reference counts: after the warm-up call above, repeated calls must not change them
    if compiled[0] == "ok":
        r0a, r0l = sys.getrefcount(a), sys.getrefcount(a.layout)
        for _ in range(3):
            out = _run(jf, is_builder, a, args)
            del out
        r1a, r1l = sys.getrefcount(a), sys.getrefcount(a.layout)
        if (r1a, r1l) != (r0a, r0l):
            raise Violation("refcount:" + what, "reference counts of the argument changed over three calls: array %d -> %d, layout %d -> %d" % (r0a, r1a, r0l, r1l))
    nt = bool(V) and (expected[0] == "error" or expected[1] not in (0, 0.0, [], None, -1, False) or case["prog"] in ("len", "contains"))
    return {"tags": tags + [expected[0]], "nontrivial": nt, "sample_class": case["menu"]}
