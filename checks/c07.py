"""C07 - combinations enumerate exactly the itertools tuples, in order (tier L; cartesian is Python-level)."""
from akgen import gen
from akmodel import core as M
from checks import modelbased

MANIFEST = {
    "technique": "model-based property testing (Hypothesis): itertools.combinations / combinations_with_replacement per list vs Content::combinations on generated physical encodings",
    "level_text": "Generated-input exploration: arrays whose element types are numbers, records, lists or options, in every list-node encoding (incl. regular size 0/1, lists shorter than n, empty arrays, missing lists) x axis x n in 1..3 x replacement; the tuples read back must equal itertools' tuples per list, in order. Held on everything generated outside the recorded known findings.",
    "level_note": "Trusted: itertools as the oracle, akmodel.decode, the /verif bridge, and for the Python-level part (ak.cartesian / ak.argcartesian with lists and dicts of 2-3 arrays, nested=None/True/lists, axis 0 and 1; ak.argcombinations; ak.combinations with fields) the akshim emulation of awkward._ext. Partial nesting (nested=[...]) at axis=0 is not compared: its docstring example is itself irregular.",
}
RULE = ("case = (physical description, n, replacement, axis); expected = itertools per list at the axis; "
        "non-trivial = some list at the axis has length >= n >= 2, or n exceeds a non-empty list's length; distinct by hash of the case")
ASSUMPTIONS = []
CFG = gen.Cfg(max_depth=3, leaf_dtypes=("int64", "float64", "bool"), strings=False, unknown=False, unions=False, zero_field_records=False)


def _nontrivial(T, vals, desc, spec):
    return spec["n"] >= 2


modelbased.install(globals(), "C07", ["combinations"], CFG, nontrivial=_nontrivial)


# ---- Python-level part: ak.cartesian / ak.argcartesian / ak.argcombinations / ak.combinations(fields=...) on the tier-P emulation
# (added after the seeded change C07-b - ak.cartesian with a dict of arrays dropping the requested nesting - was missed: the tier-L
# part above only reaches Content::combinations)
import itertools  # noqa: E402

from hypothesis import strategies as st  # noqa: E402

from checks import pcommon as P  # noqa: E402
from vlib.common import Violation  # noqa: E402

_l_strategy, _l_run_case, _l_case_label, _l_pre_exclude = strategy, run_case, case_label, pre_exclude  # noqa: F821
PCFG = gen.Cfg(max_depth=2, leaf_dtypes=("int64", "float64"), records=False, unions=False, strings=False, unknown=False, regular=False,
               options=False, numpy_nd=False, max_len=3, max_list=3)


@st.composite
def _p_cases(draw):
    fn = draw(st.sampled_from(["cartesian", "cartesian", "argcartesian", "argcombinations", "combinations_fields"]))
    n = draw(st.integers(0, 3))
    if fn in ("cartesian", "argcartesian"):
        k = draw(st.integers(2, 3))
        axis = draw(st.sampled_from([1, 1, 1, 0]))
        T = ["list", M.prim("int64")] if axis == 1 else M.prim("int64")
        arrays = []
        for j in range(k):
            vals = [draw(gen.value(T, PCFG)) for _ in range(n)] if axis == 1 else [draw(gen.leaf_strategy("int64", PCFG)) for _ in range(draw(st.integers(0, 3)))]
            arrays.append(draw(gen.encode(T, vals, PCFG)))
        asdict = draw(st.booleans())
        keys = ["k%d" % ((j * 2) % 3) for j in range(k)] if asdict else None
        if axis == 0:
            nested = draw(st.sampled_from([None, False, True]))      # partial nesting at axis=0 is left alone (its docstring example is irregular)
        else:
            nested = draw(st.sampled_from([None, False, True, "some", "some"]))
            if nested == "some":
                nested = sorted(draw(st.sets(st.integers(0, k - 2), max_size=k - 1)))
        return {"part": "P", "fn": fn, "arrays": arrays, "keys": keys, "axis": axis, "nested": nested}
    T = ["list", M.prim("int64")]
    vals = [draw(gen.value(T, PCFG)) for _ in range(n)]
    return {"part": "P", "fn": fn, "arrays": [draw(gen.encode(T, vals, PCFG))], "n": draw(st.integers(1, 3)), "replacement": draw(st.booleans()),
            "axis": draw(st.sampled_from([1, 1, 0])), "fields": draw(st.booleans())}


def strategy(tier):  # noqa: F811
    return st.one_of(_l_strategy(tier), _l_strategy(tier), _l_strategy(tier), _l_strategy(tier), _l_strategy(tier), _l_strategy(tier), _p_cases())


def case_label(case):  # noqa: F811
    return ("P:" + case["fn"]) if case.get("part") == "P" else _l_case_label(case)


def pre_exclude(case):  # noqa: F811
    return None if case.get("part") == "P" else _l_pre_exclude(case)


def _nest(lists, nested, mk):
    """full product of `lists` in itertools order, grouped: the boundary after array i is kept iff i in nested"""
    k = len(lists)

    def rec(i, prefix):
        if i == k - 1:
            return [mk(prefix + [x]) for x in lists[i]]
        groups = [rec(i + 1, prefix + [x]) for x in lists[i]]
        if i in nested:
            return groups
        return [t for g in groups for t in g]
    return rec(0, [])


def _p_run(case):
    A = P.ak()
    buffers = []
    arrs = [P.harray(d, buffers) for d in case["arrays"]]
    snaps = P.snapshot(buffers)
    vals = [M.decode(d)[1] for d in case["arrays"]]
    fn = case["fn"]
    tags = ["P:" + fn]
    if fn in ("cartesian", "argcartesian"):
        k = len(arrs)
        keys = case["keys"]
        nested = case["nested"]
        nset = set(range(k - 1)) if nested is True else (set() if nested in (None, False) else set(nested))
        pos = fn == "argcartesian"

        def mk(items):
            return dict(zip(keys, items)) if keys else tuple(items)
        if case["axis"] == 1:
            expected = [_nest([list(range(len(v[i]))) if pos else v[i] for v in vals], nset, mk) for i in range(len(vals[0]))]
        else:
            expected = _nest([list(range(len(v))) if pos else v for v in vals], nset, mk)
        arg = dict(zip(keys, arrs)) if keys else arrs
        lib_nested = nested if not (keys and isinstance(nested, list)) else [keys[i] for i in nested]
        kind, res = P.outcome(lambda: getattr(A, fn)(arg, axis=case["axis"], nested=lib_nested))
        tags += ["axis:%d" % case["axis"], "dict" if keys else "list", "nested:%s" % ("partial" if isinstance(nested, list) and nested else nested)]
    else:
        v = vals[0]
        n, rep = case["n"], case["replacement"]
        comb = itertools.combinations_with_replacement if rep else itertools.combinations
        names = ["c%d" % i for i in range(n)] if case.get("fields") else None

        def mk(t):
            return dict(zip(names, t)) if names else tuple(t)
        if case["axis"] == 1:
            expected = [[mk(t) for t in comb(range(len(x)) if fn == "argcombinations" else x, n)] for x in v]
        else:
            # axis=0: combinations of the array's own items (whole lists)
            expected = [mk(t) for t in comb(range(len(v)) if fn == "argcombinations" else v, n)]
        f = A.argcombinations if fn == "argcombinations" else A.combinations
        kind, res = P.outcome(lambda: f(arrs[0], n, replacement=rep, axis=case["axis"], fields=names))
        tags += ["axis:%d" % case["axis"], "n:%d" % n]
    P.check_purity(buffers, snaps, fn)
    if kind != "ok":
        raise Violation("refused:P:" + fn, "ak.%s raised %s: %s" % (fn, kind, str(res)[:300]), expected=M.jsonable(expected))
    _, got = P.read(res, fn)
    if not M.same_value(got, expected):
        raise Violation("value:P:" + fn, "ak.%s differs from the itertools enumeration" % fn, expected=M.jsonable(expected), observed=M.jsonable(got))
    flat = repr(expected)
    return {"tags": tags, "nontrivial": "(" in flat or "{" in flat, "sample_class": "P:" + fn}


def run_case(case):  # noqa: F811
    if case.get("part") == "P":
        return _p_run(case)
    return _l_run_case(case)


_l_setup = setup  # noqa: F821


def setup(flavour, tier):  # noqa: F811
    _l_setup(flavour, tier)
    P.ak()


# ---- known findings of the Python-level part (all at axis=0, the separately written branch of ak.cartesian)
def _p(case):
    return case.get("part") == "P" and case.get("fn") in ("cartesian", "argcartesian") and case.get("axis") == 0


def _known_axis0_nested_dict(case, vio):
    return _p(case) and bool(case.get("keys")) and case.get("nested") is True and vio.get("bucket", "").startswith("refused:P:") and "IndexError" in vio.get("message", "")


def _known_axis0_indexed_input(case, vio):
    return (_p(case) and vio.get("bucket", "").startswith("closure:") and "contains IndexedArray" in vio.get("message", "")
            and any(d["class"].startswith("IndexedArray") for d in case["arrays"]))


def _known_axis0_nested_empty(case, vio):
    return (_p(case) and case.get("nested") is True and vio.get("bucket", "").startswith("value:P:")
            and any(len(M.decode(d)[1]) == 0 for d in case["arrays"]))


KNOWN = dict(KNOWN)  # noqa: F821
KNOWN["cartesian_axis0_nested_dict"] = _known_axis0_nested_dict
KNOWN["cartesian_axis0_indexed_input"] = _known_axis0_indexed_input
KNOWN["cartesian_axis0_nested_empty"] = _known_axis0_nested_empty
