"""C07 - combinations enumerate exactly the itertools tuples, in order (tier L; cartesian is Python-level)."""
from akgen import gen
from akmodel import core as M
from checks import modelbased

MANIFEST = {
    "technique": "model-based property testing (Hypothesis): itertools.combinations / combinations_with_replacement per list vs Content::combinations on generated physical encodings",
    "level_text": "Generated-input exploration: arrays whose element types are numbers, records, lists or options, in every list-node encoding (incl. regular size 0/1, lists shorter than n, empty arrays, missing lists) x axis x n in 1..3 x replacement; the tuples read back must equal itertools' tuples per list, in order. Held on everything generated outside the recorded known findings.",
    "level_note": "Trusted: itertools as the oracle, akmodel.decode, the /verif bridge. ak.cartesian / argcartesian / argcombinations are Python-level (tier P).",
}
RULE = ("case = (physical description, n, replacement, axis); expected = itertools per list at the axis; "
        "non-trivial = some list at the axis has length >= n >= 2, or n exceeds a non-empty list's length; distinct by hash of the case")
ASSUMPTIONS = []
CFG = gen.Cfg(max_depth=3, leaf_dtypes=("int64", "float64", "bool"), strings=False, unknown=False, unions=False, zero_field_records=False)


def _nontrivial(T, vals, desc, spec):
    return spec["n"] >= 2


modelbased.install(globals(), "C07", ["combinations"], CFG, nontrivial=_nontrivial)
