"""C15 - JSON output parses back to the array's value; JSON input builds what it says (tier L).

Four parts, one case each:
  output    generated layout + writer options: json.loads(tojson(a)) equals the model value, compact == pretty, file == string
            back end, and the text read back by FromJsonString equals the value again (round trip);
  input     generated JSON text (also: k concatenated documents): FromJsonString(text) has the value of json.loads(text)
            (anchor) and the value *and type* of the same ArrayBuilder driven from Python with json.loads(text) (differential),
            FromJsonFile agrees with FromJsonString;
  truncate  every (or some) proper prefix of a valid text,
  corrupt   single-byte replacements / deletions / insertions of a valid text: Python's json (raw_decode loop) classifies the
            result as a sequence of documents or as malformed; malformed must raise, well-formed must agree as in `input`.
  pin       (tier P) ak.from_json of a text / k documents / one fault of a valid text, given as str, bytes, file name or pathlib.Path,
            with and without complex_record_fields: value of the text, and type and value of ak.from_iter(json.loads(text));
  pout      (tier P) ak.to_json (string and destination file) equals layout.tojson and json.loads of it equals the value;
            ak.from_json(ak.to_json(a, ...), ...) with the same nan/inf strings and complex_record_fields equals a;
  fuzz      (thorough, san) a bounded libFuzzer session of fuzz/fuzz_json.cpp whose oracle is inside the target.
"""
import json
import math
import os
import re
import subprocess
import sys
import tempfile

import numpy as np
from hypothesis import strategies as st

from akgen import gen
from akgen import jsontext as JT
from akmodel import core as M
from akshim import describe as D
from akshim import jsonio as J
from akshim import layout as L
from akshim.core import OtherNativeError, call, result_str
from vlib.common import Violation, HarnessError, build_dir

ID = "C15"
MANIFEST = {
    "technique": "property-based testing (Hypothesis) with an independent value model and a differential second driver of the same builder; grammar-based JSON text generation, exhaustive truncation and single-byte corruption of valid texts classified by Python's json; coverage-guided fuzzing (libFuzzer + ASan/UBSan) with a print/parse fixed-point oracle inside the target",
    "level_text": "Generated-input exploration of Content::tojson (string and file back ends, compact and pretty, all five replacement strings, maxdecimals) over type-directed layouts in random physical encodings against akmodel.decode; of FromJsonString / FromJsonFile over generated JSON texts (escapes, surrogate pairs, white-space and number spellings, int64/double extremes, heterogeneous arrays, records with differing key sets, deep nesting, 0..5 concatenated documents) against json.loads and against the same ArrayBuilder driven from Python; of every prefix / single-byte corruption of valid texts against Python's json as the judge of well-formedness; and, at the Python level (the unmodified /repo/src/awkward on the awkward._ext emulation), of ak.from_json (str / bytes / file name / pathlib.Path sources, complex_record_fields) against json.loads and ak.from_iter(json.loads(text)), of ak.to_json (string and file destination) against layout.tojson and the model value, and of the round trip ak.from_json(ak.to_json(a)) including complex and non-finite numbers through the user-chosen strings. Held on everything generated outside the recorded known findings.",
    "level_note": "Trusted: the RapidJSON stand-in in shim/rapidjson (lexing, number parsing and formatting are its, not RapidJSON's - no byte-exact number format is asserted and defects that only the real lexer would expose are invisible), Python's json module as grammar judge, akmodel.decode as reader of results, the /verif bridge and akshim.jsonio (a re-statement of src/python/io.cpp and builder_fromiter, which cannot be compiled here). The tier-P parts run on the awkward._ext emulation (akshim), a model of the binding. Clauses not judged: non-finite numbers without a replacement string (tojson writes nothing for them), texts with duplicate keys / lone surrogates / numbers beyond double range (outside the premise), which objects of an arbitrary text become complex numbers (only the round trip of arrays with complex numbers is judged), round-trip values under maxdecimals.",
}
RULE = ("case = (layout description, writer options) | (JSON text, reader options) | (valid text, cut points) | (valid text, byte edits) | the same two "
        "for ak.to_json / ak.from_json (source kind, complex_record_fields); texts come from "
        "generated JSON values rendered with json.dumps variants plus re-spelt strings/numbers/white space; "
        "non-trivial = the text (generated or produced by tojson) nests >= 2 levels and holds a string with an escape or a number that is not an int32, "
        "or (faults) a cut/edit position lies at nesting depth >= 2; distinct by hash of the case")
ASSUMPTIONS = [
    "a JSON text is a NUL-free byte string: FromJsonString takes a C string and the stream classes use NUL as end marker, so the oracle judges the bytes before the first NUL",
    "numbers: integer literals in [-2^63, 2^63) are exact ints, integer literals outside [-2^63, 2^64) and all literals with fraction/exponent are doubles (RapidJSON's documented SAX protocol); literals whose double is infinite (1e999) are outside the premise 'fits a double' and only required not to crash",
    "integer literals in [2^63, 2^64) fit a 64-bit (unsigned) integer and a double: the property's premise holds and the value must be preserved, exactly or as the nearest double (ArrayBuilder has no unsigned type); from_iter cannot take such a Python int (the binding casts to int64_t), so the differential half is skipped for these texts (finding C15-uint64-wrap: they used to wrap negative)",
    "texts with NaN / Infinity / -Infinity literals are malformed (RFC 8259; the reader is used without kParseNanAndInfFlag) although Python's json accepts them",
    "texts with duplicate keys in one object, with \\uD800-\\uDFFF escapes that do not form a surrogate pair, or that are not valid UTF-8 inside a string literal are outside the premise: executed, must not crash, result not judged (Python's json is lenient there, RapidJSON's default flags do not validate encodings)",
    "invalid UTF-8 outside string literals is malformed for every JSON parser and must raise",
    "non-finite floats are judged only when the matching replacement string is given (tojson without it writes nothing for the number, as RapidJSON's Writer::Double does); bytestrings are compared byte-wise through surrogateescape, UTF-8 well-formedness of the text is then not asserted",
    "tuples are records whose keys are \"0\", \"1\", ... (RecordArray::tojson_part); complex numbers are objects {real_string: re, imag_string: im}; without both strings tojson of a complex value must raise invalid_argument",
    "maxdecimals truncates: |written| <= |value| and the difference is below 10^-maxdecimals (RapidJSON SetMaxDecimalPlaces, exponent form untouched)",
    "documented builder unification: ints beside reals become reals, missing record fields are None (an object may gain keys whose value is None), one document is returned unwrapped, k != 1 documents as an array of k entries, zero documents as an empty array",
    "replacement strings for input are compared by exact equality; the three strings are generated pairwise distinct and NUL-free",
    "ArrayBuilderOptions respect the documented preconditions initial >= 1, resize > 1; FileReadStream buffer sizes >= 4 (RapidJSON asserts that)",
    "ak.from_json(str): a text of white space only (zero documents) is not recognisably JSON for the text-or-file-name guess, FileNotFoundError is accepted there; every other well-formed text must be read",
    "ak.from_iter accepts iterables only, so the comparison with ak.from_iter(json.loads(text)) is made for texts whose single document is an array or an object, and for k != 1 documents with the list of the documents (do_parse's documented result)",
    "complex_record_fields is a tuple of two distinct strings (documented type); a record of the array that has both names among its fields, or a complex number unified with another record type in one union, is outside the judged round trip (documented: such records are read as complex numbers / 'Complex number fields must be numbers')",
]
PLAN = {
    "quick": [{"flavour": "plain", "cases": 20000}, {"flavour": "san", "cases": 5000}],
    # the last entry is the libFuzzer campaign: each of its workers runs one `fuzz` seed case (FUZZ_RUNS executions, own seed)
    "thorough": [{"flavour": "plain", "cases": 160000}, {"flavour": "san", "cases": 60000},
                 {"flavour": "san", "cases": 4, "workers": 4, "flags": ["--seeds", "--fuzz"]}],
}
WALL_CAP = {"quick": 900, "thorough": 3300}
FORK_EACH = False
FUZZ_TARGETS = ["fuzz_json"]
EXPLANATION = ("census keys: part:* (output/input/concat/truncate/corrupt/pin/pout), p:* features of tier-P cases (via:str/bytes/file/path, differential = compared with ak.from_iter, roundtrip_*), verdict:* (valid/invalid/unasserted per judged text), has:* features of the "
               "text (records, unions = heterogeneous arrays, escapes, surrogate pairs, non-ASCII, int64/double extremes, deep nesting), out:* features of the layout")

INT64_MIN, INT64_MAX, UINT64_MAX = -2 ** 63, 2 ** 63 - 1, 2 ** 64 - 1
FLAVOUR = os.environ.get("VERIF_FLAVOUR", "plain")

CFG = gen.Cfg(max_depth=3, leaf_dtypes=("int64", "float64", "bool", "int8", "uint8", "int16", "uint16", "int32", "uint32", "uint64", "float32",
                                        "complex128", "complex64"),
              nan=True, extremes=True)

_SPECIAL_POOL = ["NaN", "inf", "-inf", "Infinity", "-Infinity", "nan", "", "∞", "-∞", 'N"aN', "x y", "null", "1e999"]
_FLOAT64_EDGES = [1e308, 1.7976931348623157e308, -1.7976931348623157e308, 5e-324, 2.2250738585072014e-308, 0.1, 1e21, 1e22, 1e-7, 123456.789,
                  0.30000000000000004, 9.007199254740993e15, 1e15, -0.0]
_FLOAT32_EDGES = [3.4028234663852886e38, 1.401298464324817e-45, 1.1754943508222875e-38, 0.10000000149011612, 16777216.0, -0.0]


# =========================================================================== strategies
@st.composite
def _specials(draw, p_all=2):
    """(nan, inf, minf) replacement strings: all three, a subset, or none"""
    mode = draw(st.integers(0, p_all + 1))
    if mode == 0:
        return [None, None, None]
    three = list(draw(st.permutations(_SPECIAL_POOL)))[:3]
    if mode == 1:
        return [s if draw(st.booleans()) else None for s in three]
    return three


@st.composite
def _reader_opts(draw, specials=None):
    sp = draw(_specials(1)) if specials is None else specials
    return {"nan": sp[0], "inf": sp[1], "minf": sp[2], "initial": draw(st.sampled_from([1, 2, 3, 8, 1024, 1024])),
            "resize": draw(st.sampled_from([1.1, 1.5, 1.5, 2.0])),
            "file": draw(st.sampled_from([None, None, None, 4, 5, 7, 16, 64, 65536]))}


def _inject(draw, d):
    """extreme / non-finite leaves written into a generated description (its value is whatever M.decode reads afterwards)"""
    if d["class"] == "NumpyArray":
        if (d.get("parameters") or {}).get("__array__") in ("char", "byte") or not d["data"]:
            return
        dt = d["dtype"]
        if dt in ("float64", "float32") and draw(st.integers(0, 3)) == 0:
            pool = _FLOAT64_EDGES if dt == "float64" else _FLOAT32_EDGES
            for _ in range(draw(st.integers(1, 2))):
                d["data"][draw(st.integers(0, len(d["data"]) - 1))] = draw(st.sampled_from(pool))
        elif dt.startswith("complex") and draw(st.integers(0, 5)) == 0:
            i = draw(st.integers(0, len(d["data"]) - 1))
            part = draw(st.integers(0, 1))
            d["data"][i] = list(d["data"][i])
            d["data"][i][part] = draw(st.sampled_from([float("nan"), float("inf"), float("-inf"), -0.0]))
        return
    if "content" in d:
        _inject(draw, d["content"])
    for c in d.get("contents", []):
        _inject(draw, c)


CFG_CX = gen.Cfg(max_depth=3, leaf_dtypes=("complex128", "complex64", "complex128", "float64", "int64"), nan=True, extremes=True)


@st.composite
def _output_case(draw, cfg=None):
    cfg = cfg or CFG
    T = draw(gen.types(cfg))
    vals = draw(gen.values(T, cfg))
    desc = draw(gen.encode(T, vals, cfg))
    _inject(draw, desc)
    if draw(st.integers(0, 11)) == 0:
        # deep nesting on the output side: tojson_part recursion through many list levels
        n = len(M.decode(desc)[1])
        for level in range(draw(st.sampled_from([10, 30, 60, 120]))):
            cls = draw(st.sampled_from(["ListOffsetArray64", "ListOffsetArray32", "RegularArray", "ListArray64"]))
            if cls == "RegularArray":
                desc = {"class": cls, "content": desc, "size": n, "zeros_length": 1}
            elif cls == "ListArray64":
                desc = {"class": cls, "starts": [0], "stops": [n], "content": desc}
            else:
                desc = {"class": cls, "offsets": [0, n], "content": desc}
            n = 1
    sp = draw(_specials(4))
    cx = list(draw(st.permutations(["r", "i", "real", "imag", "re im", "ℜ", 'q"']))[:2]) if draw(st.integers(0, 3)) > 0 else \
        [draw(st.sampled_from([None, "r"])), None]
    opts = {"pretty": draw(st.booleans()), "maxdecimals": draw(st.sampled_from([None, None, None, None, 0, 1, 3, 10])),
            "nan": sp[0], "inf": sp[1], "minf": sp[2], "re": cx[0], "im": cx[1], "buffersize": draw(st.sampled_from([1, 4, 16, 65536]))}
    return {"kind": "output", "desc": desc, "opts": opts, "reader": draw(_reader_opts(sp))}


@st.composite
def _value_and_text(draw, specials):
    roll = draw(st.integers(0, 19))
    cfg = JT.VCfg(beyond_ints=(roll == 0), nul_keys=(roll == 1), special_strings=[s for s in specials if s is not None])
    if roll == 2:
        v = draw(JT.deep_values(cfg))
    else:
        v = draw(JT.json_values(cfg))
    return draw(JT.texts_of(v))


@st.composite
def _input_case(draw):
    sp = draw(_specials(1))
    text = draw(_value_and_text(sp))
    return {"kind": "input", "text": text, "reader": draw(_reader_opts(sp))}


@st.composite
def _concat_case(draw):
    sp = draw(_specials(1))
    cfg = JT.VCfg(special_strings=[s for s in sp if s is not None])
    _, text = draw(JT.concatenated(cfg))
    return {"kind": "concat", "text": text, "reader": draw(_reader_opts(sp))}


@st.composite
def _fault_text(draw, sp):
    if draw(st.integers(0, 3)) == 0:
        _, text = draw(JT.concatenated(JT.VCfg(special_strings=[s for s in sp if s is not None]), kmax=3))
        return text
    return draw(_value_and_text(sp))


@st.composite
def _truncate_case(draw):
    sp = draw(_specials(1))
    text = draw(_fault_text(sp))
    b = text.encode("utf-8")
    cuts = "all" if len(b) <= 96 else draw(JT.truncations(b, 12))
    return {"kind": "truncate", "text": text, "cuts": cuts, "reader": draw(_reader_opts(sp))}


@st.composite
def _corrupt_case(draw):
    sp = draw(_specials(1))
    text = draw(_fault_text(sp))
    b = text.encode("utf-8")
    edits = [[p, x, draw(st.sampled_from(["replace", "replace", "replace", "delete", "insert"]))] for p, x in draw(JT.corruptions(b, 10))]
    return {"kind": "corrupt", "text": text, "edits": edits, "reader": draw(_reader_opts(sp))}


_CX_POOL = ["r", "i", "real", "imag", "re im", "ℜ", 'q"']


@st.composite
def _pin_case(draw):
    """tier P: a text (valid, k documents, or one fault of a valid text) for ak.from_json, through one of its source kinds"""
    sp = draw(_specials(1))
    mode = draw(st.integers(0, 7))
    fault = None
    if mode == 0:
        _, text = draw(JT.concatenated(JT.VCfg(special_strings=[s for s in sp if s is not None]), kmax=3))
    else:
        text = draw(_value_and_text(sp))
        n = len(text.encode("utf-8"))
        if mode == 1 and n > 0:
            fault = ["cut", draw(st.integers(0, n - 1))]
        elif mode == 2 and n > 0:
            pos, byte = draw(JT.corruptions(text.encode("utf-8"), 1))[0]
            fault = ["edit", pos, byte, draw(st.sampled_from(["replace", "delete", "insert"]))]
    cx = list(draw(st.permutations(_CX_POOL))[:2]) if draw(st.integers(0, 2)) == 0 else None
    return {"kind": "pin", "text": text, "fault": fault, "reader": draw(_reader_opts(sp)), "cx": cx,
            "via": draw(st.sampled_from(["str", "str", "bytes", "file", "path"])), "highlevel": draw(st.integers(0, 3)) > 0}


@st.composite
def _pout_case(draw):
    """tier P: ak.to_json of a generated array (string or file destination) and ak.from_json of what it wrote"""
    cxrich = draw(st.booleans())
    base = draw(_output_case(CFG_CX if cxrich else CFG))
    o = base["opts"]
    if (cxrich or draw(st.integers(0, 2)) > 0) and (o["re"] is None or o["im"] is None):
        o["re"], o["im"] = list(draw(st.permutations(_CX_POOL))[:2])        # complex_record_fields is a pair or None
    if o["re"] is None or o["im"] is None:
        o["re"] = o["im"] = None
    return {"kind": "pout", "desc": base["desc"], "opts": o, "reader": base["reader"], "tofile": draw(st.integers(0, 2)) == 0}


@st.composite
def _shim_case(draw):
    """harness self-validation: a batch of texts (valid, concatenated, cut, corrupted) for the RapidJSON stand-in alone"""
    texts = []
    for _ in range(draw(st.integers(4, 10))):
        mode = draw(st.integers(0, 5))
        if mode == 0:
            _, text = draw(JT.concatenated(JT.VCfg(beyond_ints=True), kmax=3))
        else:
            text = draw(JT.texts_of(draw(JT.json_values(JT.VCfg(beyond_ints=(mode == 1), max_leaves=8)))))
        b = text.encode("utf-8")
        if mode == 2 and b:
            b = b[:draw(st.integers(0, len(b) - 1))]
        elif mode == 3 and b:
            pos, byte = draw(JT.corruptions(b, 1))[0]
            b = JT.apply_corruption(b, pos, byte, draw(st.sampled_from(["replace", "delete", "insert"])))
        texts.append(JT.pack(b))
    return {"kind": "shim", "texts": texts}


def strategy(tier):
    return st.one_of(_shim_case(), _output_case(), _output_case(), _output_case(), _input_case(), _input_case(), _input_case(), _concat_case(),
                     _truncate_case(), _corrupt_case(), _corrupt_case(), _pin_case(), _pout_case())


# =========================================================================== seed corpus (examples of /repo/tests, as data) and the fuzz phase
_R = {"nan": None, "inf": None, "minf": None, "initial": 1024, "resize": 1.5, "file": None}
_SEED_TEXTS = ["[[1.1, 2.2, 3], [], [4, 5.5]]", "[[1.1, 2.2, 3], [blah], [4, 5.5]]", "[[], [[], []], [[], [], []]]", "[]", '["one", "two", "three"]',
               '[["one", "two", "three"], [], ["four", "five"]]', '{"one": 1, "two": 2.2,', '{"one": 1, "two": 2.2, "three": "THREE"}\n        {"one": 10, "two": 22,',
               '["one", "two",', '{"one": 1, "two": 2.2}{"one": 10, "two": 22}', '{"one": 1, "two": 2.2}\n\r{"one": 10, "two": 22}\n\r',
               '["one", "two"]["uno", "dos"]', '"one""two"', "1 2 3", "1.1\n2.2", "true false null", '[{"x": 1, "y": [1, 2]}, {"y": [], "x": 2.5}, null]',
               '[1, "a", [2], {"b": null}]', '[{"r": 1, "i": 2}]', '["\\ud83d\\ude00\\u00e9\\n"]', "[9223372036854775807, -9223372036854775808]"]
_BASE_SEEDS = [{"kind": "truncate" if i % 3 == 0 else "input", "text": t, "cuts": "all", "reader": dict(_R, file=(None if i % 2 else 7))}
               for i, t in enumerate(_SEED_TEXTS)]
SEED_CASES = list(_BASE_SEEDS)
FUZZ_RUNS = {"quick": 20000, "thorough": 1200000}      # per fuzz worker (4 of them): 3-12 minutes of libFuzzer under ASan+UBSan, depending on load


def setup(flavour, tier):
    global SEED_CASES
    SEED_CASES = list(_BASE_SEEDS)
    if "--fuzz" in sys.argv and flavour == "san":
        # inside a worker (python -m vlib.worker <mod> <flavour> <tier> <seed> ...) the derived per-worker seed, so that the
        # fuzz workers of one run explore differently; VERIF_SEED otherwise
        seed = int(os.environ.get("VERIF_SEED", "1"))
        if len(sys.argv) > 4 and sys.argv[4].isdigit():
            seed = int(sys.argv[4]) % (2 ** 31 - 1) + 1
        runs = int(os.environ.get("VERIF_FUZZ_RUNS", FUZZ_RUNS.get(tier, 20000)))
        SEED_CASES.append({"kind": "fuzz", "seed": seed, "runs": runs, "max_len": 256})


# =========================================================================== classification of a text by Python's json
class _Out(Exception):
    """the text leaves the property's premise (reason in args[0])"""


class Verdict(object):
    """kind: 'valid' | 'invalid' | 'unasserted'; reason (invalid/unasserted); docs: the complete documents (before the failing one
    if invalid); tail: the text from the start of the failing document; flags: features seen by the number/object hooks"""

    def __init__(self, kind, reason, docs, flags, tail="", last=""):
        self.kind, self.reason, self.docs, self.flags, self.tail, self.last = kind, reason, docs, flags, tail, last

    def dangling_scalar_results(self):
        """what do_parse's recorded defect would return for this malformed text: the documents before an unfinished scalar token
        at the very end of the stream (string without closing quote, prefix of true/false/null, number ending in '-', '.', 'e', 'e+')"""
        out = []
        if self.kind != "invalid" or "\x00" in self.tail:
            return out
        if self.tail[:1] not in ("[", "{"):
            out.append(self.docs)
        # the judge read "0." as the document 0 followed by garbage; RapidJSON reads one unfinished number
        if self.docs and _NUMPREFIX.match(self.last + self.tail):
            out.append(self.docs[:-1])
        return out


_WSCHARS = " \t\n\r"
_NUMPREFIX = re.compile(r"^-?(0|[1-9][0-9]*)(\.|(\.[0-9]+)?[eE][+-]?)$")


def classify(data, reader):
    """-> Verdict; documents hold exact ints for literals in [-2^63, 2^64) and doubles for other integer literals"""
    flags = set()
    nul = data.find(b"\x00")
    if nul >= 0:
        data = data[:nul]
        flags.add("nul_cut")
    try:
        s = data.decode("utf-8")
    except UnicodeDecodeError:
        s = data.decode("utf-8", "surrogateescape")
        flags.add("not_utf8")

    def pint(tok):
        v = int(tok)
        if INT64_MIN <= v <= INT64_MAX:
            if not -2 ** 31 <= v < 2 ** 31:
                flags.add("int64")
            return v
        if INT64_MAX < v <= UINT64_MAX:
            flags.add("uint64_range")
            return v
        flags.add("bigint")
        f = float(tok)
        if math.isinf(f):
            raise _Out("number beyond double range")
        return f

    def pfloat(tok):
        f = float(tok)
        if math.isinf(f):
            raise _Out("number beyond double range")
        flags.add("float")
        return f

    def pconst(tok):
        raise ValueError("NaN/Infinity literal")

    def pairs(kv):
        out = {}
        for k, v in kv:
            if k in out:
                raise _Out("duplicate keys")
            out[k] = v
        flags.add("record")
        return out

    dec = json.JSONDecoder(parse_float=pfloat, parse_int=pint, parse_constant=pconst, object_pairs_hook=pairs, strict=True)
    docs = []
    i, n = 0, len(s)
    last = ""
    try:
        while True:
            while i < n and s[i] in _WSCHARS:
                i += 1
            if i >= n:
                break
            try:
                v, j = dec.raw_decode(s, i)
            except json.JSONDecodeError as e:
                return Verdict("invalid", e.msg, docs, flags, s[i:], last)
            except ValueError:
                return Verdict("invalid", "NaN/Infinity literal", docs, flags, s[i:], last)
            last = s[i:j]
            i = j
            docs.append(v)
    except _Out as e:
        return Verdict("unasserted", e.args[0], docs, flags)
    except RecursionError:
        return Verdict("unasserted", "nesting beyond the judge's recursion limit", docs, flags)
    if "not_utf8" in flags:
        return Verdict("unasserted", "invalid UTF-8 inside a string literal", docs, flags)
    if _has_surrogate(docs):
        return Verdict("unasserted", "lone surrogate escape", docs, flags)
    return Verdict("valid", "", docs, flags)


def _has_surrogate(v):
    if isinstance(v, str):
        return any(0xD800 <= ord(c) <= 0xDFFF for c in v)
    if isinstance(v, list):
        return any(_has_surrogate(x) for x in v)
    if isinstance(v, dict):
        return any(_has_surrogate(k) or _has_surrogate(x) for k, x in v.items())
    return False


# --------------------------------------------------------------------------- text features (non-trivial rule, census)
_NUM = re.compile(rb"-?[0-9]+(\.[0-9]+)?([eE][+-]?[0-9]+)?")


def text_features(data):
    """(max nesting depth, set of features, depth before each byte) scanning outside string literals"""
    depth, mx = 0, 0
    feats = set()
    depths = []
    instr = esc = False
    i, n = 0, len(data)
    while i < n:
        c = data[i]
        depths.append(depth)
        if instr:
            if esc:
                esc = False
                if c == 0x75:
                    feats.add("uescape")
                    if data[i + 1:i + 2].lower() == b"d" and data[i + 2:i + 3].lower() in (b"8", b"9", b"a", b"b"):
                        feats.add("surrogate_pair")
            elif c == 0x5C:
                esc = True
                feats.add("escape")
            elif c == 0x22:
                instr = False
            elif c >= 0x80:
                feats.add("nonascii")
            i += 1
            continue
        if c == 0x22:
            instr = True
            feats.add("string")
        elif c in (0x5B, 0x7B):
            depth += 1
            mx = max(mx, depth)
            if c == 0x7B:
                feats.add("object")
        elif c in (0x5D, 0x7D):
            depth = max(0, depth - 1)
        elif c in b"-0123456789":
            m = _NUM.match(data, i)
            if m:
                tok = m.group(0)
                if m.group(1) or m.group(2) or not -2 ** 31 <= int(tok) < 2 ** 31:
                    feats.add("non_int32_number")
                depths.extend([depth] * (len(tok) - 1))
                i += len(tok)
                continue
        i += 1
    return mx, feats, depths


def nontrivial_text(data):
    mx, feats, _ = text_features(data)
    return mx >= 2 and ("escape" in feats or "non_int32_number" in feats)


def _kinds(v):
    if v is None:
        return "null"
    if isinstance(v, bool):
        return "bool"
    if isinstance(v, (int, float)):
        return "number"
    if isinstance(v, str):
        return "string"
    if isinstance(v, list):
        return "list"
    return "record"


def _heterogeneous(v):
    if isinstance(v, list):
        ks = set(_kinds(x) for x in v) - {"null"}
        return len(ks) > 1 or any(_heterogeneous(x) for x in v)
    if isinstance(v, dict):
        return any(_heterogeneous(x) for x in v.values())
    return False


def _keysets_differ(v):
    if isinstance(v, list):
        sets = [frozenset(x) for x in v if isinstance(x, dict)]
        return len(set(sets)) > 1 or any(_keysets_differ(x) for x in v)
    if isinstance(v, dict):
        return any(_keysets_differ(x) for x in v.values())
    return False


# =========================================================================== comparison
def _isnum(x):
    return isinstance(x, (int, float)) and not isinstance(x, bool)


def jsame(e, o, loose=False, tol=None):
    """expected JSON value e against observed o. loose: an observed object may have extra keys whose value is None
    (record unification). tol: decimals kept by maxdecimals (truncation)."""
    if e is None or o is None:
        return e is None and o is None
    if isinstance(e, bool) or isinstance(o, bool):
        return isinstance(e, bool) and isinstance(o, bool) and e == o
    if isinstance(e, complex) or isinstance(o, complex):
        return (isinstance(e, (int, float, complex)) and isinstance(o, (int, float, complex)) and not isinstance(e, bool) and not isinstance(o, bool)
                and M.same_value(e, o))
    if _isnum(e) and _isnum(o):
        if tol is not None and isinstance(e, float) and math.isfinite(e) and isinstance(o, float) and math.isfinite(o):
            if o == 0.0 or (o > 0) == (e > 0):
                return abs(o) <= abs(e) and abs(e) - abs(o) < 10.0 ** (-tol)
            return False
        return M.same_value(e, o)
    if isinstance(e, str) or isinstance(o, str):
        return isinstance(e, str) and isinstance(o, str) and e == o
    if isinstance(e, list) or isinstance(o, list):
        return isinstance(e, list) and isinstance(o, list) and len(e) == len(o) and all(jsame(x, y, loose, tol) for x, y in zip(e, o))
    if isinstance(e, dict) and isinstance(o, dict):
        for k, x in e.items():
            if k not in o or not jsame(x, o[k], loose, tol):
                return False
        for k, y in o.items():
            if k not in e and not (loose and y is None):
                return False
        return True
    return False


def show(v, limit=600):
    return M.jsonable(_plainvalue(v)) if len(repr(v)) < limit else repr(v)[:limit]


def _plainvalue(v):
    if isinstance(v, tuple):
        return {str(i): _plainvalue(x) for i, x in enumerate(v)}
    if isinstance(v, list):
        return [_plainvalue(x) for x in v]
    if isinstance(v, dict):
        return {k: _plainvalue(x) for k, x in v.items()}
    return v


# =========================================================================== reading results
def typestr(x):
    if isinstance(x, L.Record):
        arr = x.array       # keep the wrapper (and its handle) alive across the call
        return "record-of:" + result_str(call("typestr", [arr._h]))
    if isinstance(x, L.Content):
        return result_str(call("typestr", [x._h]))
    if x is None:
        return "None"
    return "scalar:" + type(x).__name__


def json_value_of(x):
    """what a reader result means as a JSON value (tuples never arise from JSON)"""
    if isinstance(x, L.NumpyArray) and x.parameters.get("__array__") == "char":
        T, v = D.value_of(x)
        return bytes(bytearray(v)).decode("utf-8", "surrogateescape")
    T, v = D.value_of(x)
    return v


def _read(fn):
    """('ok', result) | ('raised', message); a foreign C++ exception is a violation of its own"""
    try:
        return "ok", fn()
    except (ValueError, RuntimeError) as e:
        return "raised", str(e).split("\n")[0]


# =========================================================================== the input oracle
def _kw(reader):
    return {"nan_string": reader["nan"], "infinity_string": reader["inf"], "minus_infinity_string": reader["minf"],
            "initial": reader["initial"], "resize": reader["resize"]}


def _apply_specials(v, reader, cstring=False):
    """documented meaning of the replacement strings on input: a string equal to one of them is that float"""
    if isinstance(v, str):
        probe = v.split("\x00")[0] if cstring else v
        for name, f in (("nan", float("nan")), ("inf", float("inf")), ("minf", float("-inf"))):
            if reader[name] is not None and probe == reader[name]:
                return f
        return v
    if isinstance(v, list):
        return [_apply_specials(x, reader, cstring) for x in v]
    if isinstance(v, dict):
        return {k: _apply_specials(x, reader, cstring) for k, x in v.items()}
    return v


def _cstring_keys(v):
    """keys cut at their first NUL (what field_check(const char*) sees); None if that merges two keys"""
    if isinstance(v, list):
        out = [_cstring_keys(x) for x in v]
        return None if any(x is None and y is not None for x, y in zip(out, v)) else out
    if isinstance(v, dict):
        out = {}
        for k, x in v.items():
            k2 = k.split("\x00")[0]
            y = _cstring_keys(x)
            if k2 in out or (y is None and x is not None):
                return None
            out[k2] = y
        return out
    return v


def _wrap_uint64(v):
    if isinstance(v, int) and not isinstance(v, bool) and v > INT64_MAX:
        return v - 2 ** 64
    if isinstance(v, list):
        return [_wrap_uint64(x) for x in v]
    if isinstance(v, dict):
        return {k: _wrap_uint64(x) for k, x in v.items()}
    return v


def _has_nul_key(v):
    if isinstance(v, list):
        return any(_has_nul_key(x) for x in v)
    if isinstance(v, dict):
        return any("\x00" in k or _has_nul_key(x) for k, x in v.items())
    return False


def _known_shape(raw, expected, observed, reader, flags):
    """is the difference exactly what recorded defects produce?  -> name(s) of the defect shapes or None"""
    cands = []
    if "uint64_range" in flags:
        cands.append(("uint64_wrap", _wrap_uint64))
    if _has_nul_key(raw):
        cands.append(("nul_key_cut", _cstring_keys))
    if _has_nul_string(raw) and any(reader[k] is not None for k in ("nan", "inf", "minf")):
        cands.append(("nul_special_cut", None))
    n = len(cands)
    for mask in sorted(range(1, 2 ** n), key=lambda m: bin(m).count("1")):
        use = [c for i, c in enumerate(cands) if mask >> i & 1]
        names = [nm for nm, _ in use]
        alt = _apply_specials(raw, reader, cstring=("nul_special_cut" in names))
        for nm, fn in use:
            if fn is not None and alt is not None:
                alt = fn(alt)
        if alt is not None and jsame(alt, observed, loose=True):
            return "+".join(names)
    return None


def _has_nul_string(v):
    if isinstance(v, str):
        return "\x00" in v
    if isinstance(v, list):
        return any(_has_nul_string(x) for x in v)
    if isinstance(v, dict):
        return any(_has_nul_string(x) for x in v.values())
    return False


def _tmpfile():
    d = os.path.join(tempfile.gettempdir(), "verif_c15")
    os.makedirs(d, exist_ok=True)
    return os.path.join(d, "t%d.json" % os.getpid())


def check_text(data, reader, tags, where="input", use_file=True):
    """judge one byte string. Returns the verdict ('valid'|'invalid'|'unasserted')."""
    judged = classify(data, reader)
    verdict, body, flags = judged.kind, judged.reason, judged.flags
    kw = _kw(reader)
    try:
        outcome, res = _read(lambda: J.fromjson(data, **kw))
    except OtherNativeError as e:
        raise Violation("exception:fromjson", "FromJsonString raised a C++ exception that is neither invalid_argument nor runtime_error: %s" % str(e)[:200],
                        expected={"text": JT.pack(data)}, clause="C12-exception")
    tags.add("verdict:" + verdict)
    info = {"text": JT.pack(data), "reader": reader}
    if reader.get("file") is not None and use_file:
        path = _tmpfile()
        with open(path, "wb") as f:
            f.write(data)
        try:
            try:
                foutcome, fres = _read(lambda: J.fromjsonfile(path, buffersize=reader["file"], **kw))
            except OtherNativeError as e:
                raise Violation("exception:fromjsonfile", "FromJsonFile raised a foreign C++ exception: %s" % str(e)[:200], expected=info, clause="C12-exception")
        finally:
            os.unlink(path)
        tags.add("file_variant")
        # a file may hold bytes after a NUL; the stream stops there like the C string does, so both see the same text
        if foutcome != outcome:
            raise Violation("file_vs_string:outcome", "FromJsonFile %s but FromJsonString %s on the same text" % (foutcome, outcome),
                            expected=dict(info, string=[outcome, str(res)[:200]]), observed=[foutcome, str(fres)[:200]])
        if outcome == "ok":
            if typestr(fres) != typestr(res) or not M.same_value(_tv(fres), _tv(res), key_order=True):
                raise Violation("file_vs_string:value", "FromJsonFile and FromJsonString build different arrays from the same text",
                                expected=dict(info, string=[typestr(res), show(_tv(res))]), observed=[typestr(fres), show(_tv(fres))])
    if verdict == "unasserted":
        tags.add("unasserted:" + body)
        return verdict
    if verdict == "invalid":
        if outcome == "ok":
            # recorded defect: a last document that is an unfinished scalar token (string, literal name, number) makes no SAX callback,
            # do_parse then takes the end of the stream for the end of the documents and returns what came before
            shape = where + "|" + body
            for before in judged.dangling_scalar_results():
                before = _apply_specials(before[0] if len(before) == 1 else before, reader)
                if jsame(before, _safe_value(res), loose=True):
                    shape = "dangling_scalar"
            raise Violation("accepted_malformed:%s" % shape, "malformed JSON (%s) is accepted and yields %s" % (body, show(_safe_value(res))),
                            expected=dict(info, judge="invalid: " + body), observed=show(_safe_value(res)))
        return verdict
    # ---- well-formed: value and type
    docs = judged.docs
    if outcome != "ok":
        shape = where + "|" + res.split("(")[0].strip()[:40]
        if "filled more than once" in res and _has_nul_key(docs) and _cstring_keys(docs) is None:
            shape = "nul_key_cut_collision"      # two keys of one object are equal up to their first NUL
        raise Violation("rejected_wellformed:%s" % shape, "well-formed JSON is rejected: %s" % res[:200],
                        expected=dict(info, documents=len(docs)), observed=res[:300])
    if len(docs) != 1:
        tags.add("documents:%s" % ("0" if not docs else "2+"))
        if not isinstance(res, L.Content) or isinstance(res, L.Record) or len(res) != len(docs):
            raise Violation("documents:count", "%d concatenated documents must yield %d entries" % (len(docs), len(docs)),
                            expected=dict(info, documents=len(docs)), observed=show(_safe_value(res)))
    raw = docs[0] if len(docs) == 1 else docs
    expected = _apply_specials(raw, reader)
    observed = json_value_of(res)
    if not jsame(expected, observed, loose=True):
        shape = _known_shape(raw, expected, observed, reader, flags)
        raise Violation("anchor:%s" % (shape or where), "FromJsonString(text) does not have the value of the text",
                        expected=dict(info, value=show(expected)), observed=show(observed))
    # ---- differential: the same builder driven from Python
    if "uint64_range" in flags:
        tags.add("no_differential:uint64")   # builder_fromiter cannot take these (cast to int64_t fails)
        return verdict
    try:
        other = J.fromdocuments([_apply_specials(d, reader) for d in docs], reader["initial"], reader["resize"])
    except OtherNativeError as e:
        raise Violation("exception:builder", "ArrayBuilder raised a foreign C++ exception: %s" % str(e)[:200], expected=info, clause="C12-exception")
    ta, tb = typestr(res), typestr(other)
    va, vb = _tv(res), _tv(other)
    if ta != tb:
        raise Violation("differential:type", "FromJsonString(text) and ArrayBuilder fed json.loads(text) have different types",
                        expected=dict(info, type=tb, value=show(vb)), observed={"type": ta, "value": show(va)})
    if not M.same_value(va, vb, key_order=True):
        raise Violation("differential:value", "FromJsonString(text) and ArrayBuilder fed json.loads(text) have different values",
                        expected=dict(info, value=show(vb)), observed=show(va))
    if isinstance(res, L.Content) and not isinstance(res, L.Record) and not isinstance(observed, str):
        # (one unwrapped string document is the char array inside the string array: an element view, not an array of its own)
        err = res.validityerror()
        if err is not None:
            raise Violation("closure:fromjson", "FromJsonString returns an invalid array: %s" % err[:200], expected=info, clause="C11-closure")
    for f in flags:
        tags.add("has:" + f)
    if _heterogeneous(raw):
        tags.add("has:union")
    if _keysets_differ(raw):
        tags.add("has:differing_keysets")
    return verdict


def _tv(x):
    try:
        return D.value_of(x)[1]
    except M.Invalid as e:
        raise Violation("closure:unevaluable", "reader result cannot be evaluated: %s" % e, clause="C11-closure")


def _safe_value(x):
    try:
        return json_value_of(x)
    except Exception as e:   # noqa: B902  (only used to print)
        return "unreadable: %r" % (e,)


# =========================================================================== the output oracle
class _Image(object):
    def __init__(self, o):
        self.o = o
        self.complex = False
        self.nonfinite_unreplaced = False
        self.complex_nonfinite = False
        self.big_uint = False
        self.bytes = False
        self.tuples = False
        self.nonfinite = False

    def real(self, x, incomplex=False):
        if math.isnan(x) or math.isinf(x):
            self.nonfinite = True
            if incomplex:
                self.complex_nonfinite = True
            name = "nan" if math.isnan(x) else ("inf" if x > 0 else "minf")
            if self.o[name] is None:
                self.nonfinite_unreplaced = True
                return x
            return self.o[name]
        return x

    def of(self, v):
        if v is None or isinstance(v, (bool, str)):
            return v
        if isinstance(v, int):
            if v > INT64_MAX:
                self.big_uint = True
            return v
        if isinstance(v, float):
            return self.real(v)
        if isinstance(v, complex):
            self.complex = True
            return {self.o["re"] if self.o["re"] is not None else "?re": self.real(v.real, True),
                    self.o["im"] if self.o["im"] is not None else "?im": self.real(v.imag, True)}
        if isinstance(v, bytes):
            self.bytes = True
            return v.decode("utf-8", "surrogateescape")
        if isinstance(v, tuple):
            self.tuples = True
            return {str(i): self.of(x) for i, x in enumerate(v)}
        if isinstance(v, dict):
            return {k: self.of(x) for k, x in v.items()}
        if isinstance(v, list):
            return [self.of(x) for x in v]
        raise HarnessError("value the JSON image does not know: %r" % (v,))


def _loads_strict(text):
    def pconst(tok):
        raise ValueError("NaN/Infinity literal in output")
    return json.loads(text, parse_constant=pconst)


def run_output(case):
    desc, o = case["desc"], case["opts"]
    T, V = M.decode(desc)
    img = _Image(o)
    expected = img.of(V)
    lay = D.build(desc)
    kw = {"pretty": o["pretty"], "maxdecimals": o["maxdecimals"], "nan_string": o["nan"], "infinity_string": o["inf"],
          "minus_infinity_string": o["minf"], "complex_real_string": o["re"], "complex_imag_string": o["im"]}
    tags = set(["part:output"])
    feats = gen.features(desc)
    from checks.common import classpath
    region = classpath(desc, 3)
    try:
        outcome, text = _read(lambda: lay.tojson(**kw))
    except OtherNativeError as e:
        raise Violation("exception:tojson", "tojson raised a foreign C++ exception: %s" % str(e)[:200], clause="C12-exception")
    must_raise = img.complex and (o["re"] is None or o["im"] is None)
    if must_raise:
        tags.add("out:complex_without_strings")
        if outcome == "ok":
            raise Violation("complex_unrefused|" + region, "tojson of complex values without both complex strings must raise", observed=text[:300])
        return {"tags": sorted(tags), "nontrivial": False, "sample_class": "output"}
    if outcome != "ok":
        raise Violation("tojson_raised|" + region, "tojson raised on a valid array: %s" % text[:200], observed=text[:300])
    data = text.encode("utf-8", "surrogateescape")
    # ---- string and file back ends, compact and pretty writers
    path = _tmpfile()
    try:
        lay.tojson(path, o["pretty"], o["maxdecimals"], o["buffersize"], o["nan"], o["inf"], o["minf"], o["re"], o["im"])
        with open(path, "rb") as f:
            fdata = f.read()
    finally:
        if os.path.exists(path):
            os.unlink(path)
    if fdata != data:
        raise Violation("file_vs_string:tojson|" + region, "tojson to a file and to a string differ (buffersize %d)" % o["buffersize"],
                        expected=text[:400], observed=fdata.decode("utf-8", "surrogateescape")[:400])
    for k in ("complex", "bytes", "tuples", "nonfinite", "big_uint"):
        if getattr(img, k):
            tags.add("out:" + k)
    for f in feats & {"RecordArray", "UnionArray8_32", "UnionArray8_U32", "UnionArray8_64", "numpy_nd", "numpy_noncontiguous", "offsets0!=0",
                      "ByteMaskedArray", "BitMaskedArray", "IndexedOptionArray32", "IndexedOptionArray64", "UnmaskedArray", "RegularArray", "EmptyArray"}:
        tags.add("out:" + f.replace("UnionArray8_32", "UnionArray").replace("UnionArray8_U32", "UnionArray").replace("UnionArray8_64", "UnionArray"))
    if img.nonfinite_unreplaced:
        tags.add("unasserted:non-finite without replacement string")
        return {"tags": sorted(tags), "nontrivial": False, "sample_class": "output"}
    other = lay.tojson(**dict(kw, pretty=not o["pretty"]))
    try:
        parsed = _loads_strict(text)
    except ValueError as e:
        shape = "complex_nonfinite" if img.complex_nonfinite and re.search(r'":\s*[,}]', text) else "text"
        raise Violation("illformed:%s|%s" % (shape, region), "tojson output is not well-formed JSON: %s" % e, expected=show(expected), observed=text[:600])
    try:
        parsed2 = _loads_strict(other)
    except ValueError as e:
        raise Violation("illformed:other_writer|" + region, "the %s writer's output is not well-formed JSON: %s" % ("compact" if o["pretty"] else "pretty", e),
                        observed=other[:600])
    if not jsame(parsed, parsed2) or not jsame(parsed2, parsed):
        raise Violation("pretty_vs_compact|" + region, "the compact and the pretty writer disagree", expected=text[:400], observed=other[:400])
    if not jsame(expected, parsed, tol=o["maxdecimals"]):
        shape = "uint64_wrap" if img.big_uint and jsame(_wrap_uint64(expected), parsed, tol=o["maxdecimals"]) else "value"
        raise Violation("output:%s|%s" % (shape, region), "json.loads(tojson(a)) differs from the value of a", expected=show(expected), observed=show(parsed))
    # ---- elements: what getitem_at returns (a Record -> Record::tojson_part, a sub-array view) prints as the corresponding entry
    n = len(expected) if isinstance(expected, list) else 0
    for i in (sorted(set([0, n - 1])) if n else []):
        item = lay[i]
        if not isinstance(item, L.Content):
            continue                                         # None or a boxed Python scalar
        what = "record" if isinstance(item, L.Record) else "array"
        ioutcome, itext = _read(lambda: item.tojson(**kw))
        if ioutcome != "ok":
            raise Violation("tojson_raised:item_%s|%s" % (what, region), "tojson of element %d raised: %s" % (i, itext[:200]), observed=itext[:300])
        try:
            iparsed = _loads_strict(itext)
        except ValueError as e:
            raise Violation("illformed:item_%s|%s" % (what, region), "tojson of element %d is not well-formed JSON: %s" % (i, e), expected=show(expected[i]), observed=itext[:600])
        if not jsame(expected[i], iparsed, tol=o["maxdecimals"]):
            raise Violation("output:item_%s|%s" % (what, region), "json.loads(tojson(a[%d])) differs from the value of a[%d]" % (i, i),
                            expected=show(expected[i]), observed=show(iparsed))
        tags.add("out:item_" + what)
    # ---- round trip through the reader (replacement strings as written)
    reader = dict(case["reader"], nan=o["nan"], inf=o["inf"], minf=o["minf"])
    # a non-finite replacement string that also occurs as an ordinary string value reads back as the float: documented, and
    # exactly what the input oracle predicts from the text, so nothing special is needed here
    v = check_text(data, reader, tags, where="roundtrip")
    if v == "invalid":
        raise HarnessError("the judge calls a text invalid that json.loads accepted: %r" % text[:200])
    mx, tf, _ = text_features(data)
    for f in tf & {"escape", "nonascii", "non_int32_number", "object"}:
        tags.add("has:" + f)
    if mx >= 10:
        tags.add("out:deep_nesting")
    nontrivial = mx >= 2 and bool(tf & {"escape", "non_int32_number"})
    return {"tags": sorted(tags), "nontrivial": nontrivial, "sample_class": "output"}


# =========================================================================== parts
def run_input(case):
    data = JT.unpack(case["text"])
    tags = set(["part:" + case["kind"]])
    verdict = check_text(data, case["reader"], tags, where=case["kind"])
    mx, tf, _ = text_features(data)
    for f in tf:
        tags.add("has:" + f)
    if mx >= 10:
        tags.add("has:deep_nesting")
    return {"tags": sorted(tags), "nontrivial": verdict == "valid" and mx >= 2 and bool(tf & {"escape", "non_int32_number"}), "sample_class": case["kind"]}


def run_truncate(case):
    data = JT.unpack(case["text"])
    tags = set(["part:truncate"])
    base = check_text(data, case["reader"], tags, where="truncate-base")
    mx, tf, depths = text_features(data)
    cuts = list(range(len(data))) if case["cuts"] == "all" else [c for c in case["cuts"] if 0 <= c < len(data)]
    counts = {"prefixes_judged": 0, "prefixes_invalid": 0, "prefixes_valid": 0, "prefixes_inside_nested": 0}
    nested = False
    for n, c in enumerate(cuts):
        sub = set()
        v = check_text(data[:c], case["reader"], sub, where="truncate", use_file=(n % 7 == 0))
        counts["prefixes_judged"] += 1
        if v in ("valid", "invalid"):
            counts["prefixes_" + v] += 1
        if depths[c] >= 2:
            nested = True
            counts["prefixes_inside_nested"] += 1
        tags |= set(t for t in sub if t.startswith(("unasserted", "file_variant")))
    return {"tags": sorted(tags), "counts": counts, "nontrivial": base == "valid" and nested, "sample_class": "truncate"}


def run_corrupt(case):
    data = JT.unpack(case["text"])
    tags = set(["part:corrupt"])
    base = check_text(data, case["reader"], tags, where="corrupt-base")
    mx, tf, depths = text_features(data)
    counts = {"edits_judged": 0, "edits_invalid": 0, "edits_valid": 0, "edits_unasserted": 0}
    nested = False
    for n, (pos, byte, how) in enumerate(case["edits"]):
        if not 0 <= pos < len(data):
            continue
        mutated = JT.apply_corruption(data, pos, byte, how)
        sub = set()
        v = check_text(mutated, case["reader"], sub, where="corrupt", use_file=(n % 3 == 0))
        counts["edits_judged"] += 1
        counts["edits_" + v] += 1
        if depths[pos] >= 2:
            nested = True
        tags |= set(t for t in sub if t.startswith(("unasserted", "file_variant")))
    return {"tags": sorted(tags), "counts": counts, "nontrivial": base == "valid" and nested, "sample_class": "corrupt"}


# =========================================================================== the RapidJSON stand-in against Python's json (harness self-validation)
def run_shim(case):
    """shim/selftest/rt.cpp (built as rjselftest) parses each text with the stand-in's DOM parser, re-prints it compact and pretty,
    re-parses, and counts documents with the stop-when-done SAX loop. Any disagreement with Python's json is a HarnessError:
    the stand-in is ours (DESIGN 2.2), a deviation of it is never a finding about /repo."""
    exe = os.path.join(build_dir("plain"), "rjselftest")
    if not os.path.exists(exe):
        raise HarnessError("stand-in self-test binary %s is missing (make all)" % exe)
    datas = [JT.unpack(t) for t in case["texts"]]
    datas = [d.split(b"\x00")[0] for d in datas]                 # C-string interface
    env = {k: v for k, v in os.environ.items() if k not in ("LD_PRELOAD", "ASAN_OPTIONS", "UBSAN_OPTIONS")}
    p = subprocess.run([exe], input=("\n".join(d.hex() for d in datas) + "\n").encode(), capture_output=True, env=env, timeout=120)
    lines = p.stdout.decode().splitlines()
    if p.returncode != 0 or len(lines) != len(datas):
        raise HarnessError("rjselftest failed (status %d, %d lines for %d texts): %s" % (p.returncode, len(lines), len(datas), p.stderr.decode("utf-8", "replace")[-500:]))
    counts = {"shim_texts": 0, "shim_valid": 0, "shim_invalid": 0, "shim_multi": 0, "shim_unasserted": 0}
    none = {"nan": None, "inf": None, "minf": None}
    for data, line in zip(datas, lines):
        main, nd = line.split(" | ")
        judged = classify(data, none)
        counts["shim_texts"] += 1
        if judged.kind == "unasserted" or b"NaN" in data or b"Inf" in data:
            counts["shim_unasserted"] += 1         # outside the premise / literals that only kParseNanAndInfFlag reads
            continue
        want_nd = len(judged.docs) if judged.kind == "valid" else -1
        if int(nd) != want_nd:
            raise HarnessError("stand-in SAX loop finds %s documents, Python's json %d, in %r" % (nd, want_nd, data))
        single = judged.kind == "valid" and len(judged.docs) == 1
        if main.startswith("OK") != single:
            raise HarnessError("stand-in DOM parser %s a text that is %sone well-formed document: %r" % ("accepts" if main.startswith("OK") else "rejects", "" if single else "not ", data))
        if single:
            _, compact, pretty, eq = main.split(" ")
            cv = json.loads(bytes.fromhex(compact).decode("utf-8"))
            pv = json.loads(bytes.fromhex(pretty).decode("utf-8"))
            if eq != "1" or not jsame(judged.docs[0], cv) or not jsame(cv, judged.docs[0]) or not jsame(cv, pv) or not jsame(pv, cv):
                raise HarnessError("stand-in changes a value when printing / re-parsing: %r -> %r / %r (reparse equal: %s)" % (data, cv, pv, eq))
            counts["shim_valid"] += 1
        elif judged.kind == "valid":
            counts["shim_multi"] += 1
        else:
            counts["shim_invalid"] += 1
    return {"tags": ["part:shim_selftest"], "counts": counts, "nontrivial": False, "sample_class": "shim"}


# =========================================================================== tier P: ak.to_json / ak.from_json / ak.from_iter (/repo/src/awkward on the _ext emulation)
_PAK = [None]


def _pak():
    if _PAK[0] is None:
        from checks import pcommon as P
        A = P.ak()
        import awkward._ext as E
        try:
            E.ArrayBuilder()
        except NotImplementedError:
            # the emulation of ak.layout.ArrayBuilder belongs to another check (akshim/builder.py) and may not be merged yet;
            # ak.from_iter needs ArrayBuilder(initial=, resize=).fromiter(x) / .snapshot() only, which akshim.jsonio.JsonBuilder is
            E.ArrayBuilder = J.JsonBuilder
            A.layout.ArrayBuilder = J.JsonBuilder
        _PAK[0] = (A, P)
    return _PAK[0]


def _poutcome(fn):
    """pcommon.outcome, plus: the emulated constructors' refusal of a non-Content argument (in the binding: unbox_content's
    std::invalid_argument, raised in native code) is an exception of the library call, not a harness failure"""
    A, P = _pak()
    try:
        return P.outcome(fn)
    except TypeError as e:
        if "must be a Content subtype" in str(e) or "needs a RecordArray" in str(e):
            return ("TypeError", str(e))
        raise


def _pvalue(x, what):
    """JSON-level value of what ak.from_json / ak.from_iter returned"""
    A, P = _pak()
    lay = x.layout if isinstance(x, (A.Array, A.Record)) else x
    if isinstance(lay, L.NumpyArray) and lay.parameters.get("__array__") == "char":
        return json_value_of(lay)          # one unwrapped string document
    if isinstance(x, (A.Array, A.Record)) or isinstance(lay, L.Content):
        return P.read(x, what, check_valid=not isinstance(lay, L.Record))[1]
    return P.pyvalue(x)


def _ptype(x):
    A, P = _pak()
    if isinstance(x, (A.Array, A.Record)) or isinstance(x, L.Content):
        return str(A.type(x))
    return "scalar:" + type(x).__name__


def _has_both_keys(v, a, b):
    if isinstance(v, list):
        return any(_has_both_keys(x, a, b) for x in v)
    if isinstance(v, dict):
        return (a in v and b in v) or any(_has_both_keys(x, a, b) for x in v.values())
    return False


def _type_has(T, pred):
    if pred(T):
        return True
    k = T[0]
    if k in ("list", "regular", "option"):
        return _type_has(T[1], pred)
    if k == "record":
        return any(_type_has(t, pred) for _, t in T[1])
    if k == "union":
        return any(_type_has(t, pred) for t in T[1])
    return False


def _cx_shares_position(v, cx):
    """does an object with both complex field names share its builder position with an object lacking one of them?"""
    acc = {}

    def walk(x, path):
        if isinstance(x, list):
            for y in x:
                walk(y, path + ("[]",))
        elif isinstance(x, dict):
            acc.setdefault(path, []).append(frozenset(x))
            for k, y in x.items():
                walk(y, path + ("." + k,))
    walk(v, ())
    both = frozenset(cx)
    return any(any(both <= ks for ks in sets) and any(not both <= ks for ks in sets) for sets in acc.values())


def run_pin(case):
    A, P = _pak()
    data = JT.unpack(case["text"])
    fault = case.get("fault")
    if fault:
        data = data[:fault[1]] if fault[0] == "cut" else JT.apply_corruption(data, fault[1], fault[2], fault[3])
    reader, cx = case["reader"], case.get("cx")
    tags = set(["part:pin", "p:" + ("fault" if fault else "text")])
    judged = classify(data, reader)
    via = case["via"]
    if via == "str":
        try:
            source = data.decode("utf-8")
        except UnicodeDecodeError:
            via = "bytes"
    if via == "bytes":
        source = data
    path = None
    if via in ("file", "path"):
        path = _tmpfile() + ".p"
        with open(path, "wb") as f:
            f.write(data)
        import pathlib
        source = path if via == "file" else pathlib.Path(path)
    tags.add("p:via:" + via)
    kw = {"nan_string": reader["nan"], "infinity_string": reader["inf"], "minus_infinity_string": reader["minf"], "initial": reader["initial"],
          "resize": reader["resize"], "highlevel": case["highlevel"]}
    if reader.get("file") is not None:
        kw["buffersize"] = reader["file"]
    if cx is not None:
        kw["complex_record_fields"] = (cx[0], cx[1])
        tags.add("p:complex_record_fields")
    info = {"text": JT.pack(data), "via": via, "kwargs": {k: v for k, v in kw.items()}}
    try:
        outcome, res = _poutcome(lambda: A.from_json(source, **kw))
    finally:
        if path is not None and os.path.exists(path):
            os.unlink(path)
    tags.add("verdict:" + judged.kind)
    if via in ("str", "bytes"):
        # the high-level function has to guess whether a str is a JSON text or a file name: a text of nothing but white space
        # (zero documents) is not recognisably JSON, so either answer is accepted there
        if judged.kind == "valid" and not judged.docs:
            tags.add("unasserted:zero documents as str")
            return {"tags": sorted(tags), "nontrivial": False, "sample_class": "pin"}
    if judged.kind == "unasserted":
        tags.add("unasserted:" + judged.reason)
        return {"tags": sorted(tags), "nontrivial": False, "sample_class": "pin"}
    if judged.kind == "invalid":
        if outcome == "ok":
            raise Violation("p:accepted_malformed|" + judged.reason, "ak.from_json accepts malformed JSON (%s) and yields %s" % (judged.reason, show(_pvalue(res, "from_json"))),
                            expected=dict(info, judge="invalid: " + judged.reason), observed=show(_pvalue(res, "from_json")))
        return {"tags": sorted(tags), "nontrivial": False, "sample_class": "pin"}
    docs, flags = judged.docs, judged.flags
    if outcome != "ok":
        shape = outcome
        if outcome == "FileNotFoundError" and data.lstrip(b" \t\r\n")[:1] == b"-":
            shape = "leading_minus"          # a text whose first document is a negative number is taken for a file name
        elif outcome == "TypeError" and via == "bytes" and data.lstrip(b" \t\r\n")[:1] == b"-":
            shape = "leading_minus"
        elif "filled more than once" in res and _has_nul_key(docs) and _cstring_keys(docs) is None:
            raise Violation("rejected_wellformed:nul_key_cut_collision", "well-formed JSON is rejected: %s" % res[:200], expected=info, observed=res[:300])
        raise Violation("p:rejected_wellformed|" + shape, "ak.from_json rejects well-formed JSON: %s: %s" % (outcome, res[:200]),
                        expected=dict(info, documents=len(docs)), observed=[outcome, res[:300]])
    if case["highlevel"] and isinstance(res, (np.ndarray, L.Content)):
        raise Violation("p:not_highlevel|" + type(res).__name__, "ak.from_json(highlevel=True) returns a %s, not an ak.Array / ak.Record / scalar" % type(res).__name__,
                        expected=info, observed=repr(res)[:300])
    raw = docs[0] if len(docs) == 1 else docs
    if cx is not None and _has_both_keys(raw, cx[0], cx[1]):
        # which objects become complex numbers is decided per RecordArray after unification; exercised by the round trip of
        # `pout` cases, where the array says where the complex numbers are
        tags.add("unasserted:text has objects with both complex field names")
        return {"tags": sorted(tags), "nontrivial": False, "sample_class": "pin"}
    expected = _apply_specials(raw, reader)
    observed = _pvalue(res, "from_json")
    if len(docs) != 1:
        tags.add("documents:2+")
        if not isinstance(observed, list) or len(observed) != len(docs):
            raise Violation("p:documents:count", "%d concatenated documents must yield %d entries" % (len(docs), len(docs)), expected=info, observed=show(observed))
    if not jsame(expected, observed, loose=True):
        shape = _known_shape(raw, expected, observed, reader, flags)
        raise Violation("anchor:%s" % (shape or "p:from_json"), "ak.from_json(text) does not have the value of the text",
                        expected=dict(info, value=show(expected)), observed=show(observed))
    # ---- the property's own words: ak.from_iter(json.loads(text))
    iterable = None
    if "uint64_range" in flags:
        tags.add("no_differential:uint64")
    elif len(docs) != 1:
        iterable = [_apply_specials(d, reader) for d in docs]        # k documents are the k entries of one array
    elif isinstance(raw, (list, dict)):
        iterable = expected
    else:
        tags.add("no_differential:scalar document")                  # from_iter takes iterables only
    if iterable is not None:
        okind, other = P.outcome(lambda: A.from_iter(iterable, highlevel=case["highlevel"], initial=reader["initial"], resize=reader["resize"]))
        if okind != "ok":
            raise Violation("p:from_iter_raised|" + okind, "ak.from_iter(json.loads(text)) raises %s: %s while ak.from_json(text) succeeds" % (okind, other[:200]),
                            expected=info, observed=[okind, other[:300]])
        ta, tb = _ptype(res), _ptype(other)
        va, vb = _pvalue(res, "from_json"), _pvalue(other, "from_iter")
        if ta != tb:
            raise Violation("p:differential:type", "ak.from_json(text) and ak.from_iter(json.loads(text)) have different types",
                            expected=dict(info, type=tb, value=show(vb)), observed={"type": ta, "value": show(va)})
        if not M.same_value(va, vb, key_order=True):
            raise Violation("p:differential:value", "ak.from_json(text) and ak.from_iter(json.loads(text)) have different values",
                            expected=dict(info, value=show(vb)), observed=show(va))
        tags.add("p:differential")
    mx, tf, _ = text_features(data)
    return {"tags": sorted(tags), "nontrivial": mx >= 2 and bool(tf & {"escape", "non_int32_number"}), "sample_class": "pin"}


def _rt_image(v, o, keep_complex):
    """value that ak.from_json(ak.to_json(a, ...), ...) with the same strings must have"""
    if v is None or isinstance(v, (bool, int)):
        return v
    if isinstance(v, float):
        return v
    if isinstance(v, str):
        return _apply_specials(v, {"nan": o["nan"], "inf": o["inf"], "minf": o["minf"]})
    if isinstance(v, complex):
        return v if keep_complex else {o["re"]: v.real, o["im"]: v.imag}
    if isinstance(v, bytes):
        return _rt_image(v.decode("utf-8", "surrogateescape"), o, keep_complex)
    if isinstance(v, tuple):
        return {str(i): _rt_image(x, o, keep_complex) for i, x in enumerate(v)}
    if isinstance(v, dict):
        return {k: _rt_image(x, o, keep_complex) for k, x in v.items()}
    if isinstance(v, list):
        return [_rt_image(x, o, keep_complex) for x in v]
    raise HarnessError("value the round-trip image does not know: %r" % (v,))


def run_pout(case):
    A, P = _pak()
    desc, o = case["desc"], case["opts"]
    T, V = M.decode(desc)
    img = _Image(o)
    expected = img.of(V)
    tags = set(["part:pout"])
    from checks.common import classpath
    region = classpath(desc, 3)
    lay = D.build(desc)
    arr = A.Array(lay)
    cx = (o["re"], o["im"]) if o["re"] is not None and o["im"] is not None else None
    kw = {"pretty": o["pretty"], "maxdecimals": o["maxdecimals"], "nan_string": o["nan"], "infinity_string": o["inf"],
          "minus_infinity_string": o["minf"], "complex_record_fields": cx}
    lkw = {"pretty": o["pretty"], "maxdecimals": o["maxdecimals"], "nan_string": o["nan"], "infinity_string": o["inf"],
           "minus_infinity_string": o["minf"], "complex_real_string": o["re"], "complex_imag_string": o["im"]}
    path = (_tmpfile() + ".pout") if case["tofile"] else None
    try:
        if path is None:
            outcome, text = P.outcome(lambda: A.to_json(arr, **kw))
        else:
            tags.add("p:destination_file")
            outcome, text = P.outcome(lambda: A.to_json(arr, path, buffersize=o["buffersize"], **kw))
            if outcome == "ok":
                if text is not None:
                    raise Violation("p:to_json_file_returns|" + region, "ak.to_json with a destination must return None", observed=repr(text)[:200])
                with open(path, "rb") as f:
                    text = f.read().decode("utf-8", "surrogateescape")
    except BaseException:
        if path is not None and os.path.exists(path):
            os.unlink(path)
        raise
    try:
        return _pout_rest(case, A, P, T, V, img, expected, tags, region, lay, arr, cx, kw, lkw, path, outcome, text)
    finally:
        if path is not None and os.path.exists(path):
            os.unlink(path)


def _pout_rest(case, A, P, T, V, img, expected, tags, region, lay, arr, cx, kw, lkw, path, outcome, text):
    o = case["opts"]
    if img.complex and cx is None:
        tags.add("out:complex_without_strings")
        if outcome == "ok":
            raise Violation("p:complex_unrefused|" + region, "ak.to_json of complex values without complex_record_fields must raise", observed=text[:300])
        return {"tags": sorted(tags), "nontrivial": False, "sample_class": "pout"}
    if outcome != "ok":
        raise Violation("p:to_json_raised|" + region, "ak.to_json raised on a valid array: %s: %s" % (outcome, text[:200]), observed=[outcome, text[:300]])
    low = lay.tojson(**lkw)
    if text != low:
        raise Violation("p:to_json_vs_layout|" + region, "ak.to_json(array) and array.layout.tojson with the same options differ", expected=low[:400], observed=text[:400])
    for k in ("complex", "bytes", "tuples", "nonfinite", "big_uint"):
        if getattr(img, k):
            tags.add("out:" + k)
    if img.nonfinite_unreplaced:
        tags.add("unasserted:non-finite without replacement string")
        return {"tags": sorted(tags), "nontrivial": False, "sample_class": "pout"}
    try:
        parsed = _loads_strict(text)
    except ValueError as e:
        raise Violation("p:illformed|" + region, "ak.to_json output is not well-formed JSON: %s" % e, expected=show(expected), observed=text[:600])
    if not jsame(expected, parsed, tol=o["maxdecimals"]):
        shape = "uint64_wrap" if img.big_uint and jsame(_wrap_uint64(expected), parsed, tol=o["maxdecimals"]) else "p:value"
        raise Violation("output:%s|%s" % (shape, region), "json.loads(ak.to_json(a)) differs from ak.to_list(a)", expected=show(expected), observed=show(parsed))
    if isinstance(expected, list) and expected and isinstance(lay[0], L.Record):
        # ak.to_json of an ak.Record (the element as the high-level __getitem__ returns it)
        rkind, rtext = P.outcome(lambda: A.to_json(arr[0], **kw))
        if rkind != "ok":
            raise Violation("p:to_json_raised:record|" + region, "ak.to_json(a[0]) raised on a record: %s: %s" % (rkind, rtext[:200]), observed=[rkind, rtext[:300]])
        try:
            rparsed = _loads_strict(rtext)
        except ValueError as e:
            raise Violation("p:illformed:record|" + region, "ak.to_json(a[0]) is not well-formed JSON: %s" % e, expected=show(expected[0]), observed=rtext[:600])
        if not jsame(expected[0], rparsed, tol=o["maxdecimals"]):
            raise Violation("output:p:record|" + region, "json.loads(ak.to_json(a[0])) differs from ak.to_list(a[0])", expected=show(expected[0]), observed=show(rparsed))
        tags.add("p:to_json_record")
    aslist = _Image(o).of(P.pyvalue(A.to_list(arr)))          # the property in its own words (the model value is the anchor above)
    if not jsame(aslist, parsed, tol=o["maxdecimals"]):
        raise Violation("p:to_list_vs_to_json|" + region, "json.loads(ak.to_json(a)) differs from ak.to_list(a)", expected=show(aslist), observed=show(parsed))
    tags.add("p:to_list_compared")
    # ---- ak.from_json(ak.to_json(a)) with the same strings: equals a up to the builder's unification
    names_clash = cx is not None and _type_has(T, lambda t: t[0] == "record" and not t[2] and cx[0] in [n for n, _ in t[1]] and cx[1] in [n for n, _ in t[1]])
    # ArrayBuilder merges, position by position (all lists at one position are one list, all objects one record type), so a
    # complex number {re, im} that shares its position with any other object ends up in a RecordArray whose re/im fields are
    # option-type: from_json then raises the documented "Complex number fields must be numbers"
    complex_beside_record = cx is not None and img.complex and _cx_shares_position(expected, cx)
    rkw = {"nan_string": o["nan"], "infinity_string": o["inf"], "minus_infinity_string": o["minf"], "complex_record_fields": cx,
           "initial": case["reader"]["initial"], "resize": case["reader"]["resize"]}
    # (what was written to a destination file is read back by its name)
    okind, back = _poutcome(lambda: A.from_json(path if path is not None else text, **rkw))
    if path is not None:
        tags.add("p:roundtrip_through_file")
    if names_clash or complex_beside_record:
        # a user record with both field names is (documented) read as a complex number, and a complex number unified with
        # another record in one RecordArray has option-type parts ("Complex number fields must be numbers"): not judged
        tags.add("unasserted:records interfere with complex_record_fields")
        if okind not in ("ok", "ValueError"):
            raise Violation("p:roundtrip_raised|" + okind, "ak.from_json(ak.to_json(a)) raises %s: %s" % (okind, back[:200]), expected=text[:400], observed=[okind, back[:300]])
        return {"tags": sorted(tags), "nontrivial": False, "sample_class": "pout"}
    if okind != "ok":
        raise Violation("p:roundtrip_raised|%s|%s" % (okind, "complex" if img.complex else "plain"), "ak.from_json(ak.to_json(a)) raises %s: %s" % (okind, back[:200]),
                        expected={"text": text[:400], "kwargs": rkw}, observed=[okind, back[:300]])
    if not isinstance(back, A.Array):
        raise Violation("p:not_highlevel|" + type(back).__name__, "ak.from_json of a JSON array returns a %s, not an ak.Array" % type(back).__name__,
                        expected={"text": text[:400], "kwargs": rkw}, observed=repr(back)[:300])
    if o["maxdecimals"] is None:
        want = _rt_image(V, o, keep_complex=True)
        got = _pvalue(back, "from_json")
        if not jsame(want, got, loose=True):
            shape = "uint64_wrap" if img.big_uint else ("complex" if img.complex else "plain")
            raise Violation("p:roundtrip:%s|%s" % (shape, region), "ak.from_json(ak.to_json(a)) differs from a", expected=show(want), observed=show(got))
        tags.add("p:roundtrip_value")
        if img.complex:
            tags.add("p:roundtrip_complex")
    mx, tf, _ = text_features(text.encode("utf-8", "surrogateescape"))
    return {"tags": sorted(tags), "nontrivial": mx >= 2 and bool(tf & {"escape", "non_int32_number"}), "sample_class": "pout"}


# =========================================================================== libFuzzer phase
_FUZZ_SEEDS = [b"[1,2,3]", b'{"x":1,"y":[1.5,null,"a\\u00e9"]}', b"[[1.1,2.2],[],[3]] [4]", b'[{"a":1},{"b":[true,false]}]', b'"\\ud83d\\ude00"',
               b"[9223372036854775807,-9223372036854775808,1e308,-0.0]", b'[1,"a",[2],{"b":null}]', b"1 2 3", b"", b"[[[[[[1]]]]]]"]


def fuzz_binary():
    return os.path.join(build_dir("san"), "fuzz_json")


def _fuzz_env():
    from vlib.runner import worker_env
    env = worker_env("san")          # LD_PRELOAD of the shared ASan runtime the target is linked against
    env["ASAN_OPTIONS"] = "detect_leaks=0:abort_on_error=0:detect_odr_violation=0:symbolize=1:allocator_may_return_null=1:quarantine_size_mb=8"
    return env


def _ensure_fuzz_binary():
    from vlib.runner import build
    if not build(["san"], "fuzz_json") or not os.path.exists(fuzz_binary()):
        raise HarnessError("fuzz target %s could not be built (make FLAVOUR=san fuzz_json)" % fuzz_binary())


def _run_with_heartbeat(cmd, env, errpath, limit):
    """run a long child process; while it runs, touch this worker's slot file so that the runner's per-case watchdog (which
    looks at the slot's age) does not take a fuzzing campaign of several minutes for a hang. libFuzzer's own -timeout guards
    single inputs; `limit` seconds bounds the whole campaign. -> (stderr text, return code)"""
    import time
    slot = (sys.argv[6] + ".slot") if len(sys.argv) > 6 and sys.argv[0].endswith("worker.py") else None
    with open(errpath, "wb") as ef:
        proc = subprocess.Popen(cmd, stdout=subprocess.DEVNULL, stderr=ef, env=env)
        t0 = time.time()
        while True:
            try:
                rc = proc.wait(timeout=10)
                break
            except subprocess.TimeoutExpired:
                if slot is not None and os.path.exists(slot):
                    os.utime(slot, None)
                if time.time() - t0 > limit:
                    proc.kill()
                    proc.wait()
                    raise HarnessError("fuzz_json did not finish its %s within %d s" % (cmd[1], limit))
    with open(errpath, "rb") as f:
        return f.read().decode("utf-8", "replace"), rc


def run_fuzz(case):
    exe = fuzz_binary()
    _ensure_fuzz_binary()
    work = tempfile.mkdtemp(prefix="fuzz_json_", dir=build_dir("san"))
    corpus = os.path.join(work, "corpus")
    os.makedirs(corpus)
    for i, s in enumerate(_FUZZ_SEEDS):
        with open(os.path.join(corpus, "seed%02d" % i), "wb") as f:
            f.write(s)
    cmd = [exe, "-runs=%d" % case["runs"], "-seed=%d" % case["seed"], "-max_len=%d" % case["max_len"], "-artifact_prefix=" + work + "/",
           "-print_final_stats=1", "-timeout=20", "-rss_limit_mb=4096", corpus]
    err, rc = _run_with_heartbeat(cmd, _fuzz_env(), os.path.join(work, "stderr.txt"), limit=3000)
    p = type("P", (), {"returncode": rc})
    stats = dict(re.findall(r"stat::(\w+):\s+(\d+)", err))
    counts = {"fuzz_executions": int(stats.get("number_of_executed_units", 0)), "fuzz_new_units": int(stats.get("new_units_added", 0))}
    import glob
    import shutil
    arts = sorted(glob.glob(os.path.join(work, "crash-*")) + glob.glob(os.path.join(work, "timeout-*")) + glob.glob(os.path.join(work, "oom-*")))
    try:
        if p.returncode != 0 or arts:
            data = open(arts[0], "rb").read() if arts else b""
            m = re.search(r"(ORACLE: [^\n]*|SUMMARY: [^\n]*|runtime error: [^\n]*)", err)
            what = m.group(1) if m else "exit status %d" % p.returncode
            sub = {"kind": "fuzzinput", "text": JT.pack(data)}
            vio = {"bucket": "fuzz:" + what[:60], "message": "fuzz_json: " + what, "expected": None, "observed": err[-1500:], "clause": None}
            try:
                from vlib.runner import write_replay
                rp = write_replay(ID, "san", sub, vio, case["seed"])
            except Exception as e:   # noqa: B902
                rp = "replay not written: %r" % (e,)
            raise Violation("fuzz:" + what[:60], "libFuzzer target fuzz_json failed (%s); input saved as %s" % (what, rp),
                            expected={"text": JT.pack(data)}, observed=err[-1500:])
    finally:
        shutil.rmtree(work, ignore_errors=True)
    return {"tags": ["part:fuzz"], "counts": counts, "nontrivial": False, "sample_class": "fuzz"}


def run_fuzzinput(case):
    exe = fuzz_binary()
    _ensure_fuzz_binary()
    path = _tmpfile() + ".fuzz"
    with open(path, "wb") as f:
        f.write(JT.unpack(case["text"]))
    try:
        p = subprocess.run([exe, path], capture_output=True, env=_fuzz_env(), timeout=120)
    finally:
        os.unlink(path)
    if p.returncode != 0:
        err = p.stderr.decode("utf-8", "replace")
        m = re.search(r"(ORACLE: [^\n]*|SUMMARY: [^\n]*|runtime error: [^\n]*)", err)
        raise Violation("fuzz:" + (m.group(1) if m else "exit %d" % p.returncode)[:60], "fuzz_json fails on this input", observed=err[-1500:])
    return {"tags": ["part:fuzzinput"], "nontrivial": False}


# =========================================================================== entry points
def run_case(case):
    k = case["kind"]
    if k == "output":
        return run_output(case)
    if k in ("input", "concat"):
        return run_input(case)
    if k == "truncate":
        return run_truncate(case)
    if k == "corrupt":
        return run_corrupt(case)
    if k == "shim":
        return run_shim(case)
    if k == "pin":
        return run_pin(case)
    if k == "pout":
        return run_pout(case)
    if k == "fuzz":
        return run_fuzz(case)
    if k == "fuzzinput":
        return run_fuzzinput(case)
    raise HarnessError("unknown case kind %r" % (k,))


def case_label(case):
    k = case["kind"]
    if k == "output":
        from checks.common import classpath
        return "output|" + classpath(case["desc"], 3)
    return k


def pre_exclude(case):
    return None


# =========================================================================== known findings (known_findings.jsonl)
def _bucket(v):
    return (v or {}).get("bucket", "")


KNOWN = {
    # Handler::Key hands the key to field_check(const char*): cut at an embedded NUL (two such keys may then collide).
    # Exactly this shape: a violation that combines it with another difference (bucket "anchor:x+nul_key_cut") is not excused.
    "c15_nul_key_cut": lambda case, v: _bucket(v).startswith("rejected_wellformed:nul_key_cut_collision") or _bucket(v) == "anchor:nul_key_cut",
    # the other shapes that check_text / run_output still name in their buckets (uint64_wrap, nul_special_cut, complex_nonfinite,
    # dangling_scalar) belong to findings that are fixed in /repo (known_findings.jsonl: status fixed): no predicate, a
    # recurrence fails the run
}
