"""C19 - AwkwardForth programs have deterministic, documented, step-independent semantics (tier L)."""
import math
import os
import struct

from akgen import forth as GF
from akmodel import forth as MF
from vlib.common import Violation, HarnessError

ID = "C19"
MANIFEST = {
    "technique": "property-based testing (Hypothesis): grammar-generated AwkwardForth programs x input bytes x machine options, run on ForthMachine32/64 through the bridge, against an independent reference interpreter and model-free metamorphic relations; sanitizer twin",
    "level_text": "Generated-input exploration. Programs (<= ~40 tokens, whole documented vocabulary, well-formed by construction plus a token-mutated fraction) are compiled and executed on ForthMachine32/64 with generated input bytes and stack/recursion/output-buffer settings. Oracle 1: a pure-Python reference interpreter written from the documented semantics must agree on compile verdict and, at every pause point and at the end, on stack, variables, outputs, input positions, error status and ready/done flags (also across Python-side call() of defined words). Oracle 2 (model-free): same result when run twice, through C++ run() vs begin+resume, when single-stepped to the end, under a generated interleaving of step/resume segments, under other output-buffer growth settings, after decompiled() is re-compiled, and between the 32- and 64-bit machine when no intermediate exceeds 32 bits. Oracle 3: every compile-time and run-time fault is an error value/exception, never a crash (ASan/UBSan twin). Held on everything generated outside the recorded known findings.",
    "level_note": "Trusted: akmodel.forth (the documented semantics as I read them; the repository carries no AwkwardForth documentation, so the upstream language description, the error texts and tests/test_0648*/test_0781* served as the specification), the /verif bridge and its re-statement of the Python binding. Not asserted: behaviour the documentation is silent on (listed in ASSUMPTIONS); the pybind11 binding itself; printed output of . cr .s .\"; literals beyond 32 bits; programs longer than ~40 tokens.",
}
RULE = ("case = generated program source + input bytes + machine width/stack/recursion/output-growth options + step/resume schedule + calls; "
        "non-trivial = the program compiled and the reference run executed at least one loop iteration or word call AND at least one read or write; "
        "distinct by hash of the case")
ASSUMPTIONS = [
    "the repository contains no AwkwardForth documentation: the reference interpreter follows the upstream language description, the error messages of ForthMachineOf::maybe_throw and the usage in tests/test_0648*/test_0781*",
    "'do' runs its body while index < limit (tested before every iteration, so limit <= start runs zero times, and a negative +loop step only ends through the same test); taken from the implementation, the description only shows ascending loops",
    "every nested block (word call, if/else branch, loop body) counts as one level against recursion_max_depth, the main program being level 1; taken from the implementation",
    "not asserted (documentation silent): shift counts outside [0, width); rshift of a negative number (logical in standard Forth, arithmetic in C++); float->integer conversion of NaN/inf/out-of-range values; bool bytes other than 0/1; negative repeat counts and negative rewind counts; the stack (and the input position) left behind by an instruction that failed after consuming operands; literals and loop indices beyond the machine width; zigzag/n-bit values wider than the machine when read directly into an output; a 10-byte varint whose last byte carries no payload",
    "n-> / N-> read the platform's 8-byte ssize_t/size_t on both machine widths; values pushed on the stack wrap to the machine width",
    "N-bit reads (5bit->): little-endian bit order within the byte stream, a partly used last byte is discarded at the end of each instruction, '!' reverses the bits of every byte; taken from the implementation (the word was added without documentation)",
    "output 'dup' (repeat the last item n times; 'rewind beyond' on an empty output) is modelled from the implementation and its error text",
    "in the sanitizer flavour, programs whose arithmetic overflows the machine integer are not executed (signed overflow is undefined behaviour in C++ and UBSan aborts; recorded as a known finding): wraparound itself is checked in the plain flavour only",
]
PLAN = {
    "quick": [{"flavour": "plain", "cases": 16000}, {"flavour": "san", "cases": 3200}],
    "thorough": [{"flavour": "plain", "cases": 480000}, {"flavour": "san", "cases": 120000}],
}
WALL_CAP = {"quick": 900, "thorough": 3300}
FORK_EACH = False
MODEL_BUDGET = 3000
FLAVOUR = [os.environ.get("VERIF_FLAVOUR", "plain")]
_F = [None]


def F():
    if _F[0] is None:
        from akshim import forth
        _F[0] = forth
    return _F[0]


def setup(flavour, tier):
    FLAVOUR[0] = flavour
    F()


def strategy(tier):
    return GF.cases()


def case_label(case):
    return "forth|" + _features(case)


def _features(case):
    toks = set(case["source"].split())
    keys = []
    for name, words in (("do", ("do",)), ("begin", ("begin",)), ("def", (":",)), ("exit", ("exit",)), ("halt", ("halt",)), ("pause", ("pause",)),
                        ("div", ("/", "mod", "/mod")), ("rewind", ("rewind",)), ("rep", tuple(w for w in toks if w.startswith("#")))):
        if toks & set(words):
            keys.append(name)
    return "+".join(keys) or "plain"


# ------------------------------------------------------------------------------------------------------------ helpers
HARD_UNSPEC_PREFIX = "after-error:"


def hard_unspec(model):
    return sorted(u for u in model.unspec if not u.startswith(HARD_UNSPEC_PREFIX))


def decode_output(dtype, hexstr):
    code = MF.DTYPES[dtype][0]
    raw = bytes.fromhex(hexstr)
    if code == "?":
        code = "B"
    n = len(raw) // struct.calcsize("<" + code)
    return list(struct.unpack("<%d%s" % (n, code), raw))


def same_number(a, b):
    if isinstance(a, float) or isinstance(b, float):
        a, b = float(a), float(b)
        if a != a or b != b:
            return a != a and b != b
        return a == b and math.copysign(1.0, a) == math.copysign(1.0, b)
    return int(a) == int(b)


def compare_with_model(msnap, vsnap, verr, model, final):
    """first component on which the machine (vsnap) differs from the model (msnap), or None"""
    skip_stack = final and "after-error:stack" in model.unspec and msnap["error"] != "none"
    skip_pos = final and "after-error:pos" in model.unspec and msnap["error"] != "none"
    if msnap["error"] != verr:
        return "error", msnap["error"], verr
    if msnap["ready"] != vsnap["ready"] or msnap["done"] != vsnap["done"]:
        return "flags", [msnap["ready"], msnap["done"]], [vsnap["ready"], vsnap["done"]]
    if not skip_stack and msnap["stack"] != vsnap["stack"]:
        return "stack", msnap["stack"], vsnap["stack"]
    if msnap["variables"] != vsnap["variables"]:
        return "variables", msnap["variables"], vsnap["variables"]
    if not skip_pos and msnap["ready"] and msnap["positions"] != {k: v for k, v in vsnap["positions"].items() if k in msnap["positions"]}:
        return "positions", msnap["positions"], vsnap["positions"]
    if msnap["ready"] or vsnap["outputs"]:
        mo, vo = msnap["outputs"], vsnap["outputs"]
        if sorted(mo) != sorted(vo):
            return "outputs", sorted(mo), sorted(vo)
        for name in mo:
            if vo[name][0] == "negative-length":
                return "outputs", mo[name], vo[name]
            if mo[name][0] != vo[name][0]:
                return "outputs", mo[name][0], vo[name][0]
            got = decode_output(vo[name][0], vo[name][1])
            exp = mo[name][1]
            if len(got) != len(exp) or not all(same_number(a, b) for a, b in zip(exp, got)):
                return "outputs", {name: exp}, {name: got}
    return None


def strip(snap):
    """the part of a machine snapshot that must not depend on how execution was split"""
    return {k: snap[k] for k in ("stack", "variables", "outputs", "positions", "ready", "done")}


def drive(vm, run, inputs, calls, words, limit):
    """reference schedule: run, then resume after every pause; Python-side calls at the requested pause counts.
    -> list of (what, error name, snapshot)"""
    trace = []
    err = run(inputs)
    trace.append(("run", err, vm.snapshot()))
    pauses = 0
    pending = list(calls)
    for _ in range(limit):
        for c in list(pending):
            if c[0] == pauses and err == "none":
                pending.remove(c)
                err = vm.call_code(words[c[1] % len(words)]) if hasattr(vm, "call_code") else vm.call(words[c[1] % len(words)])
                trace.append(("call", err, vm.snapshot()))
        snap = trace[-1][2]
        if err != "none" or snap["done"]:
            break
        err = vm.resume_code() if hasattr(vm, "resume_code") else vm.resume()
        pauses += 1
        trace.append(("resume", err, vm.snapshot()))
    return trace


def new_machine(case, source=None, bits=None, growth=None):
    cls = F().ForthMachine32 if (bits or case["bits"]) == 32 else F().ForthMachine64
    init, factor = growth if growth is not None else case["growth"][0]
    return cls(source if source is not None else case["source"], case["stack"], case["recursion"], init, factor)


def try_compile(case, **kw):
    """(machine, None) or (None, message)"""
    from akshim.core import OtherNativeError
    try:
        return new_machine(case, **kw), None
    except ValueError as e:
        return None, "ValueError: " + str(e).split("\n")[0][:200]
    except OtherNativeError as e:
        return None, "OtherNativeError: " + str(e)[:200]


class Findings(object):
    def __init__(self, case):
        self.case = case
        self.items = []

    def add(self, bucket, message, expected=None, observed=None, clause=None):
        self.items.append(Violation(bucket, message, expected, observed, clause))

    def raise_first(self):
        if not self.items:
            return
        unknown = [v for v in self.items if not any(fn(self.case, v.todict()) for fn in KNOWN.values())]
        raise (unknown or self.items)[0]


# ------------------------------------------------------------------------------------------------------------ the case
def run_case(case):
    src = case["source"]
    inputs = {k: bytes.fromhex(v) for k, v in case["inputs"].items()}
    tags = ["bits:%d" % case["bits"], "mutated" if case["mutated"] else "grammar"]
    found = Findings(case)

    # ---- compile verdicts
    try:
        model = MF.Machine(src, case["bits"], case["stack"], case["recursion"], budget=MODEL_BUDGET)
        merr = None
    except MF.CompileError as e:
        model, merr = None, str(e)
    except MF.Unspecified as e:
        model, merr = None, e
    vm, verr = try_compile(case)
    other, oerr = try_compile(case, bits=96 - case["bits"])
    if isinstance(merr, MF.Unspecified):
        # neither accepted nor rejected by the documentation: compiling must not crash, nothing else is asserted
        return {"tags": tags, "discarded": "undocumented source text: " + str(merr), "nontrivial": False}
    if (vm is None) != (other is None):
        raise Violation("compile:width-dependent", "ForthMachine32 and ForthMachine64 disagree on whether the source compiles", verr, oerr, "compile-time faults")
    if model is None and vm is not None:
        raise Violation("compile:accepted-invalid|" + merr.split(":")[0][:40], "a program that is not valid AwkwardForth compiles: " + merr, merr, "compiled", "compile-time faults")
    if model is not None and vm is None:
        raise Violation("compile:rejected-valid", "a valid program is rejected: " + verr, "compiles", verr, "compile-time faults")
    if model is None:
        return {"tags": tags + ["outcome:compile-error"], "nontrivial": False, "sample_class": "compile-error"}
    words = list(model.prog.words)

    # ---- reference run of the model (with and without the Python-side calls)
    calls = [c for c in case["calls"]] if words else []
    try:
        mtrace0 = drive(model, model.run, inputs, [], words, MODEL_BUDGET)
        if calls:
            model_c = MF.Machine(src, case["bits"], case["stack"], case["recursion"], budget=MODEL_BUDGET)
            mtrace_c = drive(model_c, model_c.run, inputs, calls, words, MODEL_BUDGET)
        else:
            model_c, mtrace_c = model, mtrace0
    except MF.BudgetExceeded:
        return {"tags": tags, "discarded": "instruction budget exhausted in the reference interpreter", "nontrivial": False}
    except ValueError as e:
        # an input the program declares was not provided: the machine must refuse too
        try:
            vm.begin(inputs)
        except ValueError:
            return {"tags": tags + ["outcome:missing-input"], "nontrivial": False, "sample_class": "missing-input"}
        raise Violation("begin:missing-input-accepted", "begin() accepts a run without a declared input", str(e), "accepted")
    both = (model, model_c)
    crash = sorted(set().union(*[m.crash for m in both]))
    ub = sorted(set().union(*[m.ub for m in both]))
    if crash and not case.get("force"):
        return {"tags": tags, "excluded": "crash:" + crash[0], "nontrivial": False}
    if ub and FLAVOUR[0] == "san" and not case.get("force"):
        return {"tags": tags, "excluded": "ub:" + ub[0], "nontrivial": False}

    final_m = mtrace0[-1]
    tags.append("outcome:" + final_m[1])
    tags += sorted(model.census - set(t for t in model.census if t.startswith("exec:read:")))
    tags += ["reader:" + t[10:] for t in model.census if t.startswith("exec:read:")]
    npauses = sum(1 for t in mtrace0 if t[0] == "resume")
    if npauses:
        tags.append("pauses:%d" % min(npauses, 3))
    smallest = min(g[0] for g in case["growth"])
    if any(len(v[1]) > smallest for v in final_m[2]["outputs"].values()):
        tags.append("output-grew")
    looped = bool(model.census & {"exec:do", "exec:begin", "exec:call"})
    io = bool(model.census & {"exec:read", "exec:write", "exec:write+", "exec:write-direct"})
    nontrivial = looped and io

    # ---- oracle 1: the machine against the reference interpreter, at every pause point and at the end
    limit = len(mtrace_c) + 2
    vtrace_c = drive(vm, vm.run_code_py, inputs, calls, words, limit)
    unspec = hard_unspec(model_c)
    if unspec:
        tags.append("model-silent")
        tags += ["silent:" + u for u in unspec]
    else:
        _compare_traces(found, mtrace_c, vtrace_c, model_c, "model" + (":calls" if calls else ""))
    if calls:
        vm0 = new_machine(case)
        vtrace0 = drive(vm0, vm0.run_code_py, inputs, [], words, len(mtrace0) + 2)
        unspec0 = hard_unspec(model)
        if not unspec0 and not found.items:
            _compare_traces(found, mtrace0, vtrace0, model, "model")
    else:
        vm0, vtrace0 = vm, vtrace_c
    ref = [(w, e, strip(s)) for w, e, s in vtrace0]
    final = ref[-1]
    terminated = final[1] != "none" or final[2]["done"]
    if not terminated:
        found.add("run:does-not-finish", "the machine is still pausing after more resumes than the reference run has pause points", len(mtrace0), len(vtrace0))
        found.raise_first()

    # ---- oracle 2: model-free relations
    # (a) determinism: the same machine again, and the C++ run() entry point on a fresh machine
    again = drive(vm0, lambda ins: (vm0.begin_again(), vm0.resume_code())[1], inputs, [], words, len(ref) + 2)
    _same(found, "determinism:second-run", ref, again)
    vm1 = new_machine(case)
    _same(found, "determinism:cpp-run", ref, drive(vm1, vm1.run_code, inputs, [], words, len(ref) + 2))
    # (b) output-buffer growth settings
    for g in case["growth"][1:]:
        vg = new_machine(case, growth=g)
        _same(found, "growth:%s/%s" % (g[0], g[1]), ref, drive(vg, vg.run_code_py, inputs, [], words, len(ref) + 2))
    # (c) decompiled() compiles again and behaves identically
    text = vm0.decompiled
    vd, derr = try_compile(case, source=text)
    if vd is None:
        found.add("decompile:does-not-compile", "decompiled() text is rejected: " + derr, "compiles", {"decompiled": text, "error": derr}, "decompiled program")
    else:
        _same(found, "decompile:behaves-differently", ref, drive(vd, vd.run_code_py, inputs, [], words, len(ref) + 2), extra={"decompiled": text})
        if vd.decompiled != text:
            found.add("decompile:not-idempotent", "decompiling the re-compiled decompiled text gives a different text", text, vd.decompiled, "decompiled program")
    # (d) 32- and 64-bit machines agree when nothing exceeds 32 bits
    if model.max_abs < (1 << 31) and not hard_unspec(model) and not model.ub and "shift-count-beyond-32" not in model.flags:
        tags.append("width-comparable")
        _same(found, "width:32-vs-64", ref, drive(other, other.run_code_py, inputs, [], words, len(ref) + 2))
    # (e) single-stepping to the end, and a generated interleaving of step and resume segments
    # budget from the machine's own instruction count of the reference run (a step executes one instruction; leaving finished
    # blocks can take a step of its own)
    budget = 4 * max(model.steps, vtrace0[-1][2].get("count_instructions", 0)) + 64
    vs = new_machine(case)
    vs.begin(inputs)
    err, taken = ("none", 0) if vs.is_done else vs.step_n(budget)
    if err == "none" and not vs.is_done:
        found.add("step:does-not-finish", "single-stepping has not finished after %d steps (the reference run takes %d instructions)" % (taken, model.steps),
                  final[2], strip(vs.snapshot()), "step-independent")
    else:
        _same(found, "step:all-steps", [final], [("step", err, strip(vs.snapshot()))])
    if case["schedule"]:
        vx = new_machine(case)
        vx.begin(inputs)
        err = "none"
        total = 0
        for k in case["schedule"]:
            if err != "none" or vx.is_done:
                break
            if k:
                err, taken = vx.step_n(k)
                total += taken
            if err == "none" and not vx.is_done:
                err = vx.resume_code()
        for _ in range(len(ref) + 2):
            if err != "none" or vx.is_done:
                break
            err = vx.resume_code()
        _same(found, "step:interleaved", [final], [("mixed", err, strip(vx.snapshot()))], extra={"schedule": case["schedule"]})
        tags.append("interleaved")
    found.raise_first()
    return {"tags": tags, "nontrivial": nontrivial, "sample_class": final_m[1] + ("|loop+io" if nontrivial else "")}


def _compare_traces(found, mtrace, vtrace, model, label):
    for k, (what, merr_, msnap) in enumerate(mtrace):
        if k >= len(vtrace):
            found.add(label + ":shorter-run", "the machine stopped after %d of %d run/resume/call segments" % (len(vtrace), len(mtrace)), what, vtrace[-1][1], "reference interpreter")
            return
        vwhat, verr_, vsnap = vtrace[k]
        last = k == len(mtrace) - 1
        d = compare_with_model(msnap, vsnap, verr_, model, last)
        if d is not None:
            where = "end" if last else "pause"
            found.add("%s:%s@%s" % (label, d[0], where), "after segment %d (%s) the %s differs from the documented semantics" % (k, what, d[0]), d[1], d[2], "reference interpreter")
            return
    if len(vtrace) > len(mtrace):
        found.add(label + ":longer-run", "the machine needs more run/resume segments than the program has pause points", len(mtrace), len(vtrace), "reference interpreter")


def _same(found, bucket, ref, got, extra=None):
    got = [(w, e, strip(s)) for w, e, s in got]
    a = [(e, s) for _, e, s in ref]
    b = [(e, s) for _, e, s in got]
    if a == b:
        return
    if len(a) != len(b):
        found.add(bucket + "|segments", "different number of pause points", len(a), len(b), "model-free relation")
        return
    for k in range(len(a)):
        if a[k] != b[k]:
            comp = "error" if a[k][0] != b[k][0] else next(c for c in a[k][1] if a[k][1][c] != b[k][1][c])
            exp = {"error": a[k][0], "state": a[k][1]}
            obs = {"error": b[k][0], "state": b[k][1]}
            if extra:
                obs.update(extra)
            found.add("%s|%s" % (bucket, comp), "state differs at segment %d of %d in component %s" % (k, len(a), comp), exp, obs, "model-free relation")
            return


# ------------------------------------------------------------------------------------------------------------ known findings
def _model_of(case, calls=False):
    m = MF.Machine(case["source"], case["bits"], case["stack"], case["recursion"], budget=MODEL_BUDGET)
    try:
        drive(m, m.run, {k: bytes.fromhex(v) for k, v in case["inputs"].items()}, case["calls"] if calls else [], list(m.prog.words), MODEL_BUDGET)
    except (MF.BudgetExceeded, ValueError):
        pass
    return m


def known_call_at_do_body_end(case, vio):
    """call() from Python while the program is paused on a 'pause' that is the last instruction of a do-loop body: the end of the
    called word is taken for the end of the loop body and the loop index advances once more"""
    return (vio.get("bucket", "").startswith("model:calls:") and bool(case.get("calls"))
            and "call-at-do-body-end" in _model_of(case, calls=True).flags)


def known_structure_word_in_comment(case, vio):
    """the parser looks for the closing word of if/do/begin/: before it removes comments: a structure word inside a comment is
    taken for program structure (valid programs rejected, unbalanced ones accepted)"""
    if not vio.get("bucket", "").startswith("compile:"):
        return False
    return any(t in MF.STRUCTURE_IN_COMMENT for body in MF.comments_of(case["source"]) for t in body)


KNOWN = {
    "forth_structure_word_in_comment": known_structure_word_in_comment,
    "forth_call_at_do_body_end": known_call_at_do_body_end,
}
