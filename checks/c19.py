"""C19 - AwkwardForth programs have deterministic, documented, step-independent semantics (tier L)."""
import glob
import math
import os
import re
import shutil
import struct
import subprocess
import sys
import tempfile
import time

from akgen import forth as GF
from akmodel import forth as MF
from vlib.common import Violation, HarnessError

ID = "C19"
MANIFEST = {
    "technique": "property-based testing (Hypothesis): grammar-generated AwkwardForth programs x input bytes x machine options, run on ForthMachine32/64 through the bridge, against an independent reference interpreter and model-free metamorphic relations; sanitizer twin; coverage-guided fuzzing (libFuzzer + ASan/UBSan) of bytes -> program + input with the metamorphic relations inside the target",
    "level_text": "Generated-input exploration. Programs (<= ~40 tokens, whole vocabulary of the language description, well-formed by construction plus a token-mutated fraction, plus the programs of the repository's own tests as a seed corpus) are compiled and executed on ForthMachine32/64 with generated input bytes and stack/recursion/output-buffer settings. Oracle 1: a pure-Python reference interpreter written from the language description must agree on the compile verdict and, at every pause point and at the end, on stack, variables, outputs, input positions, error status and ready/done flags (also across host-side call() of defined words). Oracle 2 (model-free): same result when run twice, through C++ run() vs begin+resume, when single-stepped to the end, under a generated interleaving of step/resume segments, under other output-buffer growth settings, after decompiled() is re-compiled (and decompiling is a fixed point), and between the 32- and 64-bit machine when no intermediate exceeds 32 bits. Oracle 3: every compile-time and run-time fault is an error value/exception, never a crash (ASan/UBSan twin; thorough tier: a libFuzzer campaign whose target checks step == run/resume, growth independence, determinism and decompile/recompile on every input). Held on everything generated outside the recorded known findings.",
    "level_note": "Trusted: akmodel.forth (the language as I read it: the repository carries no AwkwardForth documentation, so the upstream language description, the error texts of ForthMachineOf::maybe_throw and tests/test_0648*/test_0781* served as the specification), the /verif bridge and its re-statement of the Python binding. Not asserted: behaviour the description is silent on (listed in ASSUMPTIONS; such programs still go through the model-free relations and the sanitizer twin); the pybind11 binding itself (src/python/forth.cpp cannot be compiled here); printed output of . cr .s .\"; literals beyond 32 bits; programs longer than ~40 (quick) / ~80 (thorough) tokens; output_initial_size 0 and resize factors <= 1 (maybe_resize cannot grow such a buffer); wraparound under the sanitizer build (signed overflow is undefined in C++: those programs are run in the plain flavour only); the LayoutBuilder users of the machine.",
}
RULE = ("case = generated program source + input bytes + machine width/stack/recursion/output-growth options + step/resume schedule + calls; "
        "non-trivial = the program compiled and the reference run executed at least one loop iteration or word call AND at least one read or write; "
        "distinct by hash of the case")
ASSUMPTIONS = [
    "the repository contains no AwkwardForth documentation: the reference interpreter follows the upstream language description, the error messages of ForthMachineOf::maybe_throw and the usage in tests/test_0648*/test_0781*",
    "'do' runs its body while index < limit (tested before every iteration, so limit <= start runs zero times, and a negative +loop step only ends through the same test); taken from the implementation, the description only shows ascending loops",
    "every nested block (word call, if/else branch, loop body) counts as one level against recursion_max_depth, the main program being level 1, and a block that ends with 'pause' is left before pausing; taken from the implementation",
    "rshift shifts a negative number arithmetically (pinned by tests/test_0648: '-5 1 rshift' gives -3)",
    "not asserted (description silent): shift counts outside [0, width); float->integer conversion of NaN/inf/out-of-range values; bool bytes other than 0/1; negative repeat counts and negative rewind counts (an error or nothing); the stack (and the input position) left behind by an instruction that failed after consuming operands; literals beyond 32 bits (the bytecode is 32-bit) and literals beyond 64 bits (rejected or not); loop indices beyond the machine width; zigzag/n-bit values wider than the machine when read directly into an output; a 10-byte varint whose last byte carries no payload; a backslash inside a string",
    "n-> / N-> read the platform's 8-byte ssize_t/size_t on both machine widths; values pushed on the stack wrap to the machine width",
    "N-bit reads (5bit->): little-endian bit order within the byte stream, a partly used last byte is discarded at the end of each instruction, '!' reverses the bits of every byte; taken from the implementation (the word was added without documentation)",
    "output 'dup' (repeat the last item n times; 'rewind beyond' on an empty output) is modelled from the implementation and its error text",
    "'+<-' forms the sum in the output's own type (narrower integer types wrap, floats round to the output's precision)",
    "in the sanitizer flavour, programs whose arithmetic overflows the machine integer (or an int32/int64 output under '+<-'), that shift by an out-of-range count or shift a negative number left, that read a bool byte other than 0/1 or convert an out-of-range float are not executed (undefined behaviour in C++ that UBSan reports by design; counted as excluded): wraparound itself is checked in the plain flavour only",
    "typed values are read at arbitrary byte offsets of the input by design of the language: the forth translation units are built without UBSan's alignment check (build/fuzz_forth.mk); unaligned loads are well defined on the x86-64 target",
    "the libFuzzer target additionally switches off the signed-overflow, shift and bool checks for its instrumented copy of the forth sources (the campaign has no model to exclude such programs beforehand)",
    "output buffers are created with initial size >= 1 and resize factor > 1 (documented defaults 1024 and 1.5)",
]
PLAN = {
    "quick": [{"flavour": "plain", "cases": 16000, "flags": ["--seeds"]}, {"flavour": "san", "cases": 3200, "flags": ["--seeds"]}],
    # the last entry is the libFuzzer campaign: each of its workers runs the seed corpus and one `fuzz` case (FUZZ_RUNS executions of
    # fuzz/fuzz_forth.cpp with its own seed, about 10 minutes)
    "thorough": [{"flavour": "plain", "cases": 160000, "workers": 8, "flags": ["--seeds"]}, {"flavour": "san", "cases": 32000, "workers": 4, "flags": ["--seeds"]},
                 {"flavour": "san", "cases": 4, "workers": 4, "flags": ["--seeds", "--fuzz"]}],
}
WALL_CAP = {"quick": 900, "thorough": 3300}
FORK_EACH = False
FUZZ_TARGETS = ["fuzz_forth"]
MODEL_BUDGET = 3000
FLAVOUR = [os.environ.get("VERIF_FLAVOUR", "plain")]
_F = [None]


def F():
    if _F[0] is None:
        from akshim import forth
        _F[0] = forth
    return _F[0]


def _seed(source, bits=32, inputs=None, stack=1024, recursion=1024, calls=(), schedule=(1, 0, 2)):
    return {"source": source, "inputs": {k: v.hex() for k, v in (inputs or {}).items()}, "bits": bits, "stack": stack, "recursion": recursion,
            "growth": [[1, 1.5], [1024, 1.5], [2, 1.1]], "schedule": list(schedule), "calls": [list(c) for c in calls], "mutated": False}


_I32 = struct.pack("<6i", 1, 2, 3, -4, 5, 6)
# seed corpus: the programs of /repo/tests/test_0648* / test_0781* (as data), run by every worker of a plan entry with "--seeds"
_BASE_SEEDS = [_seed(src, bits) for bits in (32, 64) for src in (
    "", "( comment )", "1 2 ( comment ) 3 4", "1 2 \\ comment \n 3 4", "1 2 3 4 dup", "1 2 3 4 drop", "1 2 3 4 swap", "1 2 3 4 over", "1 2 3 4 rot",
    "1 2 3 4 nip", "1 2 3 4 tuck", "3 5 +", "-3 5 -", "-3 -5 *", "22 7 /", "-22 7 /", "22 -7 /", "-22 -7 /", "22 7 mod", "-22 7 mod", "22 -7 mod",
    "-22 -7 mod", "22 7 /mod", "-22 7 /mod", "22 -7 /mod", "-22 -7 /mod", "123 0 /", "-123 0 mod", "123 0 /mod", "-2 abs", "-2 negate", "-1 1+", "0 1-",
    "3 -5 min", "3 -5 max", "3 5 =", "3 5 <>", "3 5 >", "3 5 >=", "3 5 <", "3 5 <=", "-1 0=", "0 0=", "-1 invert", "1 -1 and", "1 0 or", "-1 1 xor",
    "1 3 lshift", "-5 1 lshift", "-5 1 rshift", "-5 3 rshift", "true false", "-1 if 3 5 + then", "0 if 3 5 + then", "-1 if 3 5 + else 123 then",
    "0 if 3 5 + else 123 then", "-1 if else then", "5 0 do i loop", "10 0 do i +loop", "10 0 do loop", "10 0 do 5 0 do 3 1 do i j k loop loop loop",
    "1025 0 do i loop", "1 2 3 halt 4 5", "1 2 pause 3 4 5", ": foo 999 ; 1 2 3 pause 4 5", "variable x 10 x ! 5 x +! x @", "1 +", "1 2 3 4",
    ": foo 3 + ; : bar foo foo ; 1 bar", ": foo dup 0 > if 1- recurse then ; 5 foo", "3 begin dup 1- dup 0= until", "0 begin dup 5 < while 1+ repeat",
    "5 begin dup 0= if exit then 1- again", "1 2 foo", "if 1 then then", ": ; 1", "variable variable", "output x int33", "1 i 2")]
_BASE_SEEDS += [_seed(src, bits, {"x": data}) for bits in (32, 64) for src, data in (
    ("input x x len x pos x end", _I32), ("input x 8 x seek x pos x i-> stack 4 x skip x i-> stack", _I32), ("input x 25 x seek", _I32), ("input x -1 x skip", _I32),
    ("input x output y int32 x i-> y x i-> y y len", _I32), ("input x output y int32 6 x #i-> y", _I32), ("input x output y float64 3 x #!i-> y x i-> stack y <- stack", _I32),
    ("input x output y int32 7 x #i-> y", _I32), ("input x output y int64 3 0 do x i-> stack y +<- stack loop", _I32),
    ("input x output y int32 1 y <- stack 2 y <- stack 1 y rewind 3 y <- stack 5 y rewind", _I32), ("input x output y uint8 10 y <- stack 3 y dup y len", _I32),
    ("input x begin x end 0= while x b-> stack repeat", _I32), ("input x x varint-> stack x zigzag-> stack x varint-> stack", bytes([0x96, 0x01, 0x03, 0xff, 0xff, 0x03])),
    ("input x 2 x #3bit-> stack x !5bit-> stack", bytes([0xb5, 0x4c])), ("input x x d-> stack x !d-> stack", struct.pack("<d", 3.5) + struct.pack(">d", -2.25)),
    ("input x x q-> stack x Q-> stack", bytes(range(1, 17))), ("input x x varint-> stack", b"\xff" * 10))]
_BASE_SEEDS += [_seed(": foo 999 ; 1 2 3 pause 4 5", calls=[[0, 0], [0, 0]]), _seed(": foo 999 ; : bar halt ; 1 2 3 pause 4 5", calls=[[0, 1]]),
                _seed(": foo 1 2 3 4 ; pause 5", stack=3, calls=[[0, 0]]), _seed(": foo foo ; pause", recursion=5, calls=[[0, 0]])]
SEED_CASES = list(_BASE_SEEDS)
FUZZ_RUNS = {"quick": 20000, "thorough": 250000}       # executions per fuzz worker (about 450/s under ASan+UBSan)


def setup(flavour, tier):
    global SEED_CASES
    FLAVOUR[0] = flavour
    F()
    SEED_CASES = list(_BASE_SEEDS)
    if "--fuzz" in sys.argv and flavour == "san":
        # inside a worker (python -m vlib.worker <mod> <flavour> <tier> <seed> ...) the derived per-worker seed, so that the fuzz
        # workers of one run explore differently
        seed = int(os.environ.get("VERIF_SEED", "1"))
        if len(sys.argv) > 4 and sys.argv[4].isdigit():
            seed = int(sys.argv[4]) % (2 ** 31 - 1) + 1
        SEED_CASES.append({"kind": "fuzz", "seed": seed, "runs": int(os.environ.get("VERIF_FUZZ_RUNS", FUZZ_RUNS.get(tier, 20000))), "max_len": 160,
                           "max_time": 1500})      # the budget is the number of executions; the time bound is a safety net for a loaded machine


def strategy(tier):
    # main program of up to ~30 generated items (quick) / ~60 (thorough), definitions and declarations not counted
    return GF.cases(max_total=30 if tier == "quick" else 60)


def case_label(case):
    if case.get("kind"):
        return case["kind"]
    return "forth|" + _features(case)


def _features(case):
    toks = set(case["source"].split())
    keys = []
    for name, words in (("do", ("do",)), ("begin", ("begin",)), ("def", (":",)), ("exit", ("exit",)), ("halt", ("halt",)), ("pause", ("pause",)),
                        ("div", ("/", "mod", "/mod")), ("rewind", ("rewind",)), ("rep", tuple(w for w in toks if w.startswith("#")))):
        if toks & set(words):
            keys.append(name)
    return "+".join(keys) or "plain"


# ------------------------------------------------------------------------------------------------------------ helpers
HARD_UNSPEC_PREFIX = "after-error:"


def hard_unspec(model):
    return sorted(u for u in model.unspec if not u.startswith(HARD_UNSPEC_PREFIX))


def decode_output(dtype, hexstr):
    code = MF.DTYPES[dtype][0]
    raw = bytes.fromhex(hexstr)
    if code == "?":
        code = "B"
    n = len(raw) // struct.calcsize("<" + code)
    return list(struct.unpack("<%d%s" % (n, code), raw))


def same_number(a, b):
    if isinstance(a, float) or isinstance(b, float):
        a, b = float(a), float(b)
        if a != a or b != b:
            return a != a and b != b
        return a == b and math.copysign(1.0, a) == math.copysign(1.0, b)
    return int(a) == int(b)


def compare_with_model(msnap, vsnap, verr, model, final):
    """first component on which the machine (vsnap) differs from the model (msnap), or None"""
    skip_stack = final and "after-error:stack" in model.unspec and msnap["error"] != "none"
    skip_pos = final and "after-error:pos" in model.unspec and msnap["error"] != "none"
    if vsnap.get("inputs_modified"):
        # the result is a function of the input bytes: a machine that scribbles on its input (e.g. an in-place byte swap that is
        # not undone) changes what a later read of the same bytes sees.  Added after the seeded change C19-b was missed.
        return "inputs-modified", 0, vsnap["inputs_modified"]
    if msnap["error"] != verr:
        return "error", msnap["error"], verr
    if msnap["ready"] != vsnap["ready"] or msnap["done"] != vsnap["done"]:
        return "flags", [msnap["ready"], msnap["done"]], [vsnap["ready"], vsnap["done"]]
    if not skip_stack and msnap["stack"] != vsnap["stack"]:
        return "stack", msnap["stack"], vsnap["stack"]
    if msnap["variables"] != vsnap["variables"]:
        return "variables", msnap["variables"], vsnap["variables"]
    if not skip_pos and msnap["ready"] and msnap["positions"] != {k: v for k, v in vsnap["positions"].items() if k in msnap["positions"]}:
        return "positions", msnap["positions"], vsnap["positions"]
    if msnap["ready"] or vsnap["outputs"]:
        mo, vo = msnap["outputs"], vsnap["outputs"]
        if sorted(mo) != sorted(vo):
            return "outputs", sorted(mo), sorted(vo)
        for name in mo:
            if vo[name][0] == "negative-length":
                return "outputs", mo[name], vo[name]
            if mo[name][0] != vo[name][0]:
                return "outputs", mo[name][0], vo[name][0]
            got = decode_output(vo[name][0], vo[name][1])
            exp = mo[name][1]
            if len(got) != len(exp) or not all(same_number(a, b) for a, b in zip(exp, got)):
                return "outputs", {name: exp}, {name: got}
    return None


def strip(snap):
    """the part of a machine snapshot that must not depend on how execution was split"""
    return {k: snap[k] for k in ("stack", "variables", "outputs", "positions", "ready", "done")}


def drive(vm, run, inputs, calls, words, limit):
    """reference schedule: run, then resume after every pause; Python-side calls at the requested pause counts.
    -> list of (what, error name, snapshot)"""
    trace = []
    err = run(inputs)
    trace.append(("run", err, vm.snapshot()))
    pauses = 0
    pending = list(calls)
    for _ in range(limit):
        for c in list(pending):
            if c[0] == pauses and err == "none":
                pending.remove(c)
                err = vm.call_code(words[c[1] % len(words)]) if hasattr(vm, "call_code") else vm.call(words[c[1] % len(words)])
                trace.append(("call", err, vm.snapshot()))
        snap = trace[-1][2]
        if err != "none" or snap["done"]:
            break
        err = vm.resume_code() if hasattr(vm, "resume_code") else vm.resume()
        pauses += 1
        trace.append(("resume", err, vm.snapshot()))
    return trace


def new_machine(case, source=None, bits=None, growth=None):
    cls = F().ForthMachine32 if (bits or case["bits"]) == 32 else F().ForthMachine64
    init, factor = growth if growth is not None else case["growth"][0]
    return cls(source if source is not None else case["source"], case["stack"], case["recursion"], init, factor)


def try_compile(case, **kw):
    """(machine, None) or (None, message)"""
    from akshim.core import OtherNativeError
    try:
        return new_machine(case, **kw), None
    except ValueError as e:
        return None, "ValueError: " + str(e).split("\n")[0][:200]
    except OtherNativeError as e:
        return None, "OtherNativeError: " + str(e)[:200]


class Findings(object):
    def __init__(self, case):
        self.case = case
        self.items = []

    def add(self, bucket, message, expected=None, observed=None, clause=None):
        self.items.append(Violation(bucket, message, expected, observed, clause))

    def raise_first(self):
        if not self.items:
            return
        unknown = [v for v in self.items if not any(fn(self.case, v.todict()) for fn in KNOWN.values())]
        raise (unknown or self.items)[0]


# ------------------------------------------------------------------------------------------------------------ the case
def run_case(case):
    if case.get("kind") == "fuzz":
        return run_fuzz(case)
    if case.get("kind") == "fuzzinput":
        return run_fuzzinput(case)
    src = case["source"]
    inputs = {k: bytes.fromhex(v) for k, v in case["inputs"].items()}
    tags = ["bits:%d" % case["bits"], "mutated" if case["mutated"] else "grammar"]
    found = Findings(case)

    # ---- compile verdicts
    try:
        model = MF.Machine(src, case["bits"], case["stack"], case["recursion"], budget=MODEL_BUDGET)
        merr = None
    except MF.CompileError as e:
        model, merr = None, str(e)
    except MF.Unspecified as e:
        model, merr = None, e
    vm, verr = try_compile(case)
    other, oerr = try_compile(case, bits=96 - case["bits"])
    if isinstance(merr, MF.Unspecified):
        # neither accepted nor rejected by the documentation: compiling must not crash, nothing else is asserted
        return {"tags": tags, "discarded": "undocumented source text: " + str(merr), "nontrivial": False}
    if (vm is None) != (other is None):
        raise Violation("compile:width-dependent", "ForthMachine32 and ForthMachine64 disagree on whether the source compiles", verr, oerr, "compile-time faults")
    if model is None and vm is not None:
        raise Violation("compile:accepted-invalid|" + merr.split(":")[0][:40], "a program that is not valid AwkwardForth compiles: " + merr, merr, "compiled", "compile-time faults")
    if model is not None and vm is None:
        raise Violation("compile:rejected-valid", "a valid program is rejected: " + verr, "compiles", verr, "compile-time faults")
    if model is None:
        return {"tags": tags + ["outcome:compile-error"], "nontrivial": False, "sample_class": "compile-error"}
    words = list(model.prog.words)

    # ---- reference run of the model (with and without the Python-side calls)
    calls = [c for c in case["calls"]] if words else []
    try:
        mtrace0 = drive(model, model.run, inputs, [], words, MODEL_BUDGET)
        if calls:
            model_c = MF.Machine(src, case["bits"], case["stack"], case["recursion"], budget=MODEL_BUDGET)
            mtrace_c = drive(model_c, model_c.run, inputs, calls, words, MODEL_BUDGET)
        else:
            model_c, mtrace_c = model, mtrace0
    except MF.BudgetExceeded:
        return {"tags": tags, "discarded": "instruction budget exhausted in the reference interpreter", "nontrivial": False}
    except ValueError as e:
        # an input the program declares was not provided: the machine must refuse too
        try:
            vm.begin(inputs)
        except ValueError:
            return {"tags": tags + ["outcome:missing-input"], "nontrivial": False, "sample_class": "missing-input"}
        raise Violation("begin:missing-input-accepted", "begin() accepts a run without a declared input", str(e), "accepted")
    both = (model, model_c)
    crash = sorted(set().union(*[m.crash for m in both]))
    ub = sorted(set().union(*[m.ub for m in both]))
    if crash and not case.get("force"):
        return {"tags": tags, "excluded": "crash:" + crash[0], "nontrivial": False}
    if ub and FLAVOUR[0] == "san" and not case.get("force"):
        return {"tags": tags, "excluded": "ub:" + ub[0], "nontrivial": False}

    if hard_unspec(model) or hard_unspec(model_c):
        # the program does something the description gives no answer for, so the reference run does not tell whether the machine
        # terminates: decide that with the machine's own step budget before anything is run to completion
        vb = new_machine(case)
        vb.begin(inputs)
        err, taken = ("none", 0) if vb.is_done else vb.step_n(4 * MODEL_BUDGET + 64)
        if err == "none" and not vb.is_done:
            return {"tags": tags, "discarded": "undocumented behaviour and the machine exceeds the step budget", "nontrivial": False}
        vb.close()

    final_m = mtrace0[-1]
    tags.append("outcome:" + final_m[1])
    tags += sorted(model.census - set(t for t in model.census if t.startswith("exec:read:")))
    tags += ["reader:" + t[10:] for t in model.census if t.startswith("exec:read:")]
    ncalls = sum(1 for t in mtrace_c if t[0] == "call")
    if ncalls:
        tags.append("host-calls:%d" % min(ncalls, 2))
    npauses = sum(1 for t in mtrace0 if t[0] == "resume")
    if npauses:
        tags.append("pauses:%d" % min(npauses, 3))
    smallest = min(g[0] for g in case["growth"])
    if any(len(v[1]) > smallest for v in final_m[2]["outputs"].values()):
        tags.append("output-grew")
    looped = bool(model.census & {"exec:do", "exec:begin", "exec:call"})
    io = bool(model.census & {"exec:read", "exec:write", "exec:write+", "exec:write-direct"})
    nontrivial = looped and io

    # ---- oracle 1: the machine against the reference interpreter, at every pause point and at the end
    limit = len(mtrace_c) + 2
    vtrace_c = drive(vm, vm.run_code_py, inputs, calls, words, limit)
    unspec = hard_unspec(model_c)
    if unspec:
        tags.append("model-silent")
        tags += ["silent:" + u for u in unspec]
    else:
        _compare_traces(found, mtrace_c, vtrace_c, model_c, "model" + (":calls" if calls else ""))
    if calls:
        vm0 = new_machine(case)
        vtrace0 = drive(vm0, vm0.run_code_py, inputs, [], words, len(mtrace0) + 2)
        unspec0 = hard_unspec(model)
        if not unspec0 and not found.items:
            _compare_traces(found, mtrace0, vtrace0, model, "model")
    else:
        vm0, vtrace0 = vm, vtrace_c
    ref = [(w, e, strip(s)) for w, e, s in vtrace0]
    final = ref[-1]
    terminated = final[1] != "none" or final[2]["done"]
    if not terminated:
        found.add("run:does-not-finish", "the machine is still pausing after more resumes than the reference run has pause points", len(mtrace0), len(vtrace0))
        found.raise_first()

    # ---- oracle 2: model-free relations
    # (a) determinism: the same machine again, and the C++ run() entry point on a fresh machine
    again = drive(vm0, lambda ins: (vm0.begin_again(), vm0.resume_code())[1], inputs, [], words, len(ref) + 2)
    _same(found, "determinism:second-run", ref, again)
    vm1 = new_machine(case)
    _same(found, "determinism:cpp-run", ref, drive(vm1, vm1.run_code, inputs, [], words, len(ref) + 2))
    # (b) output-buffer growth settings
    for g in case["growth"][1:]:
        vg = new_machine(case, growth=g)
        _same(found, "growth:%s/%s" % (g[0], g[1]), ref, drive(vg, vg.run_code_py, inputs, [], words, len(ref) + 2))
    # (c) decompiled() compiles again and behaves identically
    text = vm0.decompiled
    vd, derr = try_compile(case, source=text)
    if vd is None:
        found.add("decompile:does-not-compile", "decompiled() text is rejected: " + derr, "compiles", {"decompiled": text, "error": derr}, "decompiled program")
    else:
        _same(found, "decompile:behaves-differently", ref, drive(vd, vd.run_code_py, inputs, [], words, len(ref) + 2), extra={"decompiled": text})
        if vd.decompiled != text:
            found.add("decompile:not-idempotent", "decompiling the re-compiled decompiled text gives a different text", text, vd.decompiled, "decompiled program")
    # (d) 32- and 64-bit machines agree when nothing exceeds 32 bits
    if model.max_abs < (1 << 31) and not hard_unspec(model) and not model.ub and "shift-count-beyond-32" not in model.flags:
        tags.append("width-comparable")
        _same(found, "width:32-vs-64", ref, drive(other, other.run_code_py, inputs, [], words, len(ref) + 2))
    # (e) single-stepping to the end, and a generated interleaving of step and resume segments
    # budget from the machine's own instruction count of the reference run (a step executes one instruction; leaving finished
    # blocks can take a step of its own)
    budget = 4 * max(model.steps, vtrace0[-1][2].get("count_instructions", 0)) + 64
    vs = new_machine(case)
    vs.begin(inputs)
    err, taken = ("none", 0) if vs.is_done else vs.step_n(budget)
    if err == "none" and not vs.is_done:
        found.add("step:does-not-finish", "single-stepping has not finished after %d steps (the reference run takes %d instructions)" % (taken, model.steps),
                  final[2], strip(vs.snapshot()), "step-independent")
    else:
        _same(found, "step:all-steps", [final], [("step", err, strip(vs.snapshot()))])
    if case["schedule"]:
        vx = new_machine(case)
        vx.begin(inputs)
        err = "none"
        total = 0
        for k in case["schedule"]:
            if err != "none" or vx.is_done:
                break
            if k:
                err, taken = vx.step_n(k)
                total += taken
            if err == "none" and not vx.is_done:
                err = vx.resume_code()
        for _ in range(len(ref) + 2):
            if err != "none" or vx.is_done:
                break
            err = vx.resume_code()
        _same(found, "step:interleaved", [final], [("mixed", err, strip(vx.snapshot()))], extra={"schedule": case["schedule"]})
        tags.append("interleaved")
    found.raise_first()
    return {"tags": tags, "nontrivial": nontrivial, "sample_class": final_m[1] + ("|loop+io" if nontrivial else "")}


def _compare_traces(found, mtrace, vtrace, model, label):
    for k, (what, merr_, msnap) in enumerate(mtrace):
        if k >= len(vtrace):
            found.add(label + ":shorter-run", "the machine stopped after %d of %d run/resume/call segments" % (len(vtrace), len(mtrace)), what, vtrace[-1][1], "reference interpreter")
            return
        vwhat, verr_, vsnap = vtrace[k]
        last = k == len(mtrace) - 1
        d = compare_with_model(msnap, vsnap, verr_, model, last)
        if d is not None:
            where = "end" if last else "pause"
            found.add("%s:%s@%s" % (label, d[0], where), "after segment %d (%s) the %s differs from the documented semantics" % (k, what, d[0]), d[1], d[2], "reference interpreter")
            return
    if len(vtrace) > len(mtrace):
        found.add(label + ":longer-run", "the machine needs more run/resume segments than the program has pause points", len(mtrace), len(vtrace), "reference interpreter")


def _same(found, bucket, ref, got, extra=None):
    got = [(w, e, strip(s)) for w, e, s in got]
    a = [(e, s) for _, e, s in ref]
    b = [(e, s) for _, e, s in got]
    if a == b:
        return
    if len(a) != len(b):
        found.add(bucket + "|segments", "different number of pause points", len(a), len(b), "model-free relation")
        return
    for k in range(len(a)):
        if a[k] != b[k]:
            comp = "error" if a[k][0] != b[k][0] else next(c for c in a[k][1] if a[k][1][c] != b[k][1][c])
            exp = {"error": a[k][0], "state": a[k][1]}
            obs = {"error": b[k][0], "state": b[k][1]}
            if extra:
                obs.update(extra)
            found.add("%s|%s" % (bucket, comp), "state differs at segment %d of %d in component %s" % (k, len(a), comp), exp, obs, "model-free relation")
            return


# ------------------------------------------------------------------------------------------------------------ libFuzzer campaign
def fuzz_binary():
    from vlib.common import build_dir
    return os.path.join(build_dir("san"), "fuzz_forth")


def _ensure_fuzz_binary():
    from vlib.runner import build
    if not build(["san"], "fuzz_forth") or not os.path.exists(fuzz_binary()):
        raise HarnessError("fuzz target %s could not be built (make FLAVOUR=san fuzz_forth)" % fuzz_binary())


def _fuzz_env():
    from vlib.runner import worker_env
    env = worker_env("san")          # LD_PRELOAD of the shared ASan runtime the target is linked against
    env["ASAN_OPTIONS"] = "detect_leaks=0:abort_on_error=0:detect_odr_violation=0:symbolize=1:allocator_may_return_null=1:quarantine_size_mb=8"
    return env


def _fuzz_seed_inputs():
    """a few byte strings that decode (fuzz/fuzz_forth.cpp) to programs with loops, definitions, reads and writes"""
    out = []
    for k in range(24):
        body = bytes((37 * k + 11 * j * (k + 1)) % 251 for j in range(8 + 3 * k))
        out.append(bytes([k, 16 * k % 256]) + body + b"\xff" + bytes((5 * j + k) % 256 for j in range(24)))
    return out


def _run_with_heartbeat(cmd, env, errpath, limit):
    """run a long child process; while it runs, touch this worker's slot file so that the runner's per-case watchdog (which looks at
    the slot's age) does not take a fuzzing campaign of several minutes for a hang. libFuzzer's own -timeout guards single inputs;
    `limit` seconds bounds the whole campaign. -> (stderr text, return code)"""
    slot = (sys.argv[6] + ".slot") if len(sys.argv) > 6 and sys.argv[0].endswith("worker.py") else None
    with open(errpath, "wb") as ef:
        proc = subprocess.Popen(cmd, stdout=subprocess.DEVNULL, stderr=ef, env=env)
        t0 = time.time()
        while True:
            try:
                rc = proc.wait(timeout=10)
                break
            except subprocess.TimeoutExpired:
                if slot is not None and os.path.exists(slot):
                    os.utime(slot, None)
                if time.time() - t0 > limit:
                    proc.kill()
                    proc.wait()
                    raise HarnessError("fuzz_forth did not finish its %s within %d s" % (cmd[1], limit))
    with open(errpath, "rb") as f:
        return f.read().decode("utf-8", "replace"), rc


def _fuzz_failure(err):
    m = re.search(r"(ORACLE: [^\n]*|SUMMARY: [^\n]*|runtime error: [^\n]*|ERROR: libFuzzer: [^\n]*)", err)
    return m.group(1) if m else None


def run_fuzz(case):
    exe = fuzz_binary()
    _ensure_fuzz_binary()
    from vlib.common import build_dir
    work = tempfile.mkdtemp(prefix="fuzz_forth_", dir=build_dir("san"))
    corpus = os.path.join(work, "corpus")
    os.makedirs(corpus)
    for i, s in enumerate(_fuzz_seed_inputs()):
        with open(os.path.join(corpus, "seed%02d" % i), "wb") as f:
            f.write(s)
    cmd = [exe, "-runs=%d" % case["runs"], "-seed=%d" % case["seed"], "-max_len=%d" % case["max_len"], "-len_control=0", "-artifact_prefix=" + work + "/",
           "-print_final_stats=1", "-timeout=20", "-rss_limit_mb=4096", "-close_fd_mask=1", "-max_total_time=%d" % case.get("max_time", 1500), corpus]
    try:
        err, rc = _run_with_heartbeat(cmd, _fuzz_env(), os.path.join(work, "stderr.txt"), limit=3000)
        stats = dict(re.findall(r"stat::(\w+):\s+(\d+)", err))
        counts = {"fuzz_executions": int(stats.get("number_of_executed_units", 0)), "fuzz_new_units": int(stats.get("new_units_added", 0))}
        arts = sorted(glob.glob(os.path.join(work, "crash-*")) + glob.glob(os.path.join(work, "timeout-*")) + glob.glob(os.path.join(work, "oom-*")))
        if rc != 0 or arts:
            data = open(arts[0], "rb").read() if arts else b""
            what = _fuzz_failure(err) or "exit status %d" % rc
            sub = {"kind": "fuzzinput", "hex": data.hex()}
            vio = {"bucket": "fuzz:" + what[:60], "message": "fuzz_forth: " + what, "expected": None, "observed": err[-2500:], "clause": None}
            try:
                from vlib.runner import write_replay
                rp = write_replay(ID, "san", sub, vio, case["seed"])
            except Exception as e:   # noqa: B902
                rp = "replay not written: %r" % (e,)
            raise Violation("fuzz:" + what[:60], "libFuzzer target fuzz_forth failed (%s); input saved as %s" % (what, rp),
                            expected={"hex": data.hex()}, observed=err[-2500:])
    finally:
        shutil.rmtree(work, ignore_errors=True)
    return {"tags": ["part:fuzz"], "counts": counts, "nontrivial": False, "sample_class": "fuzz"}


def run_fuzzinput(case):
    """one stored libFuzzer input through the target (replay of a fuzz finding)"""
    exe = fuzz_binary()
    _ensure_fuzz_binary()
    fd, path = tempfile.mkstemp(suffix=".fuzz")
    with os.fdopen(fd, "wb") as f:
        f.write(bytes.fromhex(case["hex"]))
    try:
        p = subprocess.run([exe, "-close_fd_mask=1", path], capture_output=True, env=_fuzz_env(), timeout=120)
    finally:
        os.unlink(path)
    if p.returncode != 0:
        err = p.stderr.decode("utf-8", "replace")
        raise Violation("fuzz:" + (_fuzz_failure(err) or "exit %d" % p.returncode)[:60], "fuzz_forth fails on this input", observed=err[-2500:])
    return {"tags": ["part:fuzzinput"], "nontrivial": False}


# ------------------------------------------------------------------------------------------------------------ known findings
def _model_of(case, calls=False):
    m = MF.Machine(case["source"], case["bits"], case["stack"], case["recursion"], budget=MODEL_BUDGET)
    try:
        drive(m, m.run, {k: bytes.fromhex(v) for k, v in case["inputs"].items()}, case["calls"] if calls else [], list(m.prog.words), MODEL_BUDGET)
    except (MF.BudgetExceeded, ValueError):
        pass
    return m


def known_call_at_do_body_end(case, vio):
    """call() from Python while the program is paused on a 'pause' that is the last instruction of a do-loop body: the end of the
    called word is taken for the end of the loop body and the loop index advances once more"""
    return (vio.get("bucket", "").startswith("model:calls:") and bool(case.get("calls"))
            and "call-at-do-body-end" in _model_of(case, calls=True).flags)


def known_pause_at_steploop_body_end(case, vio):
    """a 'pause' that is the last instruction of a 'do ... +loop' body finishes the iteration before pausing: the step has
    already been popped (or found missing) when the machine is observed at that pause"""
    return vio.get("bucket", "").startswith("model:") and "pause-at-steploop-body-end" in _model_of(case, calls=True).flags


def known_structure_word_in_comment(case, vio):
    """the parser looks for the closing word of if/do/begin/: before it removes comments: a structure word inside a comment is
    taken for program structure (valid programs rejected, unbalanced ones accepted, or compiled to a different program)"""
    if not vio.get("bucket", "").startswith(("compile:", "model:")):
        return False
    return any(t in MF.STRUCTURE_IN_COMMENT for body in MF.comments_of(case["source"]) for t in body)


def known_structure_word_in_string(case, vio):
    """the same search for the closing word also runs over the text of string literals: a structure word inside ." ..." or s" ..." is
    taken for program structure (found by the thorough tier: '0 if pause ." <newline> begin hello" then' is rejected)"""
    if not vio.get("bucket", "").startswith(("compile:", "model:")):
        return False
    try:
        toks = MF.tokenize(case["source"])
    except (MF.CompileError, MF.Unspecified):
        return False
    for i, t in enumerate(toks[:-1]):
        if t in (".\"", "s\"") and any(w in MF.STRUCTURE_IN_COMMENT for w in toks[i + 1].replace('"', " ").split()):
            return True
    return False


def known_ub_arithmetic(case, vio):
    """wraparound arithmetic is implemented with signed overflow / out-of-range shifts / out-of-range float conversions, which are
    undefined in C++: UBSan ends the process (such programs are not executed in the sanitizer flavour unless forced by a replay)"""
    if not vio.get("bucket", "").startswith("crash:"):
        return False
    m = _model_of(case, calls=True)
    return bool(m.ub)


def known_string_index_after_decompile(case, vio):
    """s" pushes the index of the string in the program's string table; decompiled() moves word definitions to the front, which
    renumbers the strings of a program that has a string before a definition containing another one"""
    if not vio.get("bucket", "").startswith("decompile:behaves-differently"):
        return False
    try:
        prog = MF.compile_source(case["source"])
    except (MF.CompileError, MF.Unspecified):
        return False
    return len(prog.strings) >= 2 and bool(prog.words) and 's"' in case["source"].split()


KNOWN = {
    "forth_string_index_after_decompile": known_string_index_after_decompile,
    "forth_ub_arithmetic": known_ub_arithmetic,
    "forth_structure_word_in_comment": known_structure_word_in_comment,
    "forth_structure_word_in_string": known_structure_word_in_string,
    "forth_pause_at_steploop_body_end": known_pause_at_steploop_body_end,
    "forth_call_at_do_body_end": known_call_at_do_body_end,
}
