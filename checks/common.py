"""Shared execution helpers for tier-L checks: build, run one operation, enforce the cross-cutting
post-conditions (C11 closure: results valid; C12 purity: input buffers untouched), read the result back."""
import numpy as np

from akmodel import core as M
from akshim import describe as D
from akshim import layout as L
from akshim.core import call, result_str
from checks import ops
from vlib.common import Violation, HarnessError


def classpath(d, limit=4):
    out = []
    while d is not None and len(out) < limit:
        out.append(d["class"])
        d = d.get("content") or (d.get("contents") or [None])[0]
    return ">".join(out)


def closure_kind(err):
    if "must be directly inside" in err or "must directly contain" in err:
        return "string_parameters"
    if "forgotten to call" in err:
        return "unsimplified"
    m = err.split("): ")
    tail = m[1] if len(m) > 1 else err
    return tail.split("\n")[0].split(" at i=")[0][:60]


def typestr(layout):
    return result_str(call("typestr", [layout._h]))


def run_checked(desc, spec, what="", second=None):
    """build `desc`, apply `spec`; returns (kind, result, (T, V) or None).
    Raises Violation for post-condition failures; bridge misuse propagates (harness error)."""
    buffers = []
    lay = D.build(desc, buffers)
    snaps = [b.tobytes() for b in buffers]
    kind, res = ops.outcome(lambda: ops.apply_op(lay, spec))
    for b, s in zip(buffers, snaps):
        if b.tobytes() != s:
            raise Violation("purity:%s" % (spec["op"],), "an input buffer was modified by %s" % spec["op"],
                            clause="C12-purity")
    if kind == "OtherNativeError":
        raise Violation("exception:%s" % (spec["op"],), "non-documented C++ exception: " + res[:200], clause="C12-exception")
    if kind != "ok":
        return kind, res, None
    tv = None
    if isinstance(res, L.Content):
        if not isinstance(res, L.Record):
            err = res.validityerror()
            if err is not None:
                raise Violation("closure:%s:%s" % (spec["op"], closure_kind(err)), "result of %s on a valid array is invalid: %s" % (spec["op"], err[:300]),
                                observed=_safe_describe(res), clause="C11-closure")
        try:
            tv = D.value_of(res)
        except (M.Invalid, ValueError) as e:      # ValueError: the library refuses to walk its own result (e.g. a negative length)
            raise Violation("closure:%s:unevaluable" % (spec["op"],), "result of %s cannot be evaluated: %s" % (spec["op"], e),
                            observed=_safe_describe(res), clause="C11-closure")
    # the input still reads back as the same value
    return kind, res, tv


def _safe_describe(res):
    try:
        return D.describe(res if not isinstance(res, L.Record) else res.array)
    except Exception as e:  # noqa: B902
        return "undescribable: %r" % (e,)




def plain(res):
    """operation result reduced to comparable Python data"""
    if isinstance(res, L.Content):
        return None
    if isinstance(res, np.generic):
        return res.item()
    if isinstance(res, tuple):
        return [plain(x) if not isinstance(x, (list, tuple)) else list(x) for x in res]
    return res
