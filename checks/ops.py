"""Operation catalogue shared by the tier-L checks: argument strategies and execution through akshim."""
import numpy as np
from hypothesis import strategies as st

from akmodel import core as M

REDUCERS = ["count", "count_nonzero", "sum", "prod", "any", "all", "min", "max", "argmin", "argmax"]


def depth_range(T):
    mn, mx = M.minmax_depth(T)
    return mn, mx


@st.composite
def axis_for(draw, T, legal_only=False):
    mn, mx = depth_range(T)
    if legal_only:
        choices = list(range(0, mn)) + list(range(-mn, 0))
        return draw(st.sampled_from(choices))
    return draw(st.integers(-mx - 1, mx + 1))


@st.composite
def simple_slice_item(draw, n):
    k = draw(st.sampled_from(["at", "range", "range", "array", "ellipsis", "newaxis"]))
    if k == "at":
        return {"k": "at", "i": draw(st.integers(-n - 1, n))}
    if k == "range":
        b = st.one_of(st.none(), st.integers(-n - 2, n + 2))
        return {"k": "range", "start": draw(b), "stop": draw(b), "step": draw(st.sampled_from([None, 1, 2, -1, -2, 3, n + 1, -(n + 1)]))}
    if k == "array":
        m = draw(st.integers(0, 4))
        hi = max(n - 1, 0)
        return {"k": "array", "data": [draw(st.integers(-n, hi)) if n > 0 else 0 for _ in range(m)]}
    return {"k": k}


def realise_slice_item(it):
    k = it["k"]
    if k == "at":
        return it["i"]
    if k == "range":
        return slice(it["start"], it["stop"], it["step"])
    if k == "array":
        return np.array(it["data"], dtype=np.int64)
    if k == "ellipsis":
        return Ellipsis
    if k == "newaxis":
        return None
    if k == "field":
        return it["name"]
    if k == "fields":
        return list(it["names"])
    raise ValueError(it)


@st.composite
def draw_op(draw, T, vals, families=None):
    n = len(vals)
    fams = families or ["getitem_at", "getitem_range", "getitem", "num", "flatten", "localindex", "reduce", "sort", "argsort", "rpad",
                        "rpad_and_clip", "combinations", "simplify", "deep_copy", "tojson", "carry",
                        "numbers_to_type", "type", "form", "validity", "fillna", "purelist"]
    f = draw(st.sampled_from(fams))
    if f == "mergeself":
        return {"op": f, "copies": draw(st.integers(1, 2)), "via": draw(st.sampled_from(["mergemany", "merge"]))}
    if f == "getitem_at":
        return {"op": f, "i": draw(st.integers(-n - 1, n))}
    if f == "getitem_range":
        b = st.one_of(st.none(), st.integers(-n - 2, n + 2))
        return {"op": f, "start": draw(b), "stop": draw(b)}
    if f == "getitem":
        k = draw(st.integers(1, 3))
        items = [draw(simple_slice_item(max(n, 1) if i == 0 else 3)) for i in range(k)]
        # at most one ellipsis
        seen = False
        for it in items:
            if it["k"] == "ellipsis":
                if seen:
                    it["k"] = "newaxis"
                seen = True
        if k >= 2 and n > 0 and draw(st.integers(0, 3)) == 0:
            # an array index followed by a range that selects nothing: every list of the next level becomes empty but stays
            # (added after the seeded change C02-d - RegularArray losing its length there - was seen by C01 only)
            m = draw(st.integers(1, 3))
            items[0] = {"k": "array", "data": [draw(st.integers(-n, n - 1)) for _ in range(m)]}
            b = draw(st.integers(-2, 4))
            items[1] = {"k": "range", "start": b, "stop": draw(st.sampled_from([b, b, 0])), "step": draw(st.sampled_from([None, 1, 2]))}
        return {"op": f, "items": items}
    if f in ("num", "flatten", "localindex"):
        return {"op": f, "axis": draw(axis_for(T))}
    if f == "reduce":
        return {"op": f, "name": draw(st.sampled_from(REDUCERS)), "axis": draw(axis_for(T)), "mask": draw(st.booleans()),
                "keepdims": draw(st.booleans())}
    if f in ("sort", "argsort"):
        return {"op": f, "axis": draw(axis_for(T)), "ascending": draw(st.booleans()), "stable": draw(st.booleans())}
    if f in ("rpad", "rpad_and_clip"):
        return {"op": f, "target": draw(st.integers(0, 5)), "axis": draw(axis_for(T))}
    if f == "combinations":
        return {"op": f, "n": draw(st.integers(1, 3)), "replacement": draw(st.booleans()), "axis": draw(axis_for(T))}
    if f == "carry":
        m = draw(st.integers(0, 5))
        return {"op": f, "index": [draw(st.integers(0, max(n - 1, 0))) for _ in range(m)] if n > 0 else []}
    if f == "numbers_to_type":
        return {"op": f, "name": draw(st.sampled_from(["int64", "float64", "int32", "float32", "uint8", "bool", "complex128"]))}
    if f == "fillna":
        return {"op": f, "value": draw(st.sampled_from([0, 1, -1, 2.5]))}
    if f == "optconvert":
        return {"op": f, "how": draw(st.sampled_from(["toIndexedOptionArray64", "toByteMaskedArray", "simplify", "bytemask", "project", "deep_copy"]))}
    return {"op": f}


def apply_op(layout, spec):
    """executes one catalogue operation; returns whatever the binding would return"""
    from akshim import layout as L
    op = spec["op"]
    if op == "getitem_at":
        return layout[spec["i"]]
    if op == "getitem_range":
        return layout[spec["start"]:spec["stop"]]
    if op == "getitem":
        items = tuple(realise_slice_item(it) for it in spec["items"])
        return layout[items if len(items) != 1 else items[0]]
    if op == "num":
        return layout.num(spec["axis"])
    if op == "flatten":
        return layout.flatten(spec["axis"])
    if op == "localindex":
        return layout.localindex(spec["axis"])
    if op == "reduce":
        return getattr(layout, spec["name"])(spec["axis"], spec["mask"], spec["keepdims"])
    if op == "sort":
        return layout.sort(spec["axis"], spec["ascending"], spec["stable"])
    if op == "argsort":
        return layout.argsort(spec["axis"], spec["ascending"], spec["stable"])
    if op == "rpad":
        return layout.rpad(spec["target"], spec["axis"])
    if op == "rpad_and_clip":
        return layout.rpad_and_clip(spec["target"], spec["axis"])
    if op == "combinations":
        return layout.combinations(spec["n"], spec["replacement"], None, None, spec["axis"])
    if op == "simplify":
        return layout.simplify()
    if op == "deep_copy":
        return layout.deep_copy()
    if op == "mergeself":
        # the array concatenated with itself: the second copy's indexes/offsets must be shifted by the right base
        if spec["via"] == "merge":
            out = layout
            for _ in range(spec["copies"]):
                out = out.merge(layout)
            return out
        return layout.mergemany([layout] * spec["copies"])
    if op == "tojson":
        return layout.tojson()
    if op == "carry":
        return layout.carry(L.Index64(np.array(spec["index"], dtype=np.int64)), False)
    if op == "unique":
        return layout.unique()
    if op == "is_unique":
        return layout.is_unique()
    if op == "numbers_to_type":
        return layout.numbers_to_type(spec["name"])
    if op == "type":
        from akshim.core import call, result_str
        return result_str(call("typestr", [layout._h]))
    if op == "form":
        return (layout.purelist_depth, layout.minmax_depth, layout.branch_depth, layout.purelist_isregular, layout.numfields, layout.keys())
    if op == "validity":
        return layout.validityerror()
    if op == "fillna":
        v = spec["value"]
        return layout.fillna(L.NumpyArray(np.array([v])))
    if op == "optconvert":
        how = spec["how"]
        if how in ("toIndexedOptionArray64", "toByteMaskedArray", "bytemask", "project") and not hasattr(layout, how):
            how = "simplify"
        out = getattr(layout, how)()
        if how == "bytemask":
            return [bool(x) for x in np.asarray(out).tolist()]
        return out
    if op == "getitem_nothing":
        return layout.getitem_nothing()
    if op == "purelist":
        # parameters seen through the list structure, the length, and the depth queries (purelist_depth, minmax_depth, branch_depth)
        return (layout.purelist_parameter("__array__"), layout.purelist_parameter("__record__"), len(layout),
                layout.purelist_depth, list(layout.minmax_depth), list(layout.branch_depth))
    raise ValueError(op)


def outcome(fn):
    """('ok', result) | ('ValueError'|'RuntimeError'|'OtherNativeError', message)"""
    from akshim.core import OtherNativeError
    try:
        return ("ok", fn())
    except ValueError as e:
        return ("ValueError", str(e))
    except RuntimeError as e:
        return ("RuntimeError", str(e))
    except OtherNativeError as e:
        return ("OtherNativeError", str(e))
